"""C04 - MIMO schemes recover the data over any full-rank channel within the
power budget; ZF / MMSE receive filters satisfy their defining equations.

E1 (finite product, exhaustive): schemes x antenna shapes x channel families x
data-block lengths, every case executed on pyphysim.mimo.mimo and compared with
identities evaluated by the harness:

* round trip   decode(H @ encode(d)) == d            (noise free, ZF)
* energy       mean_t ||encode(d)[:, t]||^2 == mean |d|^2
* pair         W=_calc_precoder(H), G=_calc_receive_filter(H,0): ||W||_F^2 == 1, G H W == I,
               encode(d) == W d      (all linear schemes; Alamouti has no linear pair)
* ZF filter    G H = I,  G == R^-1 Q^H (thin QR of H, harness side)
* MMSE filter  (H^H H + s I) W = H^H,  W == V diag(sv/(sv^2+s)) U^H (harness SVD),
               ||W(s) - pinv(H)||_2 non-increasing along s = 1,1e-2,..,1e-8 and
               <= s ||pinv(H)||_2^3
* Blast._calc_receive_filter(H, s) == sqrt(Nt) * (MMSE or ZF reference)

Channel families (vmc.families, no random generator): every matrix with
entries in {1,j,-1} and <= 6 (thorough 9) entries, every {0,+-1,+-j} matrix with
<= 4 (thorough 6) entries, the generic family G_s, nearly dependent members with
kappa 1e2 / 1e4.  Members that are column-rank deficient or have kappa > 1e4 are excluded
and counted.
"""
import contextlib
import itertools
import math
import os
import traceback

import numpy as np

from vmc import bfs
from vmc import families as F
from vmc import numerics as N
from vmc.parallel import run_shards, shard
from vmc.report import Broken, Check

PID = "C04"
LEVEL = "exploration"
ENGINE = "E1 exhaustive product: schemes x shapes x matrix families x block lengths + E3 BFS over object-reuse histories"
RULE = ("E1: Blast/SVDMimo/GMDMimo on every shape 1<=Nt<=Nr<=4 (all families) and 1<=Nt<=Nr<=6 (thorough 8; "
        "generic s<24/60 and nearly dependent members; generic / nearly dependent members of every shape also "
        "scaled by 1e-12,1e-9,1e-6,1e6,1e9 with noise variances scaled alike; nearly tied singular value "
        "profiles with relative gaps 1e-6 / 1e-9 at scales 1,1e-9,1e6), MRC Nr 1..4 (1-D and (Nr,1) channel), "
        "MRT Nt 1..4 (1-D and (1,Nt)), Alamouti Nr 1..4 (and 1-D channel of 2 taps); channels: all "
        "{1,j,-1}-entry matrices with <=6 (thorough 9) entries, all {0,+-1,+-j} matrices with <=4 (thorough 6) "
        "entries, generic family G_s s<30 (thorough 100), nearly dependent members (kappa 1e2,1e4) likewise; "
        "filtered to full column rank and kappa<=1e4 (Alamouti/MRT: non-zero channel; their equivalent channel is a scalar); data = "
        "distinguishable symbols of length layers*{1,2,3} (Alamouti {2,4,6}); noise variances "
        "1,1e-2,..,1e-8 for the filter relations.  A case is non-trivial when the scheme has to undo "
        "a channel that is not a multiple of the identity (Nr*Nt>1); distinct = distinct "
        "(scheme, channel form, family, member, shape, block count).  "
        "E3: ONE object per scheme, every history <= depth 4 (thorough 5) over {set_channel_matrix(3-4 channels: "
        "complex128, real float64 of another shape, int64, 1-D forms), set_noise_var(None|0.0|0.5|0.01) where the scheme has it, encode, "
        "decode, calc_linear_SINRs(0.05|2), calc_SINRs(0.05), _calc_precoder(ch), _calc_receive_filter(ch, None|0.05), invalid calls (negative noise variance, channel of a shape the scheme rejects, data length not a multiple of the layers: what they do is only recorded as outcomes; afterwards the model is re-synchronised from the channel / noise variance the object reports and the object is judged as usual)}; in every state decode(H_cur @ encode(d)) == d when the current noise variance is 0/None, "
        "encode/decode agree with a freshly built object of the current (channel, noise_var), Blast/MRC decode "
        "equals sqrt(Nt) W_MMSE(H_cur, noise_cur) y from the harness SVD, Nr/Nt/layers follow the current channel, three consecutive encode/decode rounds without touching the channel all agree, the held channel and the array handed to the setter stay bit-identical; "
        "Also FIVE live objects (2 Blast, GMDMimo, SVDMimo, MRC) used alternately, every sequence <= depth 3 "
        "(thorough 4) of {set_noise_var(0.5|None), set_channel_matrix(other), encode+decode+calc_SINRs} on any of "
        "them; afterwards every object must still recover its data / equal a lone object of its own configuration; "
        "states are merged only on identical (object digest incl. any cache, model channel, model noise)")

KAPPA_MAX = 1e4
C_RT = 1e3          # round trip / energy / ZF:   err <= C * eps * kappa * scale
C_MMSE = 1e3        # MMSE relations (normal equations): err <= C * eps * kappa^2 * scale
SIGMA2 = (1.0, 1e-2, 1e-4, 1e-6, 1e-8)
HEAD = 160
ALPH3 = (1, 1j, -1)
ALPH5 = (0, 1, 1j, -1, -1j)


MISSING = object()
VERIF_ROOT = os.path.dirname(os.path.dirname(os.path.abspath(__file__)))


def _private(obj, *names, default=MISSING):
    """tolerant access to a NON-public name of the library (oracle input / anchored helper): the first of the
    candidate spellings that exists, else `default`.  A relation that needs it is then skipped and counted as
    outcome `oracle_input_unavailable`; a missing private name never becomes a property violation."""
    for nm in names:
        try:
            return getattr(obj, nm)
        except AttributeError:
            continue
    return default


def _origin(exc):
    """'library' if the innermost frame that belongs to pyphysim or to /verif is pyphysim's, else 'check'"""
    tb = traceback.extract_tb(exc.__traceback__)
    for fr in reversed(tb):
        fn = os.path.abspath(fr.filename)
        if "/pyphysim/" in fn and not fn.startswith(VERIF_ROOT + os.sep):
            return "library"
        if fn.startswith(VERIF_ROOT + os.sep):
            return "check"
    return "check"


@contextlib.contextmanager
def guard(chk, sig_prefix, case):
    """chk.guard for VALID calls: an exception raised inside pyphysim is a violation; an exception whose
    innermost own frame is the check's code means the check is broken (exit 2), never a property verdict"""
    try:
        with chk.guard(sig_prefix, case):
            try:
                yield
            except (KeyboardInterrupt, SystemExit, Broken):
                raise
            except BaseException as e:  # noqa
                if _origin(e) == "check":
                    raise Broken("check code raised %s: %s at %s (case %s)" % (
                        type(e).__name__, e, traceback.extract_tb(e.__traceback__)[-1][:3],
                        {k: v for k, v in case.items() if k in ("part", "scheme", "fam", "member", "history")}))
                raise
    finally:
        pass


# ----------------------------------------------------------------------
# enumeration
# ----------------------------------------------------------------------
def shapes():
    out = [(nr, nt) for nr in range(1, 5) for nt in range(1, nr + 1)]
    out += [(1, nt) for nt in range(2, 5)]        # MRT rows, (1,2) also Alamouti
    return out


def channel_items(tier):
    """deterministic list generator of (family, member, H)"""
    thorough = tier == "thorough"
    max_entries3 = 9 if thorough else 6
    S = 100 if thorough else 30
    for (nr, nt) in shapes():
        if nr * nt <= max_entries3:
            for i, H in enumerate(F.small_entry_matrices((nr, nt), ALPH3)):
                yield ("unit3", i, H)
        if nr * nt <= (6 if thorough else 4):
            for i, H in enumerate(F.small_entry_matrices((nr, nt), ALPH5)):
                yield ("unit5", i, H)
        for s in range(S):
            yield ("generic", s, F.generic(s, (nr, nt), True, tag=4))
        if min(nr, nt) >= 2:
            for kappa in (1e2, 1e4):
                for s in range(S):
                    yield ("neardep%g" % kappa, s, F.nearly_dependent(s, (nr, nt), kappa))
    # global scale factors (every relation is scale covariant, tolerances are relative; the MMSE noise
    # variances are scaled by g^2 so that the scaled problem is exactly the same problem) and nearly
    # tied singular values (GMD decides rotations by comparing singular values with their geometric mean)
    Ss = 12 if thorough else 4
    for (nr, nt) in shapes() + [(5, 4), (5, 5), (6, 5), (6, 6)]:
        for g in SCALES:
            for s in range(Ss):
                yield ("generic@%g" % g, s, g * F.generic(s, (nr, nt), True, tag=4))
            if min(nr, nt) >= 2:
                for s in range(Ss // 2):
                    yield ("neardep100@%g" % g, s, g * F.nearly_dependent(s, (nr, nt), 1e2))
        if nt >= 2 and nr >= nt:
            for pi, prof in enumerate(near_tied_profiles(nt)):
                for g in (1.0, 1e-9, 1e6):
                    for s in range(Ss // 2):
                        yield ("neartied%d@%g" % (pi, g), s, g * tied_channel(s, (nr, nt), prof))
    # dtype presentations of the channel: real float64 / float32, int64 and complex64 (for a real array
    # ndarray.conjugate() returns the array itself, integer arrays cannot be scaled in place, ...)
    Sd = 8 if thorough else 2
    for (nr, nt) in shapes() + [(5, 4), (6, 6)]:
        for s in range(Sd):
            R = F.generic(s, (nr, nt), False, tag=45)
            yield ("real_f64", s, R)
            yield ("real_f32", s, R.astype(np.float32))
            yield ("int64", s, np.rint(4 * R).astype(np.int64))
            yield ("complex64", s, F.generic(s, (nr, nt), True, tag=45).astype(np.complex64))
        if nr * nt <= (6 if thorough else 4):
            for i, Hi in enumerate(F.small_entry_matrices((nr, nt), (0, 1, -1))):
                yield ("rint3", i, Hi.real.astype(np.int64))
    # PAIRWISE combinations of the axes that are otherwise varied one at a time around the default
    # (complex128, unit magnitude, generic): real dtype x {nearly dependent, nearly tied, scaled}, integer x scaled
    for (nr, nt) in [(1, 1), (2, 2), (3, 2), (4, 4), (1, 3), (3, 1), (6, 5)]:
        for s in range(4 if thorough else 2):
            R = F.generic(s, (nr, nt), False, tag=45)
            for g in SCALES:
                yield ("real_f64@%g" % g, s, g * R)
            yield ("int64@1000", s, np.rint(4 * R).astype(np.int64) * 1000)
            if nt >= 2 and nr >= nt:
                for kappa in (1e2, 1e4):
                    yield ("real_neardep%g" % kappa, s,
                           real_with_singular_values(s, (nr, nt), [kappa ** (-i / (nt - 1)) for i in range(nt)]))
                for pi, prof in enumerate(near_tied_profiles(nt)[:2]):
                    yield ("real_neartied%d" % pi, s,
                           real_with_singular_values(s, (nr, nt), np.sort(prof)[::-1]))
                    yield ("real_neartied%d@1e-09" % pi, s,
                           1e-9 * real_with_singular_values(s, (nr, nt), np.sort(prof)[::-1]))
    # larger arrays, Nr in 5..6 (thorough ..8): generic and nearly dependent members only.  The GMD
    # permutation bookkeeping (and any per-column loop) only shows its full behaviour for Nt >= 5.
    Sb = 60 if thorough else 24
    for nr in range(5, (8 if thorough else 6) + 1):
        for nt in range(1, nr + 1):
            for s in range(Sb):
                yield ("generic", s, F.generic(s, (nr, nt), True, tag=4))
            if nt >= 2:
                for kappa in (1e2, 1e4):
                    for s in range(Sb // 2):
                        yield ("neardep%g" % kappa, s, F.nearly_dependent(s, (nr, nt), kappa))


SCALES = (1e-12, 1e-9, 1e-6, 1e6, 1e9)


def near_tied_profiles(n):
    """singular values that are nearly but not exactly equal (relative gaps 1e-6 and 1e-9)"""
    k = np.arange(n)
    return [1.0 - 1e-6 * k, 1.0 + 1e-9 * (k - (n - 1) / 2.0), np.where(k == 0, 1.0 + 1e-6, 1.0 - 1e-9 * k),
            np.where(k < (n + 1) // 2, 2.0, 2.0 * (1 - 1e-6)) * (1 + 1e-9 * k)]


def tied_channel(s, shape, prof):
    m, n = shape
    U = F.unitary(s, m, tag=43)
    V = F.unitary(s + 50, n, tag=44)
    return (U[:, :n] * np.sort(np.asarray(prof, dtype=float))[::-1]) @ V.conj().T


def fam_scale(fam):
    return float(fam.split("@")[1]) if "@" in fam else 1.0


DTYPE_FAMS = ("real_f64", "real_f32", "int64", "complex64", "rint3")
DKINDS = ("c128", "f64", "i64")


def is_dtype_fam(fam):
    return fam.split("@")[0] in DTYPE_FAMS or fam.startswith("real_")


def real_with_singular_values(s, shape, sv):
    """real matrix with prescribed singular values (orthogonal factors from real generic members)"""
    m, n = shape
    U = np.linalg.qr(F.generic(s, (m, m), False, tag=46))[0]
    V = np.linalg.qr(F.generic(s + 50, (n, n), False, tag=47))[0]
    return (U[:, :n] * np.asarray(sv, dtype=float)) @ V.T


def data_vec(L, kind="c128"):
    """distinguishable symbols: complex128, real float64 or int64 presentation"""
    if kind == "f64":
        return 1.0 + np.arange(L) / 8.0 * np.where(np.arange(L) % 2, -1.0, 1.0)
    if kind == "i64":
        return (np.arange(L, dtype=np.int64) + 1) * np.where(np.arange(L) % 3 == 1, -1, 1)
    return F.distinguishable(L, tag=41)


def eps_factor(H):
    """tolerances are relative to the precision of the channel's dtype (2^-23 for 32-bit floats)"""
    return 2.0 ** 29 if np.asarray(H).dtype in (np.float32, np.complex64) else 1.0


def shape_class(nr, nt):
    return "Nr>Nt" if nr > nt else ("Nr==Nt" if nr == nt else "Nr<Nt")


# ----------------------------------------------------------------------
# one scheme round trip
# ----------------------------------------------------------------------
def classify_mismatch(got, d):
    got = np.asarray(got)
    if got.shape != d.shape:
        return "shape"
    if not np.all(np.isfinite(got)):
        return "not_finite"
    tol = 1e-6 * N.scale(d)
    if N.err(got, d) <= tol:
        return "small_error_below_1e-6"
    if d.size > 1:
        # a permutation of the right symbols?
        used = set()
        perm = True
        for v in got:
            k = int(np.argmin(np.abs(d - v)))
            if abs(d[k] - v) > tol or k in used:
                perm = False
                break
            used.add(k)
        if perm:
            return "symbols_permuted"
    alpha = np.vdot(d, got) / np.vdot(d, d)
    if np.max(np.abs(got - alpha * d)) <= tol * max(1.0, abs(alpha)):
        return "scaled_by_constant"
    return "wrong_symbols"


def make_scheme(scheme, form, H):
    from pyphysim.mimo import mimo as M
    cls = getattr(M, scheme)
    if form == "1d":
        h = H[:, 0] if scheme == "MRC" else H[0, :]
        return cls(np.array(h))
    return cls(np.array(H))


def run_roundtrip(chk, case):
    """case: scheme, form ('2d'|'1d'), H (2-D array), nblk, kappa"""
    scheme, form, H, nblk = case["scheme"], case["form"], np.asarray(case["H"]), case["nblk"]
    nr, nt = H.shape
    kappa = case["kappa"]
    cls = shape_class(nr, nt)
    CR = C_RT * eps_factor(H)
    dkind = case.get("dkind", "c128")
    chk.outcome("scheme_shape", (scheme, form, nr, nt))    # recorded before the library is called: a
    chk.outcome("dtypes", (scheme, H.dtype.name, dkind))   # crashing scheme is a violation, not vacuity
    with guard(chk, (scheme, cls), case):
        chk.count("eval_roundtrip")
        passed = np.array(H[:, 0] if (form == "1d" and scheme == "MRC") else (H[0, :] if form == "1d" else H))
        passed0 = passed.copy()
        obj = getattr(__import__("pyphysim.mimo.mimo", fromlist=["x"]), scheme)(passed)
        layers = obj.getNumberOfLayers()
        want_layers = nt if scheme in ("Blast", "SVDMimo", "GMDMimo") else 1
        if layers != want_layers:
            chk.fail((scheme, "layers"), case, observed=layers, expected=want_layers)
        L = (2 * nblk) if scheme == "Alamouti" else layers * nblk
        d = data_vec(L, dkind)
        d0 = d.copy()
        x = obj.encode(d)
        if not np.array_equal(d, d0):
            chk.fail((scheme, "encode_mutates_input"), case)
        x = np.asarray(x)
        if x.ndim != 2 or x.shape[0] != nt:
            chk.fail((scheme, "encode_shape"), case, observed=x.shape, expected="(%d, uses)" % nt)
            return
        # energy per channel use
        e_tx = float(np.sum(np.abs(x) ** 2)) / max(x.shape[1], 1)
        e_d = float(np.mean(np.abs(d) ** 2)) if L else 0.0
        chk.count("eval_energy")
        if L == 0 and x.shape[1] != 0:
            chk.fail((scheme, "encode_shape", "empty_block"), case, observed=x.shape, expected=(nt, 0))
        if L and not N.close(e_tx, e_d, 1.0, CR):
            chk.fail((scheme, "tx_energy"), case, observed=e_tx, expected=e_d,
                     msg="mean transmitted energy per channel use != mean symbol energy "
                         "(ratio %.6g)" % (e_tx / e_d))
        y = H.astype(complex) @ x                   # noise-free channel (harness arithmetic in complex128)
        y0 = y.copy()
        r = None
        # three consecutive rounds over the SAME object and channel (no setter in between): every round must
        # return the data, and neither the array handed to the object, nor the channel it holds, nor y may change
        for rnd in ((1, 2, 3) if (nblk == 1 or is_dtype_fam(case["fam"])) else (1,)):
            r = np.asarray(obj.decode(y))
            if not N.close(r, d, kappa, CR):
                how = classify_mismatch(r, d.astype(complex))
                chk.fail((scheme, "roundtrip", cls, how, "decode_round_%d" % rnd), case,
                         observed=r if r.size <= 8 else r[:8], expected=d if d.size <= 8 else d[:8],
                         msg="max err %.3g, kappa %.3g" % (N.err(r, d), kappa))
                break
            if not (np.array_equal(passed, passed0) and passed.dtype == passed0.dtype):
                chk.fail((scheme, "channel_argument_modified", "decode_round_%d" % rnd), case,
                         observed=passed, expected=passed0)
                break
            # (the channel the object HOLDS is observed through public behaviour only: the next rounds must
            #  return the data again and Nr / Nt must still be those of the channel)
            if (obj.Nr, obj.Nt) != (nr, nt):
                chk.fail((scheme, "dimensions_changed_by_decode", "decode_round_%d" % rnd), case,
                         observed=(obj.Nr, obj.Nt), expected=(nr, nt))
                break
            dg = bfs.digest(bfs.state_of(obj), 12)
            if rnd > 1:
                chk.outcome("state_digest_stable_across_decodes", dg == dg_prev)
            dg_prev = dg
            if not np.array_equal(y, y0):
                chk.fail((scheme, "received_data_modified", "decode_round_%d" % rnd), case)
                break
            if rnd < 3 and L:
                x2 = np.asarray(obj.encode(d))
                if not np.array_equal(x2, x):
                    chk.fail((scheme, "encode_changes_between_rounds", "round_%d" % (rnd + 1)), case,
                             observed=N.err(x2, x), expected=0)
                    break
        if nblk == 1 and scheme != "Alamouti":
            check_pair(chk, case, obj, scheme, H, kappa, layers, CR)
        if nblk == 1:
            check_aliasing(chk, case, scheme, form, H, d, r, kappa, CR)
        chk.outcome("uses", (scheme, x.shape[1]))
        if nr * nt > 1:
            chk.nontriv((scheme, form, case["fam"], case["member"], nr, nt, nblk, dkind))


def check_aliasing(chk, case, scheme, form, H, d, r_ref, kappa, CR=C_RT):
    """the scheme must not modify its channel, data or received samples, must accept read-only and
    Fortran-ordered arguments, and decoding twice must give the same"""
    for how in ("F", "C_readonly", "Tview_readonly"):
        chk.count("eval_aliasing")
        if how == "F":
            Hh = np.array(H, order="F", copy=True)
        elif how == "C_readonly":
            Hh = np.array(H, order="C", copy=True)
        else:
            Hh = np.array(H.T, order="C", copy=True).T
        if how != "F":
            Hh.setflags(write=False)
        dd = d.copy()
        dd.setflags(write=False)
        cs = dict(case, layout=how)
        try:
            obj = make_scheme(scheme, form, Hh) if form == "2d" else make_scheme(scheme, form, np.array(Hh))
            if form == "2d":
                # make_scheme copies; hand the very array over so that aliasing is really exercised
                obj.set_channel_matrix(Hh)
            x = np.asarray(obj.encode(dd))
            y = np.array(H.astype(complex) @ x, order="F" if how == "F" else "C")
            if how != "F":
                y.setflags(write=False)
            y0 = y.copy()
            r1 = np.array(obj.decode(y), copy=True)
            r2 = np.array(obj.decode(y), copy=True)
        except Exception as e:  # noqa
            chk.fail((scheme, "aliasing", "raises", how, type(e).__name__), cs,
                     observed="%s: %s" % (type(e).__name__, e), expected="same result as for a C-ordered writeable copy")
            continue
        if not (np.array_equal(Hh, H) and np.array_equal(dd, d) and np.array_equal(y, y0)):
            chk.fail((scheme, "aliasing", "mutates_argument", how), cs)
        if not np.array_equal(r1, r2, equal_nan=True):
            chk.fail((scheme, "aliasing", "second_decode_differs", how), cs, observed=r2[:6], expected=r1[:6])
        if not N.close(r1, r_ref, kappa, CR):
            chk.fail((scheme, "aliasing", "layout_changes_result", how), cs, observed=N.err(r1, r_ref), expected=0)


def check_pair(chk, case, obj, scheme, H, kappa, layers, CR=C_RT):
    """the linear precoder / receive-filter pair of the scheme, observed through the PUBLIC encode / decode of
    one block: W = [encode(e_k)], G = [decode(e_j)];  ||W||_F^2 == 1 (power split), G H W == I_layers.
    Optional extras when the private helpers exist: _calc_precoder(H) == W, _calc_receive_filter(H, 0) == G."""
    nr, nt = H.shape
    chk.count("eval_pair")
    Hc = H.astype(complex)
    W = np.zeros((nt, layers), dtype=complex)
    for k in range(layers):
        e = np.zeros(layers, dtype=complex)
        e[k] = 1.0
        col = np.asarray(obj.encode(e))
        if col.size != nt:
            chk.fail((scheme, "precoder_shape"), case, observed=col.shape, expected=(nt, 1))
            return
        W[:, k] = col.reshape(nt)
    G = np.zeros((layers, nr), dtype=complex)
    for j in range(nr):
        e = np.zeros((nr, 1), dtype=complex)
        e[j, 0] = 1.0
        col = np.asarray(obj.decode(e))
        if col.size != layers:
            chk.fail((scheme, "receive_filter_shape"), case, observed=col.shape, expected=(layers,))
            return
        G[:, j] = col.reshape(layers)
    pw = float(np.sum(np.abs(W) ** 2))
    if not N.close(pw, 1.0, 1.0, CR):
        chk.fail((scheme, "precoder_power"), case, observed=pw, expected=1.0,
                 msg="||W||_F^2 != 1 for the linear map W applied by encode")
    eq = G @ Hc @ W
    if not N.close(eq, np.eye(layers), kappa, CR):
        chk.fail((scheme, "filter_precoder_pair"), case, observed=N.err(eq, np.eye(layers)), expected=0,
                 msg="(map of decode) . H . (map of encode) != I")
    # extras: the helpers calc_SINRs is built on, when reachable under a known name
    cp = _private(obj, "_calc_precoder", "calc_precoder")
    cf = _private(obj, "_calc_receive_filter", "calc_receive_filter")
    for nm, f in (("precoder_helper", cp), ("receive_filter_helper", cf)):
        if f is MISSING:
            chk.outcome("oracle_input_unavailable", nm)
            chk.count("oracle_input_unavailable")
    H2 = np.array(H)
    if cp is not MISSING:
        Wp = np.asarray(cp(H2))
        if Wp.shape != (nt, layers) or not N.close(Wp, W, 1.0, CR):
            chk.fail((scheme, "encode_vs_precoder"), case, observed=N.err(Wp, W), expected=0,
                     msg="encode(d) != _calc_precoder(H) @ d")
    if cf is not MISSING:
        Gp = np.asarray(cf(H2, 0.0))
        if Gp.ndim == 0:                        # MRT: a scalar filter
            Gp = Gp.reshape(1, 1)
        if Gp.shape != (layers, nr) or not N.close(Gp, G, kappa, CR):
            chk.fail((scheme, "decode_vs_receive_filter"), case, observed=Gp.shape, expected=0,
                     msg="decode(y) != _calc_receive_filter(H, 0) applied to y")


# ----------------------------------------------------------------------
def public_filter(M, H, noise_var):
    """the receive filter as the property observes it: the linear map that Blast.decode applies.
    decode(I_Nr) = vec_F(G_H I), G_H = sqrt(Nt) W  ->  W (Nt x Nr).  Public API only."""
    nr, nt = H.shape
    o = M.Blast(np.array(H))
    o.set_noise_var(noise_var)
    g = np.asarray(o.decode(np.eye(nr, dtype=complex)))
    if g.size != nt * nr:
        return g
    return g.reshape((nt, nr), order="F") / math.sqrt(nt)


def run_filters(chk, case):
    from pyphysim.mimo import mimo as M
    H = np.asarray(case["H"])
    nr, nt = H.shape
    kappa = case["kappa"]
    Hh = H.conj().T
    I = np.eye(nt)
    # harness-side references
    Q, R = np.linalg.qr(H)                          # thin QR
    pinv_ref = np.linalg.solve(R, Q.conj().T)
    U, sv, Vh = np.linalg.svd(H, full_matrices=False)
    npinv2 = 1.0 / sv[-1]
    chk.outcome("kappa_decade", int(math.floor(math.log10(max(kappa, 1.0)) + 1e-9)))
    chk.outcome("filter_shape", (nr, nt))
    # optional extras: the anchored private helpers called directly, when they exist under a known name
    zf_priv = _private(M.MimoBase, "_calcZeroForceFilter", "calcZeroForceFilter", "_calc_zero_force_filter")
    mmse_priv = _private(M.MimoBase, "_calcMMSEFilter", "calcMMSEFilter", "_calc_mmse_filter")
    brf_priv = _private(M.Blast, "_calc_receive_filter", "calc_receive_filter")
    for nm, f in (("zf_helper", zf_priv), ("mmse_helper", mmse_priv), ("blast_receive_filter_helper", brf_priv)):
        if f is MISSING:
            chk.outcome("oracle_input_unavailable", nm)
            chk.count("oracle_input_unavailable")
    with guard(chk, ("zf_filter", shape_class(nr, nt)), case):
        chk.count("eval_zf")
        for nm, nv in (("noise0.0", 0.0), ("noiseNone", None), ("noise_int0", 0)):
            G = public_filter(M, H, nv)             # the ZF filter reached through the public decode
            if G.shape != (nt, nr):
                chk.fail(("zf_filter", "shape", nm), case, observed=G.shape, expected=(nt, nr))
                continue
            if not np.all(np.isfinite(G)):
                chk.fail(("zf_filter", "not_finite", nm), case, observed=G, expected="finite filter")
                continue
            if not N.close(G @ H, I, kappa, C_RT):
                chk.fail(("zf_filter", "GH!=I", nm), case, observed=N.err(G @ H, I), expected=0)
            if not N.close(G, pinv_ref, kappa, C_RT):
                chk.fail(("zf_filter", "not_pseudo_inverse", nm), case, observed=N.err(G, pinv_ref), expected=0)
        if zf_priv is not MISSING:
            Gp = np.asarray(zf_priv(np.array(H)))
            if Gp.shape != (nt, nr) or not N.close(Gp, pinv_ref, kappa, C_RT):
                chk.fail(("zf_filter", "helper_not_pseudo_inverse"), case, observed=N.err(Gp, pinv_ref), expected=0)
            # alternative entry points of the same static helper: subclass, instance
            for nm, owner in (("via_GMDMimo_class", M.GMDMimo), ("via_instance", M.MRC(None))):
                alt = _private(owner, "_calcZeroForceFilter", "calcZeroForceFilter", "_calc_zero_force_filter")
                if alt is not MISSING and not N.close(np.asarray(alt(np.array(H))), Gp, kappa, C_RT):
                    chk.fail(("zf_filter", "entry_point_differs", nm), case)
        if brf_priv is not MISSING:
            for nm, nv in (("noise0", 0.0), ("noiseNone", None), ("noise_int0", 0)):
                B = np.asarray(brf_priv(np.array(H), nv))
                if not N.close(B, math.sqrt(nt) * pinv_ref, kappa, C_RT):
                    chk.fail(("blast_receive_filter", nm, "not_sqrtNt_pinv"), case,
                             observed=N.err(B, math.sqrt(nt) * pinv_ref), expected=0)
    with guard(chk, ("mmse_filter", shape_class(nr, nt)), case):
        prev = None
        g2 = fam_scale(case["fam"]) ** 2
        for s2 in [v * g2 for v in SIGMA2]:
            chk.count("eval_mmse")
            W = public_filter(M, H, s2)             # the MMSE filter reached through the public decode
            if W.shape != (nt, nr):
                chk.fail(("mmse_filter", "shape"), case, observed=W.shape, expected=(nt, nr))
                break
            if not np.all(np.isfinite(W)):          # (library output is never fed to numpy.linalg unchecked)
                chk.fail(("mmse_filter", "not_finite"), dict(case, sigma2=s2), observed=W, expected="finite filter",
                         msg="s=%g" % s2)
                break
            A = Hh @ H + s2 * I
            # defining equation; cond(A) = k2 <= kappa^2 (an inverse-based but correct
            # implementation has a residual of eps*cond(A), a solve-based one of eps)
            k2 = min(kappa ** 2, (sv[0] ** 2 + s2) / (sv[-1] ** 2 + s2))
            sc = N.scale(A) * N.scale(W) * nt + N.scale(Hh)
            if not N.close(A @ W, Hh, k2, C_MMSE, scale_=sc):
                chk.fail(("mmse_filter", "normal_equation"), dict(case, sigma2=s2),
                         observed=N.err(A @ W, Hh), expected=0,
                         msg="(H^H H + s I) W != H^H for s=%g" % s2)
            Wref = (Vh.conj().T * (sv / (sv ** 2 + s2))) @ U.conj().T
            if not N.close(W, Wref, k2, C_MMSE):
                chk.fail(("mmse_filter", "closed_form"), dict(case, sigma2=s2),
                         observed=N.err(W, Wref), expected=0, msg="s=%g" % s2)
            dist = float(np.linalg.norm(W - pinv_ref, 2))
            slack = C_MMSE * N.EPS * kappa ** 2 * npinv2
            if dist > s2 * npinv2 ** 3 * (1 + 1e-9) + slack:
                chk.fail(("mmse_filter", "limit_bound"), dict(case, sigma2=s2),
                         observed=dist, expected="<= %g" % (s2 * npinv2 ** 3),
                         msg="||W_MMSE(s) - pinv(H)||_2 > s ||pinv||^3, s=%g" % s2)
            if prev is not None and dist > prev + slack:
                chk.fail(("mmse_filter", "not_monotone"), dict(case, sigma2=s2),
                         observed=dist, expected="<= %g" % prev)
            prev = dist
            if mmse_priv is not MISSING:
                Wp = np.asarray(mmse_priv(np.array(H), s2))
                if Wp.shape != (nt, nr) or not N.close(Wp, Wref, k2, C_MMSE):
                    chk.fail(("mmse_filter", "helper_closed_form"), dict(case, sigma2=s2),
                             observed=N.err(Wp, Wref), expected=0, msg="s=%g" % s2)
                if s2 == SIGMA2[1] * g2:
                    for nm, owner in (("via_SVDMimo_class", M.SVDMimo), ("via_instance", M.Blast(None))):
                        alt = _private(owner, "_calcMMSEFilter", "calcMMSEFilter", "_calc_mmse_filter")
                        if alt is not MISSING and not N.close(np.asarray(alt(np.array(H), s2)), Wp, k2, C_MMSE):
                            chk.fail(("mmse_filter", "entry_point_differs", nm), case)
            if brf_priv is not MISSING:
                Bm = np.asarray(brf_priv(np.array(H), s2))
                if not N.close(Bm, math.sqrt(nt) * Wref, k2, C_MMSE):
                    chk.fail(("blast_receive_filter", "noise>0", "not_sqrtNt_mmse"), dict(case, sigma2=s2),
                             observed=N.err(Bm, math.sqrt(nt) * Wref), expected=0)
        if nr * nt > 1:
            chk.nontriv(("filters", case["fam"], case["member"], nr, nt))


# ----------------------------------------------------------------------
def schemes_for(nr, nt):
    out = []
    if nt <= nr:
        out += [("Blast", "2d"), ("SVDMimo", "2d"), ("GMDMimo", "2d")]
        if nt == 1:
            out += [("MRC", "2d"), ("MRC", "1d")]
    if nt == 2:
        out.append(("Alamouti", "2d"))
        if nr == 1:
            out.append(("Alamouti", "1d"))
    if nr == 1:
        out += [("MRT", "2d"), ("MRT", "1d")]
    return out


def run_item(chk, fam, member, H):
    nr, nt = H.shape
    sv = np.linalg.svd(H, compute_uv=False)
    chk.count("channels_enumerated")
    if sv[0] == 0:
        chk.count("excluded_zero_channel")
        return
    full_rank = nt <= nr and sv[-1] > 1e-12 * sv[0]
    kappa = float(sv[0] / sv[-1]) if full_rank else math.inf
    low_prec = eps_factor(H) > 1           # 32-bit channels: only kappa <= 1e2 leaves a meaningful tolerance
    in_bound = full_rank and kappa <= (1e2 if low_prec else KAPPA_MAX) * (1 + 1e-6)   # kappa carries rounding
    if nt <= nr:
        if not full_rank:
            chk.count("excluded_rank_deficient")
        elif not in_bound:
            chk.count("excluded_kappa_above_1e4")
    base = {"fam": fam, "member": member, "H": H}
    if in_bound and not low_prec:
        run_filters(chk, dict(base, part="filters", kappa=kappa))
    dkinds = DKINDS if is_dtype_fam(fam) else DKINDS[:1]
    for scheme, form in schemes_for(nr, nt):
        scalar_equiv = scheme in ("Alamouti", "MRT")
        if not scalar_equiv and not in_bound:
            continue
        for nblk in (0, 1, 2, 3):              # 0 blocks: an empty data vector is a multiple of the layers too
            for dk in (dkinds if nblk == 2 else dkinds[:1]):     # real / integer data at two blocks
                run_roundtrip(chk, dict(base, part="roundtrip", scheme=scheme, form=form, nblk=nblk, dkind=dk,
                                        kappa=1.0 if scalar_equiv else kappa))


# ----------------------------------------------------------------------
# E3: object-reuse histories (one object, setters / encode / decode interleaved)
# ----------------------------------------------------------------------
NOISE_ALPH = (None, 0.0, 0, 0.5, 1e-2)       # None, float zero and int zero all mean zero forcing
HAS_NOISE = ("Blast", "MRC", "SVDMimo", "GMDMimo")


def hist_channels(scheme):
    """three channels per scheme: a complex128 base one, a REAL float64 one of another shape, and an
    int64 one (real float64 in the scheme's alternative 1-D form where it has one)"""
    def ints(s, shape):
        return np.rint(4 * F.generic(s, shape, False, tag=42)).astype(np.int64)

    if scheme in ("Blast", "SVDMimo", "GMDMimo"):
        return [F.generic(1, (3, 2), True, tag=42), F.generic(2, (2, 2), False, tag=42), ints(3, (3, 2))]
    if scheme == "MRC":
        return [F.generic(1, (3, 1), True, tag=42), ints(2, (2, 1)), F.generic(3, (3,), False, tag=42)]
    if scheme == "MRT":
        return [F.generic(1, (1, 3), True, tag=42), F.generic(2, (1, 2), False, tag=42), ints(3, (3,))]
    return [F.generic(1, (2, 2), True, tag=42), F.generic(2, (3, 2), False, tag=42),
            F.generic(3, (2,), False, tag=42), ints(4, (2, 2))]                   # Alamouti


def as2d(scheme, h):
    if h.ndim == 2:
        return h
    return h[:, np.newaxis] if scheme == "MRC" else h[np.newaxis, :]


def hist_events(scheme):
    ev = [("chan", i) for i in range(len(hist_channels(scheme)))]
    if scheme in HAS_NOISE:
        ev += [("noise", v) for v in NOISE_ALPH]
    ev += [("encode",), ("decode",)]
    # every other public method that reads channel / noise state (they must not disturb later decodes)
    ev += [("sinr_lin", 0.05), ("sinr_lin", 2.0), ("sinr_db", 0.05)]
    if scheme != "Alamouti":            # Alamouti has no linear precoder / filter (documented RuntimeError)
        ev += [("precoder",), ("recvfilter", None), ("recvfilter", 0.05)]
    # invalid calls: must raise ValueError and leave the object exactly as it was
    if scheme in HAS_NOISE:
        ev.append(("bad_noise",))
    if scheme in ("MRT", "Alamouti"):
        ev.append(("bad_chan",))
    if scheme in ("Blast", "SVDMimo", "GMDMimo"):
        ev.append(("bad_encode",))
    return ev


class HState:
    """the real object plus the harness model of what it must currently represent"""
    def __init__(self):
        self.obj = None
        self.ch = None          # index of the current channel (model)
        self.noise = 0.0        # current noise variance per the documented setter semantics (model)
        self.err = None
        self.Hrep = None        # channel REPORTED by the object after an invalid call, when it is not chans[ch]
        self.invalid = []       # outcomes of the invalid calls of this history (never judged as such)
        self.passed = None      # (array object handed to the constructor / setter, copy of its content)
        self.unavailable = []   # oracle inputs that could not be read (private names absent)
        self.unknown = False    # the reported state after an invalid call cannot be determined: not judged


def cur_H(scheme, st):
    """current channel of the model as a 2-D array, or None"""
    if st.Hrep is not None:
        return st.Hrep
    if st.ch is None:
        return None
    return as2d(scheme, hist_channels(scheme)[st.ch])


def resync_from_reported_state(scheme, st):
    """tools/INVALID_CALL_POLICY.md: after an invalid call the model is re-synchronised from the state the
    object reports.  pyphysim has no public getters for the channel values / noise variance (only Nr, Nt), so
    the attributes the object keeps them in are read through the tolerant `_private`; when they cannot be
    found the public Nr / Nt decide whether the model channel can still be the held one, otherwise the
    history is not judged further (outcome `oracle_input_unavailable`)"""
    rep_ch = _private(st.obj, "_channel", "channel", "_H", "H")
    model = cur_H(scheme, st)
    if rep_ch is MISSING:
        st.unavailable.append("held_channel")
        try:
            dims = (st.obj.Nr, st.obj.Nt)
        except Exception:  # noqa  - no channel held
            dims = None
        if (dims is None) != (model is None) or (dims is not None and dims != model.shape):
            st.unknown = True
    elif rep_ch is None:
        st.ch, st.Hrep = None, None
    elif model is None or np.shape(rep_ch) != model.shape or not np.array_equal(rep_ch, model):
        st.Hrep = np.array(rep_ch)
    if scheme in HAS_NOISE:
        nv = _private(st.obj, "_noise_var", "noise_var")
        if nv is MISSING:
            st.unavailable.append("held_noise_var")     # the model keeps the last VALID value
        else:
            # documented: "If noise_var is non-positive then the Zero-Force filter will be used"
            st.noise = nv if (nv is not None and nv > 0) else 0.0


def hist_layers(scheme, H2):
    return H2.shape[1] if scheme in ("Blast", "SVDMimo", "GMDMimo") else 1


def hist_data(scheme, H2):
    return data_vec(4 if scheme == "Alamouti" else 2 * hist_layers(scheme, H2))


def hist_build(scheme, hist):
    from pyphysim.mimo import mimo as M
    chans = hist_channels(scheme)
    st = HState()
    try:
        for ev in hist:
            if ev[0] == "new":
                arr = None if ev[1] is None else np.array(chans[ev[1]])
                st.obj = getattr(M, scheme)(arr)
                st.ch = ev[1]
                st.passed = None if arr is None else (arr, arr.copy())
            elif ev[0] == "chan":
                arr = np.array(chans[ev[1]])
                st.obj.set_channel_matrix(arr)
                st.ch, st.Hrep = ev[1], None
                st.passed = (arr, arr.copy())
            elif ev[0] == "noise":
                st.obj.set_noise_var(ev[1])
                st.noise = 0.0 if ev[1] is None else ev[1]
            elif ev[0].startswith("bad_"):
                before = bfs.digest(bfs.state_of(st.obj), 12)
                try:
                    if ev[0] == "bad_noise":
                        st.obj.set_noise_var(-1.0)
                    elif ev[0] == "bad_chan":       # MRT needs Nr == 1, Alamouti needs Nt == 2
                        st.obj.set_channel_matrix(F.generic(5, (2, 3), True, tag=42))
                    else:                           # length not a multiple of the layers
                        st.obj.encode(data_vec(hist_layers(scheme, cur_H(scheme, st)) + 1))
                    how = "accepted"
                except Exception as e:  # noqa  - an invalid call is free to raise anything (policy, item 1)
                    how = "raised:" + type(e).__name__
                changed = bfs.digest(bfs.state_of(st.obj), 12) != before
                st.invalid.append((ev[0], how, "object_changed" if changed else "object_unchanged"))
                resync_from_reported_state(scheme, st)
            elif ev[0] == "sinr_lin":
                st.obj.calc_linear_SINRs(ev[1])
            elif ev[0] == "sinr_db":
                st.obj.calc_SINRs(ev[1])
            elif ev[0] == "precoder":
                f = _private(st.obj, "_calc_precoder", "calc_precoder")
                if f is MISSING:
                    st.unavailable.append("precoder_helper")
                else:
                    f(np.array(cur_H(scheme, st)))
            elif ev[0] == "recvfilter":
                f = _private(st.obj, "_calc_receive_filter", "calc_receive_filter")
                if f is MISSING:
                    st.unavailable.append("receive_filter_helper")
                else:
                    f(np.array(cur_H(scheme, st)), ev[1])
            else:
                H2 = cur_H(scheme, st)
                d = hist_data(scheme, H2)
                x = st.obj.encode(d)
                if ev[0] == "decode":
                    st.obj.decode(H2 @ x)
    except Exception as e:  # noqa  - reported by the invariant with the history as witness
        st.err = e
    return st


def hist_enabled(scheme, hist, st):
    if st.err is not None or st.unknown:
        return []
    if cur_H(scheme, st) is None:
        return [e for e in hist_events(scheme) if e[0] in ("chan", "noise", "bad_noise", "bad_chan")]
    return hist_events(scheme)


AFTER = {"bad_noise": "after_invalid_call|set_noise_var(-1)", "bad_chan": "after_invalid_call|set_channel_matrix(rejected shape)",
         "bad_encode": "after_invalid_call|encode(length not multiple of layers)",
         "noise": "after_set_noise_var", "chan": "after_set_channel_matrix",
         "sinr_lin": "after_calc_linear_SINRs", "sinr_db": "after_calc_SINRs",
         "precoder": "after__calc_precoder", "recvfilter": "after__calc_receive_filter"}


def last_mutator(hist):
    """the last event other than encode/decode (names the call after which the object is stale)"""
    for ev in reversed(hist):
        if ev[0] in AFTER:
            return AFTER[ev[0]]
    return "as_constructed"


def hist_invariant(chk, scheme, hist, st):
    from pyphysim.mimo import mimo as M
    case = {"part": "history", "scheme": scheme, "history": [list(e) for e in hist]}
    chk.count("eval_history_states")
    if st.err is not None:
        if _origin(st.err) == "check":
            raise Broken("check code raised %s: %s while replaying history %r" % (type(st.err).__name__, st.err, hist))
        chk.fail((scheme, "history", "exception", type(st.err).__name__, last_mutator(hist[:-1])), case,
                 observed="%s: %s" % (type(st.err).__name__, st.err), expected="no exception")
        return
    for nm in st.unavailable:
        chk.outcome("oracle_input_unavailable", nm)
        chk.count("oracle_input_unavailable")
    if st.unknown:
        return
    for inv in st.invalid:                  # recorded, never judged (policy item 1)
        chk.outcome("invalid_call", (scheme,) + inv)
        chk.count("invalid_calls_" + inv[1].split(":")[0])
    if cur_H(scheme, st) is None:
        return
    when = last_mutator(hist)
    chk.outcome("history_config", (scheme, st.ch if st.Hrep is None else "reported", st.noise))
    with guard(chk, (scheme, "history", when), case):
        obj = st.obj
        H2 = cur_H(scheme, st)          # channel of the model = last valid set, or the REPORTED one
        nr, nt = H2.shape
        kappa = 1.0 if scheme in ("Alamouti", "MRT") else F.cond(H2)
        layers = hist_layers(scheme, H2)
        if (obj.Nr, obj.Nt, obj.getNumberOfLayers()) != (nr, nt, layers):
            chk.fail((scheme, "history", "dimensions_not_of_current_channel", when), case,
                     observed=(obj.Nr, obj.Nt, obj.getNumberOfLayers()), expected=(nr, nt, layers))
            return
        d = hist_data(scheme, H2)
        # the object under test is used BEFORE the reference object exists (creating / configuring the
        # fresh object must not be able to repair shared state)
        x = np.asarray(obj.encode(d))
        if x.ndim != 2 or x.shape[0] != nt:
            chk.fail((scheme, "history", "encode_rows_differ_from_Nt_of_held_channel", when), case,
                     observed=x.shape, expected="(%d, uses): the object holds a %s channel" % (nt, H2.shape))
            return
        y = H2 @ x
        r = np.asarray(obj.decode(y))
        # fresh object put into the CURRENT (after an invalid call: reported) configuration through valid calls
        try:
            fresh = getattr(M, scheme)(np.array(H2 if st.Hrep is not None else hist_channels(scheme)[st.ch]))
        except ValueError as e:
            chk.fail((scheme, "history", when, "reported_channel_is_not_a_valid_configuration"), case,
                     observed="the object holds a %s channel that its own setter rejects (%s)" % (H2.shape, e),
                     expected="a channel the scheme accepts")
            return
        if scheme in HAS_NOISE:
            fresh.set_noise_var(st.noise)
        xf = np.asarray(fresh.encode(d))
        if not N.close(x, xf, 1.0, C_RT):
            chk.fail((scheme, "history", "encode_differs_from_fresh_object", when), case,
                     observed=N.err(x, xf), expected=0)
        rf = np.asarray(fresh.decode(y))
        k2 = kappa ** 2 if st.noise > 0 else kappa
        if not N.close(r, rf, k2, C_RT):
            chk.fail((scheme, "history", "decode_differs_from_fresh_object", when), case,
                     observed=r[:6], expected=rf[:6],
                     msg="current noise_var=%r, max err %.3g" % (st.noise, N.err(r, rf)))
        zf = st.noise == 0 or scheme in ("SVDMimo", "MRT", "Alamouti")
        if zf:
            if not N.close(r, d, kappa, C_RT):
                chk.fail((scheme, "history", "roundtrip", when), case, observed=r[:6], expected=d[:6],
                         msg="noise-free ZF decode of the current channel does not return the data; "
                             "max err %.3g" % N.err(r, d))
        if scheme in ("Blast", "MRC"):
            # harness-side filter of the current (channel, noise): sqrt(Nt) V diag(s/(s^2+v)) U^H
            U, sv, Vh = np.linalg.svd(H2, full_matrices=False)
            Wref = (Vh.conj().T * (sv / (sv ** 2 + st.noise))) @ U.conj().T * math.sqrt(nt)
            want = (Wref @ y).reshape(-1, order="F")
            if not N.close(r, want, k2, C_MMSE):
                chk.fail((scheme, "history", "decode_not_filter_of_current_channel_and_noise", when), case,
                         observed=r[:6], expected=want[:6], msg="current noise_var=%r" % st.noise)
        # rounds 2 and 3 over the same object WITHOUT touching the channel in between; after every round the
        # channel the object holds and the array that was handed to it must be bit-identical to what was set
        for rnd in (1, 2, 3):
            if rnd > 1:
                xk = np.asarray(obj.encode(d))
                rk = np.asarray(obj.decode(y))
                if not np.array_equal(xk, x):
                    chk.fail((scheme, "history", "encode_changes_between_rounds", when), dict(case, round=rnd),
                             observed=N.err(xk, x), expected=0)
                    break
                if not N.close(rk, rf, k2, C_RT) or (zf and not N.close(rk, d, kappa, C_RT)):
                    chk.fail((scheme, "history", "decode_round_%d_wrong" % rnd, when), dict(case, round=rnd),
                             observed=rk[:6], expected=rf[:6],
                             msg="round %d over the same object and channel; max err %.3g" % (rnd, N.err(rk, rf)))
                    break
            # the held channel is observed through public behaviour (the rounds above, Nr / Nt); where the
            # attribute is readable it is compared by VALUE as an extra
            if (obj.Nr, obj.Nt) != H2.shape:
                chk.fail((scheme, "history", "dimensions_changed_by_decode", when), dict(case, round=rnd),
                         observed=(obj.Nr, obj.Nt), expected=H2.shape)
                break
            held = _private(obj, "_channel", "channel", "_H", "H")
            if held is not MISSING and held is not None and (
                    np.shape(held) != H2.shape or not np.array_equal(np.asarray(held), H2)):
                chk.fail((scheme, "history", "held_channel_modified_by_decode", when), dict(case, round=rnd),
                         observed=np.asarray(held), expected=H2)
                break
            if st.passed is not None and st.Hrep is None and not (
                    np.array_equal(st.passed[0], st.passed[1]) and st.passed[0].dtype == st.passed[1].dtype):
                chk.fail((scheme, "history", "channel_argument_modified", when), dict(case, round=rnd),
                         observed=st.passed[0], expected=st.passed[1])
                break
        # the SINR reports are a function of the current channel and their explicit argument only
        # (evaluated last: they may themselves populate caches of a changed implementation)
        for v in (0.05, 2.0):
            a = np.asarray(obj.calc_linear_SINRs(v))
            b = np.asarray(fresh.calc_linear_SINRs(v))
            if not N.close(a, b, kappa ** 2, C_MMSE):
                chk.fail((scheme, "history", "calc_linear_SINRs_differs_from_fresh_object", when), case,
                         observed=a, expected=b, msg="argument noise_var=%r" % v)
        chk.nontriv(("history", scheme, st.ch, st.noise, when))


def run_histories(chk, depth):
    for scheme in ("Blast", "MRC", "SVDMimo", "GMDMimo", "MRT", "Alamouti"):
        b = bfs.BFS(chk,
                    build=lambda h, sc=scheme: hist_build(sc, h),
                    enabled=lambda h, st, sc=scheme: hist_enabled(sc, h, st),
                    invariant=lambda h, st, sc=scheme: hist_invariant(chk, sc, h, st),
                    canon=lambda h, st, sc=scheme: (sc, st.ch, st.noise, st.err is None,
                                                    bfs.digest(st.Hrep, 9),
                                                    bfs.digest(bfs.state_of(st.obj) if st.obj is not None else None, 9)),
                    max_depth=depth, label="hist-" + scheme)
        b.run([(("new", 0),), (("new", None),)])
        chk.extra.setdefault("history_states_per_scheme", {})[scheme] = [b.states, b.transitions]


# ----------------------------------------------------------------------
# E3: several live objects of the same / sibling classes used alternately
# ----------------------------------------------------------------------
MULTI = (("Blast", (1, 3)), ("Blast", (3, 1)), ("GMDMimo", (1, 2)), ("SVDMimo", (2, 3)), ("MRC", (1, 3)))
MULTI_OPS = ("noise0.5", "noiseNone", "chan", "use")


def multi_channel(scheme, idx):
    return hist_channels(scheme)[idx - 1]       # members 1..3 of the scheme's history channels


class MState:
    def __init__(self):
        self.objs, self.ch, self.noise, self.err = [], [], [], None


def multi_build(hist):
    from pyphysim.mimo import mimo as M
    st = MState()
    try:
        for scheme, (c0, c1) in MULTI:
            st.objs.append(getattr(M, scheme)(np.array(multi_channel(scheme, c0))))
            st.ch.append(0)
            st.noise.append(0.0)
        for i, op in hist:
            scheme, cc = MULTI[i]
            o = st.objs[i]
            if op == "noise0.5":
                o.set_noise_var(0.5)
                st.noise[i] = 0.5
            elif op == "noiseNone":
                o.set_noise_var(None)
                st.noise[i] = 0.0
            elif op == "chan":
                st.ch[i] = 1 - st.ch[i]
                o.set_channel_matrix(np.array(multi_channel(scheme, cc[st.ch[i]])))
            else:
                H2 = as2d(scheme, multi_channel(scheme, cc[st.ch[i]]))
                o.decode(H2 @ o.encode(hist_data(scheme, H2)))
                o.calc_SINRs(0.05)
    except Exception as e:  # noqa
        st.err = e
    return st


def multi_invariant(chk, hist, st):
    from pyphysim.mimo import mimo as M
    case = {"part": "multi", "history": [list(e) for e in hist]}
    chk.count("eval_multi_states")
    if st.err is not None:
        if _origin(st.err) == "check":
            raise Broken("check code raised %s: %s while replaying %r" % (type(st.err).__name__, st.err, hist))
        chk.fail(("multi_object", "exception", type(st.err).__name__), case,
                 observed="%s: %s" % (type(st.err).__name__, st.err), expected="no exception")
        return
    with guard(chk, ("multi_object",), case):
        # every live object is used first; lone reference objects are only created afterwards
        got = []
        for i, (scheme, cc) in enumerate(MULTI):
            H2 = as2d(scheme, multi_channel(scheme, cc[st.ch[i]]))
            d = hist_data(scheme, H2)
            x = np.asarray(st.objs[i].encode(d))
            y = H2 @ x
            got.append((H2, d, x, y, np.asarray(st.objs[i].decode(y))))
        for i, (scheme, cc) in enumerate(MULTI):
            H2, d, x, y, r = got[i]
            kappa = F.cond(H2)
            who = "%s#%d" % (scheme, i)
            chk.outcome("multi_config", (i, st.ch[i], st.noise[i]))
            if st.noise[i] == 0 or scheme == "SVDMimo":
                if not N.close(r, d, kappa, C_RT):
                    chk.fail(("multi_object", who, "roundtrip"), case, observed=r[:6], expected=d[:6],
                             msg="object %d (noise-free ZF) no longer recovers its data after calls on OTHER objects" % i)
            lone = getattr(M, scheme)(np.array(multi_channel(scheme, cc[st.ch[i]])))
            lone.set_noise_var(st.noise[i])
            xl, rl = np.asarray(lone.encode(d)), np.asarray(lone.decode(y))
            if not (N.close(x, xl, 1.0, C_RT) and N.close(r, rl, kappa ** 2, C_RT)):
                chk.fail(("multi_object", who, "differs_from_lone_object"), case,
                         observed=r[:6], expected=rl[:6], msg="model: channel %d noise %r" % (st.ch[i], st.noise[i]))
        chk.nontriv(("multi", tuple(st.ch), tuple(st.noise)))


def run_multi(chk, depth):
    events = [(i, op) for i in range(len(MULTI)) for op in MULTI_OPS]
    b = bfs.BFS(chk, build=multi_build,
                enabled=lambda h, st: [] if st.err is not None else events,
                invariant=lambda h, st: multi_invariant(chk, h, st),
                canon=lambda h, st: (tuple(st.ch), tuple(st.noise), st.err is None,
                                     bfs.digest([bfs.state_of(o) for o in st.objs], 9)),
                max_depth=depth, label="multi")
    b.run([()])
    chk.extra["multi_object_states"] = [b.states, b.transitions]


def main(chk: Check):
    chk.assume("continuous channel space is covered by the stated finite families only (DESIGN 2.2)")
    chk.assume("Alamouti and MRT are checked on every non-zero channel of their shape (their equivalent "
               "channel is the scalar ||H||_F^2 resp. sum|h|, so rank is irrelevant); all other schemes "
               "on full-column-rank channels with kappa <= 1e4")
    chk.assume("the channel is applied by the harness as H @ encode(d), noise free; decode uses noise_var=0 (ZF)")
    chk.assume("history part: set_noise_var(None) means 0.0 (documented); negative values (documented ValueError) "
               "are not part of the event alphabet; SVDMimo.decode ignores the noise variance (ZF always)")
    chk.extra["axes"] = {
        "scheme": ["Blast", "MRC", "SVDMimo", "GMDMimo", "MRT", "Alamouti"],
        "shape_class": ["1x1", "Nr>Nt", "Nr==Nt", "1xNt", "Nrx1", "up to 6x6 (thorough 8x8)", "1-D forms"],
        "channel_structure": ["exhaustive small entries", "generic", "nearly dependent", "nearly tied"],
        "channel_dtype": ["complex128", "complex64", "float64", "float32", "int64"],
        "magnitude": [1.0] + list(SCALES),
        "data": ["complex128", "float64", "int64", "0..3 blocks"],
        "memory_layout": ["C", "F", "read-only C", "read-only transposed view"],
        "pairwise": "every two of {structure, dtype(real/int vs complex), magnitude, shape class, layout, data kind} "
                    "occur together at their unusual values (families real_f64@g, int64@1000, real_neardep*, "
                    "real_neartied*[@1e-09], neartied*@g, generic@g, dtype families x data kinds x layouts)"}
    chk.extra["tolerances"] = {"roundtrip_energy_zf": "err <= %g*2^-52*kappa*scale" % C_RT,
                               "mmse": "err <= %g*2^-52*kappa^2*scale" % C_MMSE,
                               "kappa_max": KAPPA_MAX, "sigma2": list(SIGMA2)}

    # the HEAD simplest items run in the parent first, so that the stored witness of every
    # signature is the smallest member of the enumeration that exhibits it
    for fam, member, H in itertools.islice(channel_items(chk.tier), 0, HEAD):
        run_item(chk, fam, member, H)

    def worker(i, n, c):
        try:
            for fam, member, H in shard(itertools.islice(channel_items(c.tier), HEAD, None), i, n):
                run_item(c, fam, member, H)
        except Broken as e:             # carried to the parent (a worker cannot exit 2 by itself)
            c.extra["broken_in_worker"] = str(e)

    run_shards(chk, worker)
    if chk.extra.get("broken_in_worker"):
        raise Broken(chk.extra["broken_in_worker"])
    run_histories(chk, 5 if chk.tier == "thorough" else 4)
    run_multi(chk, 4 if chk.tier == "thorough" else 3)
    chk.require_outcomes("multi_config", 15)
    chk.require_outcomes("history_config", 40)
    chk.sample({"part": "roundtrip", "scheme": "SVDMimo", "form": "2d", "fam": "unit3", "member": 0,
                "H": np.ones((2, 1), dtype=complex), "nblk": 1, "kappa": 1.0})
    chk.sample({"part": "roundtrip", "scheme": "Alamouti", "form": "2d", "fam": "generic", "member": 0,
                "H": F.generic(0, (2, 2), True, tag=4), "nblk": 2, "kappa": 1.0})
    chk.require_outcomes("scheme_shape", 30)
    chk.require_outcomes("kappa_decade", 4)
    chk.require_outcomes("filter_shape", 10)


def replay(case, chk: Check):
    case = dict(case)
    if case.get("part") == "multi":
        hist = tuple((int(e[0]), e[1]) for e in case["history"])
        multi_invariant(chk, hist, multi_build(hist))
        return
    if case.get("part") == "history":
        hist = tuple(tuple(e) for e in case["history"])
        hist_invariant(chk, case["scheme"], hist, hist_build(case["scheme"], hist))
        return
    case["H"] = np.asarray(case["H"])
    if case.get("part") == "filters":
        case.pop("sigma2", None)
        run_filters(chk, case)
    else:
        run_roundtrip(chk, case)
