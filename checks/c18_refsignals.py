"""C18 - reference sequences are CAZAC; pilot based channel estimation is exact.

E1 (exhaustive product enumeration on the real implementation), six parts:

P  prime selection: sizes 12, 24 and EVERY size 25..1200 through
   RootSequence._get_largest_prime_lower_than_number and RootSequence(1, size).Nzc
   against a sieve written here (sequential, smallest size first, so the first
   stored counterexample is the minimal one).
Z  CAZAC relations of RootSequence(root, size): length, |x| = 1 everywhere,
   cyclic extension x[i] == x[i mod Nzc] (exact), and on the base sequence
   (first Nzc elements) zero cyclic autocorrelation at every non-zero lag by
   direct O(N^2) sums and a flat |DFT| by an O(N^2) DFT matrix.  Roots
   {1, 2, Nzc-1, seed-chosen}; quick: sizes multiple of 12, thorough: every size
   25..1200.  Sizes 12 / 24 (QPSK tables, not Zadoff-Chu): every one of the 30
   roots, amplitude and length only.
R  every root index 1..p-1 of every prime length p = 23..1193 (the base lengths
   the numerology can ask for, passed explicitly as Nzc so that the sweep does
   not depend on the prime table): amplitude, autocorrelation and spectrum
   (FFT based here; the four roots of Z are also checked by direct sums).
   Quick tier: every root for p <= 200, every 16th root (+ the four) above.
X  cyclic extension with explicit Nzc: sizes Nzc+{0,1,Nzc-1,Nzc,Nzc+1,Nzc+3,
   2Nzc,2Nzc+5} and get_extended_ZF on position-distinguishable arrays of
   lengths 1..6 x every size n..4n+1.
S  user sequences: every size <= 1200 that is a multiple of the number of
   shifts (8 SRS / 12 DMRS, incl. the table sizes 12 and 24) x normalisation
   on/off x cover codes none/[1,1]/[1,-1]: full Gram matrix of all shifts
   (x cover codes) == N*I resp. I; cover code rows == code[c] * plain sequence.
E  CAZAC estimators: lengths x variant (SRS comb / SRS plain / DMRS plain / raw
   array / OCC [1,1],[1,-1] with and without extra dimension) x normalisation x
   EVERY target shift x EVERY number of taps 1..N/8 x kept taps {L-1, L, window,
   all} x receive forms {1-D, 1..4 antennas} x interferer sets (0-3 users on
   other shifts, adjacent on both sides, full-window delay spread, own
   channels; for OCC also the same shift with the orthogonal cover code).
   Oracle: true frequency response = O(N^2) DFT of the chosen taps on all
   multiplier*N bins.
L  least squares: every pilot matrix with entries in {1,-1,j,0} of the small
   shapes (full row rank, cond <= bound) and the generic family for all shapes
   Nt <= Np <= 4, Nr 1..4, 2-D, 3-D with shared pilots, 3-D with per-realisation
   pilots, real and complex pilots.  Oracle: the H the observation was built from.
"""
import hashlib
import itertools
import math
import os
from contextlib import contextmanager

import numpy as np

from vmc import bfs
from vmc import common, families, numerics
from vmc.parallel import run_shards, shard
from vmc.report import Broken, Check

PID = "C18"
LEVEL = "exploration"
ENGINE = "E1 exhaustive product enumeration (sizes x roots x shifts x estimator configurations x finite channel/pilot families)"
RULE = ("P: every size 12,24,25..1200 vs a sieve. Z/R: RootSequence objects, base sequence = first Nzc "
        "elements; |x|=1, direct-sum cyclic autocorrelation, O(N^2) DFT flatness, exact periodic extension. "
        "S: Gram matrix of all shifts (x cover codes) of user sequences whenever #shifts divides the length. "
        "E: noise-free observation built from the library's own sequences and taps of the generic family; "
        "estimate compared on all multiplier*N bins with the O(N^2) DFT of the taps, with and without "
        "interferers on other shifts. L: Y = H s for pilot matrices of full row rank, estimate == H. "
        "A case is non-trivial when the sequence is a true Zadoff-Chu sequence (Z/R/X), the two shifts differ "
        "(S), the channel has >= 2 taps or interferers are present (E), Nt >= 2 or Np >= 2 (L); distinct = "
        "distinct parameter tuple")

# tolerance constants (DESIGN 2.4): |lhs-rhs| <= C * 2^-52 * kappa * scale
C_AMP = 16.0        # |x| = 1, kappa = 1
C_ZC = 64.0         # autocorrelation / flatness, kappa = pi*u*(Nzc+1) (magnitude of the phase argument)
C_SHIFT = 64.0      # Gram matrix of shifted sequences, kappa = 2*pi*N
C_EST = 64.0        # estimators, kappa = 2*pi*N (phase ramp of the cyclic shifts) * (1 + #interferers)
C_LS = 256.0        # least squares, kappa = cond(s)^2 (normal equations)
LS_COND_BOUND = 100.0

MAX_SIZE = 1200
TAG_H, TAG_I, TAG_LS_H, TAG_LS_S = 18, 19, 20, 21


# ----------------------------------------------------------------------
# oracles (independent re-derivations)
# ----------------------------------------------------------------------
def sieve(n):
    flags = [True] * (n + 1)
    flags[0] = flags[1] = False
    for i in range(2, int(math.isqrt(n)) + 1):
        if flags[i]:
            for j in range(i * i, n + 1, i):
                flags[j] = False
    return flags


_IS_PRIME = sieve(3 * MAX_SIZE)


def largest_prime_le(n):
    p = n
    while not _IS_PRIME[p]:
        p -= 1
    return p


def primes_between(a, b):
    return [p for p in range(a, b + 1) if _IS_PRIME[p]]


def dft_matrix(nrows, ncols, period):
    """W[k, m] = exp(-2 pi j (k m mod period) / period); exact integer reduction"""
    k = np.arange(nrows, dtype=np.int64)
    m = np.arange(ncols, dtype=np.int64)
    return np.exp(-2j * np.pi * ((k[:, None] * m[None, :]) % period) / period)


def direct_autocorr(x):
    """R[l] = sum_n x[n] conj(x[(n+l) mod N]) by direct sums, l = 0..N-1"""
    N = x.size
    n = np.arange(N)
    R = np.empty(N, dtype=complex)
    step = max(1, 400000 // N)
    for a in range(0, N, step):
        lag = np.arange(a, min(N, a + step))
        idx = (n[:, None] + lag[None, :]) % N
        R[a:a + lag.size] = (x[:, None] * np.conj(x[idx])).sum(axis=0)
    return R


def seed_root(nzc):
    """the seed-chosen root index in [3, nzc-2] (nzc >= 7)"""
    return 3 + int(common.seed_offset(TAG_H) * (nzc - 4)) % max(1, nzc - 4)


def designated_roots(nzc):
    out = []
    for u in (1, 2, nzc - 1, seed_root(nzc)):
        if 1 <= u < nzc and u not in out:
            out.append(u)
    return out


MISSING = object()


def _private(obj, *names, default=MISSING):
    """optional access to a NON-public attribute of the code under test (first candidate name that exists);
    its absence is never a verdict about the property"""
    for n in names:
        try:
            return getattr(obj, n)
        except AttributeError:
            continue
    return default


class LibraryOutput(Exception):
    """a value returned by the library for a VALID call has a form the oracle cannot even evaluate"""

    def __init__(self, sig, observed=None, expected=None):
        Exception.__init__(self, "%s: observed %r expected %r" % ("|".join(sig), observed, expected))
        self.sig, self.observed, self.expected = tuple(sig), observed, expected


def raised_by_own_code(e):
    """True when the innermost frame that belongs either to the code under test or to /verif is in /verif
    (frames of numpy / the standard library are skipped): the check itself is wrong, not the library"""
    import traceback
    frames = traceback.extract_tb(e.__traceback__)
    for fr in reversed(frames):
        f = os.path.abspath(fr.filename)
        if f.startswith(common.REPO + os.sep):
            return False
        if f.startswith(common.VERIF_DIR + os.sep):
            return True
    return False


@contextmanager
def guard(chk, prefix, case):
    """chk.guard, except that an exception raised by the check's own code is BROKEN machinery, never a violation;
    exceptions raised inside pyphysim for a valid call remain violations"""
    with chk.guard(prefix, case):
        try:
            yield
        except (KeyboardInterrupt, SystemExit, Broken):
            raise
        except LibraryOutput as e:
            chk.fail(e.sig, case, observed=e.observed, expected=e.expected,
                     msg="the library's result for a valid call cannot be evaluated")
        except BaseException as e:       # noqa
            if raised_by_own_code(e):
                import traceback
                fr = traceback.extract_tb(e.__traceback__)[-1]
                raise Broken("the check's own code raised %s: %s (%s:%d %s)" % (
                    type(e).__name__, e, os.path.basename(fr.filename), fr.lineno, fr.name)) from e
            raise


def _feed(h, v):
    if isinstance(v, np.ndarray):
        h.update(("nd%s%s" % (v.dtype, v.shape)).encode())
        h.update(np.ascontiguousarray(v).tobytes())
    elif isinstance(v, dict):
        for k in sorted(v, key=repr):
            h.update(repr(k).encode())
            _feed(h, v[k])
    elif isinstance(v, (list, tuple)):
        for e in v:
            _feed(h, e)
    else:
        h.update(repr(v).encode())


def obj_digest(o):
    """digest of EVERY attribute of an object (arrays by dtype, shape and bytes)"""
    h = hashlib.sha1()
    try:
        _feed(h, bfs.state_of(o))
    except Exception:       # noqa  -- only ever used for OUTCOMES
        return "unavailable"
    return h.hexdigest()


_WATCH = []


def _watch_list():
    """(label, namespace dict, key) of every module-level / class-level DATA item of the code under test: every
    numpy array, every non-empty dict of arrays, every plain number (root tables, prime table, n_sc_PRB, ...)"""
    if not _WATCH:
        import importlib
        for name in ("reference_signals.zadoffchu", "reference_signals.root_sequence", "reference_signals.srs",
                     "reference_signals.dmrs", "reference_signals.channel_estimation", "channel_estimation.estimators"):
            mod = importlib.import_module("pyphysim." + name)
            spaces = [(name, bfs.state_of(mod))]
            for cn, c in sorted(bfs.state_of(mod).items()):
                if isinstance(c, type) and getattr(c, "__module__", "") == mod.__name__:
                    try:
                        spaces.append((name + "." + cn, bfs.state_of(c)))     # class dict: properties are not evaluated
                    except Exception:       # noqa
                        pass
            for sn, space in spaces:
                for k in sorted(space):
                    v = space[k]
                    if k.startswith("__"):
                        continue
                    if isinstance(v, np.ndarray) or (isinstance(v, (int, float, complex)) and not isinstance(v, bool)) or \
                            (isinstance(v, dict) and v and all(isinstance(e, np.ndarray) for e in v.values())):
                        _WATCH.append((sn + "." + k, space, k))
    return _WATCH


def data_tables_digest():
    h = hashlib.sha1()
    for label, space, k in _watch_list():
        h.update(label.encode())
        _feed(h, space.get(k))
    return h.hexdigest()


# /verif/tools/INVALID_CALL_POLICY.md: property C18 quantifies over VALID sizes / roots / shifts / observations /
# full-rank pilots.  An invalid call is free (any exception, or accepted, object changed or not): it is only RECORDED.
# Required afterwards: valid calls on the live objects still give results bit-identical to lone fresh objects.
def record_invalid_call(chk, what, fn, watched):
    before = [obj_digest(o) for o in watched]
    chk.count("invalid_calls_made")
    try:
        fn()
        how = "accepted"
    except (KeyboardInterrupt, SystemExit, Broken):
        raise
    except Exception as e:       # noqa
        how = "raised:" + type(e).__name__
    changed = "object_changed" if [obj_digest(o) for o in watched] != before else "object_unchanged"
    chk.outcome("invalid_call", (what, how, changed))


class HistoryJudge:
    """stands in for the Check inside one history: failures are collected, and at the end
    * a history without invalid calls reports them as they are;
    * a history with invalid calls is re-run without them: if it fails there too the defect has nothing to do with
      the invalid call (ordinary signatures); otherwise the signature is after_invalid_call|<what>|<relation>."""

    def __init__(self, chk):
        self.chk = chk
        self.fails = []
        self.invalid = None

    def __getattr__(self, name):
        return getattr(self.chk, name)

    def fail(self, sig, case, observed=None, expected=None, msg=""):
        self.fails.append((tuple(sig), case, dict(observed=observed, expected=expected, msg=msg)))

    def invalid_call(self, what, fn, watched):
        record_invalid_call(self.chk, what, fn, watched)
        self.invalid = what                     # the most recent invalid call names the signature


def judge_history(chk, case, body, is_invalid_event, prefix):
    H = HistoryJudge(chk)
    try:
        body(H, case)
    except (KeyboardInterrupt, SystemExit, Broken):
        raise
    except Exception as e:       # noqa
        if H.invalid is None or isinstance(e, LibraryOutput) or raised_by_own_code(e):
            for sig, c, kw in H.fails:
                chk.fail(sig, c, **kw)
            raise                                  # the caller's guard decides: library -> violation, own code -> Broken
        H.fail(("valid_call_raises_" + type(e).__name__,), case, observed="%s: %s" % (type(e).__name__, e),
               expected="the result of a lone fresh object")
    if not H.fails:
        return
    if H.invalid is not None:
        stripped = dict(case, history=[e for e in case["history"] if not is_invalid_event(e)])
        sub = HistoryJudge(Check(PID, LEVEL, ENGINE, RULE, child=True))
        with guard(sub.chk, prefix, stripped):     # the same signature as a history that never had the invalid call
            body(sub, stripped)
        if sub.fails or sub.chk.violations:
            for sig, c, kw in sub.fails:           # wrong without the invalid call as well
                chk.fail(sig, c, **kw)
            for v in sub.chk.violations.values():
                chk.fail(tuple(v["sig"]), stripped, observed=v["observed"], expected=v["expected"], msg=v["msg"])
            return
        for sig, c, kw in H.fails:
            chk.fail(("after_invalid_call", H.invalid, sig[-1]), c, **kw)
        return
    for sig, c, kw in H.fails:
        chk.fail(sig, c, **kw)


def shape_of(a):
    return tuple(int(v) for v in np.shape(a))


# ----------------------------------------------------------------------
# P: prime selection
# ----------------------------------------------------------------------
def eval_prime(chk, case):
    from pyphysim.reference_signals.root_sequence import RootSequence
    size = case["size"]
    want = largest_prime_le(size)
    chk.count("eval_prime_selection")
    chk.outcome("prime_gap", size - want)
    chk.outcome("expected_nzc", want)
    # public surface: RootSequence(1, size).Nzc (sizes > 24).  The selection function itself is not public: used as
    # an optional extra when a candidate name exists (the only way to see the selection for sizes 12 and 24)
    fn = _private(RootSequence, "_get_largest_prime_lower_than_number", "get_largest_prime_lower_than_number",
                  "_largest_prime_lower_than_number")
    got = None
    if fn is MISSING:
        chk.outcome("oracle_input_unavailable", "RootSequence prime selection function")
        chk.count("skipped_private_prime_selection_function")
    else:
        got = fn(size)
    got_obj = None
    if size > 24:
        obj = RootSequence(root_index=1, size=size)
        got_obj = obj.Nzc
        if obj.size != size or shape_of(obj.seq_array()) != (size,):
            chk.fail(("root_sequence", "length"), case,
                     observed=(obj.size, shape_of(obj.seq_array())), expected=size)
    if size > 24:
        chk.nontriv(("prime", size))
    bad = [(via, g) for via, g in (("RootSequence(1,size).Nzc", got_obj), ("selection function", got))
           if g is not None and (int(g) != want or isinstance(g, bool))]
    if bad:
        via, g = bad[0]
        g = int(g)
        if g == 1009 and want > 1009 and int(RootSequence(root_index=1, size=MAX_SIZE).Nzc) == 1009:
            how = "table_ends_at_1009"
        elif g < want and _IS_PRIME[g]:
            how = "smaller_prime_returned"
        elif g > size:
            how = "exceeds_size"
        else:
            how = "not_a_prime" if not _IS_PRIME[g] else "other"
        chk.fail(("prime_selection", how), dict(case, via=via), observed=g, expected=want,
                 msg="base length for requested size %d is %d, largest prime <= size is %d (%s)"
                     % (size, g, want, ", ".join("%s=%s" % b for b in bad)))


def part_prime(chk):
    for size in [12, 24] + list(range(25, MAX_SIZE + 1)):
        case = {"part": "P", "size": size}
        with guard(chk, ("prime_selection",), case):
            eval_prime(chk, case)


# ----------------------------------------------------------------------
# Z / R: CAZAC relations
# ----------------------------------------------------------------------
class ZcTools:
    """per-process memo of DFT matrices and CAZAC verdicts (pure functions of the bytes)"""

    def __init__(self):
        self.W = {}
        self.verdict = {}

    def dft(self, N):
        W = self.W.get(N)
        if W is None:
            if len(self.W) > 2:
                self.W.clear()
            W = self.W[N] = dft_matrix(N, N, N)
        return W


def cazac_direct(tools, base, u):
    """(max |R(l)|, l_worst, max | |X_k| - sqrt N |, k_worst, kappa) by direct sums"""
    key = base.tobytes()
    v = tools.verdict.get(key)
    if v is None:
        N = base.size
        R = direct_autocorr(base)
        off = np.abs(R[1:]) if N > 1 else np.zeros(1)
        l = int(np.argmax(off)) + 1 if N > 1 else 0
        X = tools.dft(N) @ base
        dev = np.abs(np.abs(X) - math.sqrt(N))
        k = int(np.argmax(dev))
        v = (float(off.max()), l, float(dev.max()), k, float(abs(R[0])))
        if len(tools.verdict) > 64:
            tools.verdict.clear()
        tools.verdict[key] = v
    return v


def parity(u):
    return "root_odd" if u % 2 else "root_even"


def check_amplitude(chk, x, case, what):
    dev = np.abs(np.abs(x) - 1.0)
    if not np.all(np.isfinite(dev)) or dev.max() > C_AMP * numerics.EPS:
        i = int(np.argmax(np.where(np.isfinite(dev), dev, np.inf)))
        chk.fail((what, "unit_amplitude"), case, observed="|x[%d]| = %r" % (i, float(np.abs(x.ravel()[i]))),
                 expected="1 within %g" % (C_AMP * numerics.EPS))
        return False
    return True


def check_cazac_base(chk, tools, base, u, case, direct):
    """CAZAC relations on a base sequence of prime length"""
    N = base.size
    kappa = max(1.0, math.pi * u * (N + 1))
    tol = C_ZC * numerics.EPS * kappa
    if direct:
        rmax, l, fdev, k, r0 = cazac_direct(tools, base, u)
        chk.count("eval_cazac_sequences_direct_sums")
        chk.count("relations_autocorrelation_lags_direct", N - 1)
        chk.count("relations_dft_bins_direct", N)
    else:
        X = np.fft.fft(base)
        dev = np.abs(np.abs(X) - math.sqrt(N))
        k = int(np.argmax(dev))
        fdev = float(dev.max())
        R = np.fft.ifft(X * np.conj(X))            # cyclic autocorrelation up to reversal; magnitudes equal
        off = np.abs(R[1:])
        l = int(np.argmax(off)) + 1
        rmax = float(off.max())
        r0 = float(abs(R[0]))
        chk.count("eval_cazac_sequences_fft")
        chk.count("relations_autocorrelation_lags_fft", N - 1)
        chk.count("relations_dft_bins_fft", N)
    ok = True
    if not (rmax <= tol * N):
        chk.fail(("zc_root", "autocorrelation_nonzero", parity(u)), dict(case, lag=l),
                 observed="|R(%d)| = %.6g (N=%d)" % (l, rmax, N), expected="<= %.3g" % (tol * N),
                 msg="cyclic autocorrelation of the base sequence at a non-zero lag")
        ok = False
    if not (abs(r0 - N) <= tol * N):
        chk.fail(("zc_root", "autocorrelation_lag0"), case, observed=r0, expected=N)
        ok = False
    if not (fdev <= tol * math.sqrt(N)):
        chk.fail(("zc_root", "spectrum_not_flat", parity(u)), dict(case, bin=k),
                 observed="| |X[%d]| - sqrt(N) | = %.6g" % (k, fdev), expected="<= %.3g" % (tol * math.sqrt(N)))
        ok = False
    return ok


def check_periodic(chk, x, nzc, case):
    size = x.size
    i = np.arange(size)
    want = x[:nzc][i % nzc]
    if not np.array_equal(x, want):
        j = int(np.nonzero(x != want)[0][0])
        chk.fail(("cyclic_extension", "not_periodic_copy", "size>2Nzc" if size > 2 * nzc else "size<=2Nzc"),
                 dict(case, index=j), observed=complex(x[j]), expected=complex(want[j]),
                 msg="x[%d] != x[%d mod %d]" % (j, j, nzc))
        return False
    return True


def eval_zc(chk, case, tools):
    """one RootSequence(root, size) object; default prime selection"""
    from pyphysim.reference_signals.root_sequence import RootSequence
    size, u = case["size"], case["root"]
    obj = RootSequence(root_index=u, size=size)
    x = np.asarray(obj.seq_array())
    chk.count("eval_root_sequence_objects")
    if shape_of(x) != (size,) or obj.size != size or obj.index != u:
        chk.fail(("root_sequence", "length"), case, observed=(shape_of(x), obj.size, obj.index),
                 expected=((size,), size, u))
        return
    check_amplitude(chk, x, case, "zc_root" if size > 24 else "table_root")
    if size <= 24:
        chk.count("excluded_table_sequence_not_zadoff_chu")
        chk.outcome("sequence_kind", "qpsk_table_%d" % size)
        return
    nzc = int(obj.Nzc)
    if not (1 <= nzc <= size):
        chk.fail(("root_sequence", "Nzc_out_of_range"), case, observed=nzc, expected="1..%d" % size)
        return
    chk.outcome("sequence_kind", "zadoff_chu_extended" if size > nzc else "zadoff_chu_plain")
    chk.outcome("object_nzc", nzc)
    chk.nontriv(("zc", size, u))
    check_periodic(chk, x, nzc, case)
    check_cazac_base(chk, tools, np.ascontiguousarray(x[:nzc]), u, case, direct=True)
    # other entry points give the very same numbers: explicit Nzc, Nzc only, the module level functions
    from pyphysim.reference_signals.zadoffchu import calcBaseZC, get_extended_ZF
    alts = [("RootSequence(size,Nzc)", RootSequence(root_index=u, size=size, Nzc=nzc).seq_array()),
            ("get_extended_ZF(calcBaseZC)", get_extended_ZF(calcBaseZC(nzc, u), size))]
    if nzc > 24:
        alts.append(("RootSequence(Nzc).base", np.asarray(RootSequence(root_index=u, Nzc=nzc).seq_array())))
    for name, a in alts:
        a = np.asarray(a)
        ref = x if a.size == size else x[:nzc]
        chk.count("eval_entry_point_equalities")
        if a.shape != ref.shape or not numerics.close(a, ref, max(1.0, math.pi * u * (nzc + 1)), C_ZC):
            chk.fail(("entry_points", "root_sequence", name), case, observed="differs from RootSequence(root, size)",
                     expected="the same sequence", msg="max difference %.6g" % numerics.err(a, ref))


def eval_table(chk, case):
    from pyphysim.reference_signals.root_sequence import RootSequence
    size, u = case["size"], case["root"]
    obj = RootSequence(root_index=u, size=size)
    x = np.asarray(obj.seq_array())
    chk.count("eval_root_sequence_objects")
    if shape_of(x) != (size,) or obj.size != size:
        chk.fail(("root_sequence", "length"), case, observed=(shape_of(x), obj.size), expected=size)
        return
    check_amplitude(chk, x, case, "table_root")
    if obj.index != u:
        chk.fail(("root_sequence", "index"), case, observed=obj.index, expected=u)
    # table sequences are QPSK points exp(j pi phi / 4), phi odd:  x^4 == -1
    if np.max(np.abs(x ** 4 + 1)) > 64 * numerics.EPS:
        chk.fail(("table_root", "not_qpsk_alphabet"), case, observed=float(np.max(np.abs(x ** 4 + 1))), expected=0)
    chk.count("excluded_table_sequence_not_zadoff_chu")
    chk.outcome("sequence_kind", "qpsk_table_%d" % size)
    return x.tobytes()


def eval_allroots(chk, case, tools):
    """every root of one prime base length, Nzc passed explicitly"""
    from pyphysim.reference_signals.root_sequence import RootSequence
    p, u = case["nzc"], case["root"]
    size = max(p, 25)
    obj = RootSequence(root_index=u, size=size, Nzc=p)
    x = np.asarray(obj.seq_array())
    chk.count("eval_root_sequence_objects")
    if shape_of(x) != (size,) or int(obj.Nzc) != p:
        chk.fail(("root_sequence", "explicit_Nzc_not_honoured"), case, observed=(shape_of(x), obj.Nzc),
                 expected=((size,), p))
        return
    base = np.ascontiguousarray(x[:p])
    check_amplitude(chk, x, case, "zc_root")
    check_periodic(chk, x, p, case)
    check_cazac_base(chk, tools, base, u, case, direct=case.get("direct", False))
    chk.nontriv(("zcr", p, u))


def eval_ext(chk, case):
    """explicit Nzc, explicit larger size"""
    from pyphysim.reference_signals.root_sequence import RootSequence
    p, u, size = case["nzc"], case["root"], case["size"]
    obj = RootSequence(root_index=u, size=size, Nzc=p)
    x = np.asarray(obj.seq_array())
    chk.count("eval_extensions")
    if shape_of(x) != (size,) or obj.size != size or int(obj.Nzc) != p:
        chk.fail(("cyclic_extension", "length"), case, observed=(shape_of(x), obj.size, obj.Nzc),
                 expected=((size,), size, p))
        return
    check_amplitude(chk, x, case, "zc_root")
    check_periodic(chk, x, p, case)
    chk.outcome("extension_branch", "none" if size == p else ("repeat" if size - p > p else "single"))
    chk.nontriv(("ext", p, u, size))


def eval_ext_raw(chk, case):
    """get_extended_ZF on an array whose every position has its own value"""
    from pyphysim.reference_signals.zadoffchu import get_extended_ZF
    n, size = case["n"], case["size"]
    k = np.arange(n)
    root = (1 + k / 8.0) * np.exp(1j * 0.7 * k)
    out = np.asarray(get_extended_ZF(root, size))
    chk.count("eval_extensions")
    if shape_of(out) != (size,):
        chk.fail(("cyclic_extension", "length"), case, observed=shape_of(out), expected=(size,))
        return
    want = root[np.arange(size) % n]
    if not np.array_equal(out, want):
        j = int(np.nonzero(out != want)[0][0])
        chk.fail(("cyclic_extension", "not_periodic_copy", "size>2Nzc" if size > 2 * n else "size<=2Nzc"),
                 dict(case, index=j), observed=complex(out[j]), expected=complex(want[j]))
    chk.outcome("extension_branch", "none" if size == n else ("repeat" if size - n > n else "single"))
    chk.nontriv(("extraw", n, size))


# ----------------------------------------------------------------------
# S: user sequences, cyclic shifts, cover codes
# ----------------------------------------------------------------------
COVER_CODES = {"none": None, "[1,1]": (1, 1), "[1,-1]": (1, -1)}


def make_user_seq(kind, root_seq, n_cs, cc, normalize):
    from pyphysim.reference_signals.dmrs import DmrsUeSequence
    from pyphysim.reference_signals.srs import SrsUeSequence
    if kind == "srs":
        return SrsUeSequence(root_seq, n_cs, normalize=normalize)
    code = COVER_CODES[cc]
    return DmrsUeSequence(root_seq, n_cs, cover_code=None if code is None else np.array(code),
                          normalize=normalize)


def eval_shift(chk, case):
    """all shifts (x cover codes) of one (kind, size, root, normalize)"""
    from pyphysim.reference_signals.root_sequence import RootSequence
    kind, size, u, norm = case["kind"], case["size"], case["root"], case["normalize"]
    D = 8 if kind == "srs" else 12
    rs = RootSequence(root_index=u, size=size)
    root = np.asarray(rs.seq_array())
    ccs = ["none"] if kind == "srs" else ["none", "[1,1]", "[1,-1]"]
    rows, labels = [], []
    kappa = 2 * math.pi * size
    tol = C_SHIFT * numerics.EPS * kappa
    plain = {}
    for cc in ccs:
        for s in range(D):
            ue = make_user_seq(kind, rs, s, cc, norm)
            a = np.asarray(ue.seq_array())
            chk.count("eval_user_sequences")
            want_shape = (size,) if cc == "none" else (2, size)
            if shape_of(a) != want_shape or ue.size != size or shape_of(ue.seq_array()) != tuple(ue.shape):
                chk.fail(("user_sequence", kind, "shape"), dict(case, shift=s, cover=cc),
                         observed=(shape_of(a), ue.size, tuple(ue.shape)), expected=(want_shape, size))
                return
            if bool(ue.normalized) != norm:
                chk.fail(("user_sequence", kind, "normalized_flag"), dict(case, shift=s, cover=cc),
                         observed=ue.normalized, expected=norm)
            if cc == "none" and not norm:
                from pyphysim.reference_signals.dmrs import get_dmrs_seq
                from pyphysim.reference_signals.srs import get_srs_seq
                from pyphysim.reference_signals.zadoffchu import get_shifted_root_seq
                for name, alt in (("get_%s_seq" % kind, (get_srs_seq if kind == "srs" else get_dmrs_seq)(root, s)),
                                  ("get_shifted_root_seq", get_shifted_root_seq(root, s, D))):
                    chk.count("eval_entry_point_equalities")
                    if np.shape(alt) != a.shape or not numerics.close(np.asarray(alt), a, 2 * math.pi * size, C_SHIFT):
                        chk.fail(("entry_points", "user_sequence", kind, name), dict(case, shift=s),
                                 observed="differs from the class by %.6g" % numerics.err(np.asarray(alt), a),
                                 expected="the same sequence")
            if cc == "none":
                plain[s] = a
                # constant amplitude: |a| = 1 (or 1/sqrt(N) when normalised)
                amp = np.abs(a) * (math.sqrt(size) if norm else 1.0)
                if np.max(np.abs(amp - 1.0)) > 4 * C_AMP * numerics.EPS:
                    chk.fail(("user_sequence", kind, "constant_amplitude"), dict(case, shift=s),
                             observed=float(np.max(np.abs(amp - 1.0))), expected=0)
                # shift 0 is the root sequence itself
                if s == 0 and not norm and not numerics.close(a, root, 1.0, C_AMP):
                    chk.fail(("user_sequence", kind, "shift0_not_root"), dict(case, shift=0),
                             observed=numerics.err(a, root), expected=0)
            else:
                code = COVER_CODES[cc]
                for c in range(2):
                    if not numerics.close(a[c], code[c] * plain[s], 1.0, C_AMP):
                        chk.fail(("user_sequence", kind, "cover_code_rows"), dict(case, shift=s, cover=cc, slot=c),
                                 observed=numerics.err(a[c], code[c] * plain[s]), expected=0,
                                 msg="row c of a cover-coded sequence must be code[c] * plain sequence")
                if cc == "[1,-1]" and ue.cover_code is None:
                    chk.fail(("user_sequence", kind, "cover_code_attr"), dict(case, shift=s, cover=cc))
            rows.append(a.reshape(-1))
            labels.append((s, cc))
    # Gram matrices: plain sequences among themselves; cover-coded ones among themselves
    groups = [[i for i, l in enumerate(labels) if l[1] == "none"],
              [i for i, l in enumerate(labels) if l[1] != "none"]]
    for g in groups:
        if not g:
            continue
        A = np.stack([rows[i] for i in g])
        slots = A.shape[1] // size
        G = A @ A.conj().T                      # direct inner products
        diag = float(slots) if norm else float(slots * size)
        want = diag * np.eye(len(g))
        chk.count("eval_shift_pairs", len(g) * len(g))
        for i in range(len(g)):
            for j in range(len(g)):
                if i != j:
                    chk.nontriv(((((size * 2048 + u) * 2 + int(norm)) * 2 + (kind == "srs")) * 64 + g[i]) * 64 + g[j])
        E = np.abs(G - want)
        if not np.all(np.isfinite(E)) or E.max() > tol * diag:
            i, j = np.unravel_index(int(np.argmax(np.where(np.isfinite(E), E, np.inf))), E.shape)
            la, lb = labels[g[i]], labels[g[j]]
            rel = "self_norm" if i == j else ("cross_shift_nonzero" if la[0] != lb[0] else "cross_cover_nonzero")
            chk.fail(("shift_orthogonality", kind, rel), dict(case, a=list(la), b=list(lb)),
                     observed=complex(G[i, j]), expected=complex(want[i, j]),
                     msg="inner product of users %r and %r over %d elements (tolerance %.3g)" % (la, lb, A.shape[1], tol * diag))
    chk.outcome("shift_family", (kind, norm, size % 24 == 0))


# ----------------------------------------------------------------------
# E: CAZAC based estimators
# ----------------------------------------------------------------------
EST_KINDS = ("srs_comb", "srs_plain", "dmrs_plain", "array_comb",
             "occ[1,1]_xd", "occ[1,1]_flat", "occ[1,-1]_xd", "occ[1,-1]_flat",
             "srs_comb3", "array_plain")
EXTRA_KINDS = ("srs_comb3", "array_plain")     # other entry points: size_multiplier 3; raw DMRS array, multiplier 1


def kind_info(kind):
    """(sequence kind, D, multiplier, cover label, extra_dimension, variant name)"""
    if kind == "srs_comb":
        return "srs", 8, 2, "none", None, "comb"
    if kind == "srs_plain":
        return "srs", 8, 1, "none", None, "plain"
    if kind == "dmrs_plain":
        return "dmrs", 12, 1, "none", None, "plain"
    if kind == "array_comb":
        return "srs", 8, 2, "none", None, "comb"
    if kind == "srs_comb3":
        return "srs", 8, 3, "none", None, "comb"
    if kind == "array_plain":
        return "dmrs", 12, 1, "none", None, "plain"
    cc = kind[3:kind.index("]") + 1]
    return "dmrs", 12, 1, cc, kind.endswith("_xd"), "occ"


def other_cover(cc):
    return "[1,-1]" if cc == "[1,1]" else "[1,1]"


def interferer_sets(D, N, occ):
    """lists of (shift offset d, number of taps, cover: 'same'|'other')"""
    if N % D:
        return [[]]
    win = N // D
    out = [[],
           [(D - 1, win, "same")],
           [(1, win, "same")],
           [(1, win, "same"), (D - 1, max(1, win - 1), "same")],
           [(1, max(1, win - 1), "same"), (D // 2, win, "same"), (D - 1, win, "same")]]
    if occ:
        out += [[(0, win, "other")],
                [(0, win, "other"), (1, win, "same"), (D - 1, win, "other")]]
    return out


class SeqCache:
    def __init__(self):
        self.root = {}
        self.ue = {}

    def get(self, kind, N, root, shift, cc, norm):
        from pyphysim.reference_signals.root_sequence import RootSequence
        key = (kind, N, root, shift, cc, norm)
        ue = self.ue.get(key)
        if ue is None:
            rs = self.root.get((N, root))
            if rs is None:
                rs = self.root[(N, root)] = RootSequence(root_index=root, size=N)
            if len(self.ue) > 512:
                self.ue.clear()
            ue = self.ue[key] = make_user_seq(kind, rs, shift, cc, norm)
        return ue


_TR_W = {}


def true_response(taps, nbins):
    """H[a, k] = sum_m taps[a, m] exp(-2 pi j k m / nbins): plain DFT sums"""
    L = taps.shape[1]
    W = _TR_W.get(nbins)
    if W is None or W.shape[0] < L:
        if len(_TR_W) > 8:
            _TR_W.clear()
        W = _TR_W[nbins] = np.ascontiguousarray(dft_matrix(nbins, max(L, nbins // 8 + 1), nbins).T)
    return taps @ W[:L]


def diagnose(est, H, taps, K, nbins):
    """name the way a wrong estimate is wrong (signature component only)"""
    if shape_of(est) != shape_of(H) or not np.all(np.isfinite(est)):
        return "other"
    big = max(1.0, float(np.max(np.abs(H))))
    if taps.shape[1] > K >= 1:
        Ht = true_response(taps[:, :K], nbins).reshape(H.shape)
        if np.max(np.abs(est - Ht)) <= 1e-8 * big:
            return "last_kept_tap_dropped"
    if K == 0 and np.max(np.abs(est)) <= 1e-8 * big:
        return "last_kept_tap_dropped"
    den = np.vdot(H, H)
    if abs(den) > 0:
        a = np.vdot(H, est) / den
        if abs(a - 1) > 1e-6 and np.max(np.abs(est - a * H)) <= 1e-8 * big:
            return "scaled_by_constant"
    return "other"


EPS32 = 2.0 ** -23
EST_LAYOUTS = ("c64", "fortran", "strided", "rowstrided", "negstride", "readonly", "c64_fortran")


def apply_layout(a, layout):
    """same numbers (rounded to single precision for c64), different dtype / memory layout / flags"""
    if layout == "c":
        return np.ascontiguousarray(a)
    if layout == "c64":
        return np.ascontiguousarray(a.astype(np.complex64 if np.iscomplexobj(a) else np.float32))
    if layout == "c64_fortran":
        return np.asfortranarray(a.astype(np.complex64 if np.iscomplexobj(a) else np.float32))
    if layout == "fortran":
        return np.asfortranarray(a)
    if layout == "strided":
        big = np.full(a.shape[:-1] + (2 * a.shape[-1],), 7.5, dtype=a.dtype)
        big[..., ::2] = a
        return big[..., ::2]
    if layout == "rowstrided":
        big = np.full((2 * a.shape[0],) + a.shape[1:], 7.5, dtype=a.dtype)
        big[::2] = a
        return big[::2]
    if layout == "negstride":
        return np.ascontiguousarray(a[..., ::-1])[..., ::-1]
    if layout == "readonly":
        b = np.array(a, copy=True)
        b.flags.writeable = False
        return b
    raise Broken("unknown layout %r" % (layout,))


def build_obs(case, cache):
    """noise-free observation of one configuration, built from the library's own sequences"""
    N, kind, norm, shift = case["N"], case["kind"], case["normalize"], case["shift"]
    L, rx, interf, root = case["L"], case["rx"], case["interf"], case["root"]
    off_h, off_i, fam = case["off_h"], case["off_i"], case["fam"]
    gain, gain_i = case.get("gain", 1.0), case.get("gain_i", 1.0)
    skind, D, mult, cc, xd, variant = kind_info(kind)
    occ = variant == "occ"
    Nr = 1 if rx == "1d" else int(rx)
    nbins = mult * N
    taps = gain * families.generic(fam, (Nr, L), True, offset=off_h, tag=TAG_H)
    H = true_response(taps, nbins)                       # Nr x nbins
    ue = cache.get(skind, N, root, shift, cc, norm)
    seq = np.asarray(ue.seq_array())                     # (N,) or (2, N)
    if seq.shape != ((2, N) if occ else (N,)) or seq.dtype.kind not in "cf":
        raise LibraryOutput(("user_sequence", skind, "shape"), (seq.shape, str(seq.dtype)), (2, N) if occ else (N,))
    Hp = H[:, ::mult]                                    # response on the pilot subcarriers
    if occ:
        Y = seq[None, :, :] * Hp[:, None, :]             # Nr x Nc x N
    else:
        Y = seq[None, :] * Hp                            # Nr x N
    mag = float(np.sum(np.abs(taps), axis=1).max())
    for idx, (d, L2, cov) in enumerate(interf):
        s2 = (shift + d) % D
        cc2 = cc if (cov == "same" or not occ) else other_cover(cc)
        taps2 = gain_i * families.generic(fam + 1 + idx, (Nr, L2), True, offset=off_i, tag=TAG_I)
        mag = max(mag, float(np.sum(np.abs(taps2), axis=1).max()))
        H2 = true_response(taps2, nbins)[:, ::mult]
        seq2 = np.asarray(cache.get(skind, N, root, s2, cc2, norm).seq_array())
        if seq2.shape != seq.shape:
            raise LibraryOutput(("user_sequence", skind, "shape"), seq2.shape, seq.shape)
        if occ:
            Y = Y + seq2[None, :, :] * H2[:, None, :]
        else:
            Y = Y + seq2[None, :] * H2
    # shape the observation the way the API wants it
    if occ:
        if rx == "1d":
            obs = Y[0] if xd else Y[0].reshape(-1)
        else:
            obs = Y if xd else Y.reshape(Nr, -1)
    else:
        obs = Y[0] if rx == "1d" else Y
    want = H[0] if rx == "1d" else H
    return dict(obs=np.ascontiguousarray(obs), want=want, H=H, taps=taps, ue=ue, seq=seq, mag=mag,
                Nr=Nr, nbins=nbins, occ=occ, xd=xd, mult=mult, variant=variant)


def make_estimator(kind, b):
    from pyphysim.reference_signals.channel_estimation import (CazacBasedChannelEstimator,
                                                               CazacBasedWithOCCChannelEstimator)
    if b["occ"]:
        return CazacBasedWithOCCChannelEstimator(b["ue"])
    if kind.startswith("array"):
        return CazacBasedChannelEstimator(b["seq"], size_multiplier=b["mult"])
    return CazacBasedChannelEstimator(b["ue"], size_multiplier=b["mult"])


def run_estimator(est_obj, b, obs, K):
    if b["occ"]:
        r = est_obj.estimate_channel_freq_domain(obs, K, extra_dimension=b["xd"])
    else:
        r = est_obj.estimate_channel_freq_domain(obs, K)
    r = np.asarray(r)
    if r.dtype.kind not in "cfiu":
        raise LibraryOutput(("cazac_estimator", b["variant"], "result_not_numeric"), str(r.dtype), "numeric array")
    return r


def est_context(case):
    """name of the non-default context (scale / layout) of a case, or None"""
    lay = case.get("layout", "c")
    if lay != "c":
        return "layout=" + lay
    g, gi = case.get("gain", 1.0), case.get("gain_i", 1.0)
    if g == 0:
        return "zero_channel"
    if g != gi:
        return "interferer_gain_differs"
    if g != 1.0:
        return "gain<1" if g < 1 else "gain>1"
    return None


def est_tolerance(case, b):
    N, interf = case["N"], case["interf"]
    scale = max(numerics.scale(b["want"]), b["mag"])
    if case.get("layout", "c").startswith("c64"):
        # the observation itself is rounded to single precision
        return 1.0, 64.0 * EPS32 / numerics.EPS * (1 + len(interf)), scale
    return 2 * math.pi * N * (1 + len(interf)), C_EST, scale


def eval_est(chk, case, cache):
    """one estimator configuration, one interferer set (optionally a gain / a memory layout of the observation)"""
    N, kind, norm, shift = case["N"], case["kind"], case["normalize"], case["shift"]
    L, K, rx, interf, root = case["L"], case["K"], case["rx"], case["interf"], case["root"]
    layout = case.get("layout", "c")
    ctx = est_context(case)
    b = build_obs(case, cache)
    variant, Nr, nbins, H, taps, want = b["variant"], b["Nr"], b["nbins"], b["H"], b["taps"], b["want"]
    chk.count("eval_estimator_cases")
    obs = apply_layout(b["obs"], layout)
    obs_copy = np.array(obs, copy=True)
    obs_shape, obs_strides = obs.shape, obs.strides
    est = run_estimator(make_estimator(kind, b), b, obs, K)

    if ctx is None:
        chk.outcome("estimator_form", (kind, rx, len(interf)))
    else:
        chk.outcome("estimator_context", (ctx, b["variant"], rx))
    if L >= 2 or interf:
        # packed integer key (compact to ship between processes): every component of the parameter tuple
        ik = (len(interf) * 16 + (interf[0][0] if interf else 15)) * 2 + (1 if interf and interf[0][2] == "other" else 0)
        key = N
        for v, base in ((EST_KINDS.index(kind), 16), (int(norm), 2), (shift, 16), (L, 64), (K, 512),
                        (0 if rx == "1d" else int(rx), 8), (ik, 256), (root, 2048)):
            key = key * base + v
        if ctx is None:
            chk.nontriv(-key)        # negative: disjoint from the (positive) keys of part S
        else:
            chk.nontriv(("ctx", ctx, case.get("gain", 1.0), -key))
    if not np.array_equal(obs, obs_copy) or obs.shape != obs_shape or obs.strides != obs_strides:
        chk.fail(("cazac_estimator", variant, "input_mutated"), case,
                 observed=(obs.shape, obs.strides), expected=(obs_shape, obs_strides))
    if shape_of(est) != shape_of(want):
        chk.fail(("cazac_estimator", variant, "shape"), case, observed=shape_of(est), expected=shape_of(want))
        return None
    kappa, c, scale = est_tolerance(case, b)
    if numerics.close(est, want, kappa, c, scale_=scale):
        return est
    detail = dict(observed="max |est - H| = %.6g (max|H| = %.4g)" % (numerics.err(est, want), numerics.scale(want)),
                  expected="<= %.3g" % (c * numerics.EPS * kappa * scale))
    if ctx is not None:
        # does the same configuration pass at unit gain / plain contiguous complex128 input?
        base = {k: v for k, v in case.items() if k not in ("gain", "gain_i", "layout")}
        sub = Check(PID, LEVEL, ENGINE, RULE, child=True)
        with guard(sub, ("x",), base):
            eval_est(sub, base, cache)
        if not sub.violations:
            chk.fail(("cazac_estimator", variant, "wrong_only_for", ctx), case,
                     msg="the same configuration is exact with unit gain and a contiguous complex128 observation", **detail)
            return est
    if interf:
        # is it the interferers?  re-run without them
        sub = eval_est(Check(PID, LEVEL, ENGINE, RULE, child=True), dict(case, interf=[]), cache)
        alone_ok = sub is not None and numerics.close(sub, want, kappa, c, scale_=scale)
    else:
        alone_ok = False
    if interf and alone_ok:
        kinds = sorted(set(("same_shift_other_cover" if d == 0 else "other_shift") for d, _, _ in interf))
        chk.fail(("cazac_estimator", variant, "changed_by_interferer", "+".join(kinds)), case,
                 msg="estimate is exact without the interferers and wrong with them", **detail)
    else:
        chk.fail(("cazac_estimator", variant, "not_exact", diagnose(est.reshape(Nr, -1), H, taps, K, nbins)),
                 case, msg="noise-free observation, %d taps, num_taps_to_keep=%d (taps 0..%d kept)" % (L, K, K), **detail)
    return est


# ----------------------------------------------------------------------
# H: histories on shared objects, aliasing, re-used buffers
# ----------------------------------------------------------------------
SEQ_OPS = (("srs", 0, "none", True), ("srs", 0, "none", False), ("srs", 3, "none", True),
           ("dmrs", 0, "[1,-1]", True), ("dmrs", 5, "[1,1]", False), ("dmrs", 0, "none", True),
           ("clobber",),
           ("bad", "srs", 8), ("bad", "dmrs", -12), ("bad", "dmrs_cc_list", 1))


def seq_histories(maxlen):
    for n in range(1, maxlen + 1):
        for h in itertools.permutations(range(len(SEQ_OPS)), n):
            if SEQ_OPS[h[0]][0] == "clobber":
                continue                      # nothing to clobber yet
            yield list(h)


_FRESH = {}


def fresh_user_bytes(N, root, op):
    """the sequence a brand-new RootSequence + user object gives (history free reference)"""
    from pyphysim.reference_signals.root_sequence import RootSequence
    key = (N, root, op)
    v = _FRESH.get(key)
    if v is None:
        if len(_FRESH) > 4096:
            _FRESH.clear()
        kind, sh, cc, norm = op
        a = np.asarray(make_user_seq(kind, RootSequence(root_index=root, size=N), sh, cc, norm).seq_array())
        v = _FRESH[key] = (a.tobytes(), a.shape)
    return v


def eval_seq_history(chk, case):
    judge_history(chk, case, _seq_history_body, lambda i: SEQ_OPS[i][0] == "bad", ("shared_root_history",))


def _seq_history_body(chk, case):
    """ONE RootSequence shared by users created in the given order; arrays handed to the caller are
    clobbered in place by the 'clobber' event; the root and every other object must be unaffected"""
    from pyphysim.reference_signals.root_sequence import RootSequence
    N, root, hist = case["N"], case["root"], case["history"]
    chk.count("eval_shared_root_histories")
    rs = RootSequence(root_index=root, size=N)
    root_before = np.array(rs.seq_array(), copy=True)
    fresh_root = np.asarray(RootSequence(root_index=root, size=N).seq_array())
    live = []                                  # (op, object, snapshot bytes)
    shared_cc = {"[1,-1]": np.array([1, -1]), "[1,1]": np.array([1, 1])}
    cc_snap = {k: v.copy() for k, v in shared_cc.items()}
    for step, oi in enumerate(hist):
        op = SEQ_OPS[oi]
        at = dict(case, step=step)
        if op[0] == "bad":
            from pyphysim.reference_signals.dmrs import DmrsUeSequence
            from pyphysim.reference_signals.srs import SrsUeSequence
            if op[1] == "srs":
                fn = lambda: SrsUeSequence(rs, op[2], normalize=True)
            elif op[1] == "dmrs":
                fn = lambda: DmrsUeSequence(rs, op[2], cover_code=shared_cc["[1,-1]"], normalize=True)
            else:
                fn = lambda: DmrsUeSequence(rs, op[2], cover_code=[1, -1])
            chk.invalid_call("user_sequence:%s_%s" % (op[1], op[2]), fn, [rs] + [ue for _, ue, _ in live])
            chk.outcome("history_event", op)
        elif op[0] == "clobber":
            for _, ue, _ in live:
                a = ue.seq_array()
                if a.flags.writeable:
                    a[...] = 0.25 + 0.5j       # the caller scribbles over what it was handed
            live = []
            chk.outcome("history_event", "clobber")
        else:
            kind, sh, cc, norm = op
            from pyphysim.reference_signals.dmrs import DmrsUeSequence
            from pyphysim.reference_signals.srs import SrsUeSequence
            if kind == "srs":
                ue = SrsUeSequence(rs, sh, normalize=norm)
            else:
                ue = DmrsUeSequence(rs, sh, cover_code=None if cc == "none" else shared_cc[cc], normalize=norm)
            a = np.asarray(ue.seq_array())
            want_bytes, want_shape = fresh_user_bytes(N, root, op)
            if a.shape != want_shape or a.tobytes() != want_bytes:
                chk.fail(("shared_root_history", "user_sequence_depends_on_history"), at,
                         observed="differs from the sequence of a fresh RootSequence/user pair",
                         expected="bit-identical", msg="op %r after %r" % (op, [SEQ_OPS[i] for i in hist[:step]]))
            # views vs copies are not the property's business (values are): recorded; a harmful alias shows up as a
            # changed root after the 'clobber' event
            chk.outcome("user_sequence_memory", "shares_root" if np.shares_memory(a, np.asarray(rs.seq_array())) else "own")
            live.append((op, ue, a.tobytes()))
            chk.outcome("history_event", op)
        # after every event: the root is untouched, earlier users are untouched, cover-code arguments keep their content
        now = np.asarray(rs.seq_array())
        if now.shape != root_before.shape or now.tobytes() != root_before.tobytes() or now.tobytes() != fresh_root.tobytes():
            chk.fail(("shared_root_history", "root_sequence_changed"), at,
                     observed="max |root_after - root_before| = %.6g" % numerics.err(now, root_before), expected=0,
                     msg="after %r" % ([SEQ_OPS[i] for i in hist[:step + 1]],))
            return
        for op2, ue2, snap in live:
            if np.asarray(ue2.seq_array()).tobytes() != snap:
                chk.fail(("shared_root_history", "earlier_user_sequence_changed"), at, observed=op2,
                         msg="after %r" % ([SEQ_OPS[i] for i in hist[:step + 1]],))
                return
        for k, v in shared_cc.items():
            if not np.array_equal(v, cc_snap[k]):
                chk.fail(("shared_root_history", "cover_code_argument_changed"), at, observed=v, expected=cc_snap[k])
                return
    chk.nontriv(("hseq", N, root, tuple(hist)))


EST_EVENTS = 7          # 0..4 valid estimations, 5 / 6 invalid calls (wrong length, wrong dimensions)


def bad_received(N, kind, ei, delta=1):
    skind, D, mult, cc, xd, variant = kind_info(kind)
    if ei == 5:                                   # one element too many / too few
        if variant == "occ":
            return np.ones((2, N + delta), dtype=complex) if xd else np.ones(2 * N + delta, dtype=complex)
        return np.ones(N + delta, dtype=complex)
    if variant == "occ":                          # wrong cover-code dimension / odd flat length with two antennas
        return np.ones((3, N), dtype=complex) if xd else np.ones((2, 2 * N + 1), dtype=complex)
    return np.ones((2, 2, N), dtype=complex)      # three dimensions


def est_event(N, D, ei):
    """(L, K, rx, interferers) of event number ei for a length-N, D-shift estimator"""
    ok = N % D == 0
    win = N // D if ok else max(2, N // 8)
    if ei == 0:
        return 2 if win >= 2 else 1, 1 if win >= 2 else 0, "1d", []
    if ei == 1:
        return win, win - 1, "1d", ([(D - 1, win, "same")] if ok else [])
    if ei == 2:
        return 1, 0, 2, []
    if ei == 3:
        L = min(3, win)
        return L, win - 1, 2, ([(1, win, "same"), (D - 1, win, "same")] if ok else [])
    return 2 if win >= 2 else 1, N - 1, 3, []


def eval_est_history(chk, case, cache):
    judge_history(chk, case, lambda h, c: _est_history_body(h, c, cache), lambda e: e >= 5,
                  ("cazac_estimator", kind_info(case["kind"])[5], "history"))


def _est_history_body(chk, case, cache):
    """ONE estimator object used for several estimations (different channels, numbers of taps, antennas);
    the received array is ONE buffer per shape whose content is replaced; returned estimates are clobbered
    by the caller before the next call"""
    N, kind, norm, shift, root, hist = case["N"], case["kind"], case["normalize"], case["shift"], case["root"], case["history"]
    skind, D, mult, cc, xd, variant = kind_info(kind)
    chk.count("eval_estimator_histories")
    est_obj = None
    buffers, kept = {}, []
    ref_snapshot = None
    for step, ei in enumerate(hist):
        if ei >= 5:
            if est_obj is None:
                L0, K0, rx0, i0 = est_event(N, D, 0)
                b0 = build_obs({"N": N, "kind": kind, "normalize": norm, "shift": shift, "root": root, "L": L0, "rx": rx0,
                                "interf": [], "fam": 1, "off_h": case["off_h"], "off_i": case["off_i"]}, cache)
                est_obj = make_estimator(kind, b0)
                ref_snapshot = np.array(est_obj.ue_ref_seq, copy=True)
                ue_snapshot = np.array(b0["ue"].seq_array(), copy=True)
                ue_obj, xd_flag, occ_flag = b0["ue"], b0["xd"], b0["occ"]
            for delta in ((1, -1) if ei == 5 else (1,)):
                bad = bad_received(N, kind, ei, delta)
                bad_copy = bad.copy()
                if occ_flag:
                    fn = lambda: est_obj.estimate_channel_freq_domain(bad, 1, extra_dimension=xd_flag)
                else:
                    fn = lambda: est_obj.estimate_channel_freq_domain(bad, 1)
                what = ("too_long" if delta > 0 else "too_short") if ei == 5 else "wrong_dimensions"
                chk.invalid_call("cazac_estimator:" + what, fn, [est_obj, ue_obj])
                chk.outcome("invalid_call_input", (what, "mutated" if not np.array_equal(bad, bad_copy) else "untouched"))
            chk.outcome("estimator_history_event", (ei, step))
            continue
        L, K, rx, interf = est_event(N, D, ei)
        ec = {"part": "E", "N": N, "kind": kind, "normalize": norm, "shift": shift, "root": root, "L": L, "K": K,
              "rx": rx, "interf": [list(t) for t in interf], "fam": (37 * ei + 11 * step + N) % 977,
              "off_h": case["off_h"], "off_i": case["off_i"]}
        at = dict(case, step=step)
        b = build_obs(ec, cache)
        if est_obj is None:
            est_obj = make_estimator(kind, b)
            ref_snapshot = np.array(est_obj.ue_ref_seq, copy=True)
            ue_snapshot = np.array(b["ue"].seq_array(), copy=True)
            ue_obj, xd_flag, occ_flag = b["ue"], b["xd"], b["occ"]
        buf = buffers.get(b["obs"].shape)
        if buf is None:
            buf = buffers[b["obs"].shape] = np.empty_like(b["obs"])
        buf[...] = b["obs"]                      # same array object, new content
        est = run_estimator(est_obj, b, buf, K)
        chk.count("eval_estimator_calls_on_reused_object")
        fresh = run_estimator(make_estimator(kind, b), b, b["obs"].copy(), K)
        if not np.array_equal(buf, b["obs"]):
            chk.fail(("cazac_estimator", variant, "history", "input_mutated"), at)
        if est.shape != fresh.shape or est.tobytes() != fresh.tobytes():
            chk.fail(("cazac_estimator", variant, "history", "reused_object_differs_from_fresh"), at,
                     observed="max |est_reused - est_fresh| = %.6g" % numerics.err(est, fresh), expected="bit-identical",
                     msg="events %r" % (hist[:step + 1],))
        kappa, c, scale = est_tolerance(ec, b)
        if shape_of(est) != shape_of(b["want"]) or not numerics.close(est, b["want"], kappa, c, scale_=scale):
            sub = Check(PID, LEVEL, ENGINE, RULE, child=True)
            with guard(sub, ("cazac_estimator", variant), ec):
                eval_est(sub, ec, cache)
            if not sub.violations:
                chk.fail(("cazac_estimator", variant, "history", "not_exact_on_reused_object"), at,
                         observed="max |est - H| = %.6g" % numerics.err(est, b["want"]), msg="events %r" % (hist[:step + 1],))
            else:
                for v in sub.violations.values():
                    chk.fail(tuple(v["sig"]), ec, observed=v["observed"], expected=v["expected"], msg=v["msg"])
        for j, (arr, snap) in enumerate(kept):
            if arr.tobytes() != snap:
                chk.fail(("cazac_estimator", variant, "history", "earlier_result_changed"), at,
                         msg="estimate returned by call %d changed during call %d" % (j, step))
        chk.outcome("estimate_memory", "aliases_input" if any(
            np.shares_memory(est, o) for o in (buf, np.asarray(est_obj.ue_ref_seq))) else "own")
        # the caller scribbles over the previous result, keeps the current one
        for arr, _ in kept:
            if arr.flags.writeable:
                arr[...] = np.nan
        kept = [(est, est.tobytes())]
        if chk.invalid is None and (np.asarray(est_obj.ue_ref_seq).tobytes() != ref_snapshot.tobytes() or
                                    np.asarray(b["ue"].seq_array()).tobytes() != ue_snapshot.tobytes()):
            chk.fail(("cazac_estimator", variant, "history", "reference_sequence_changed"), at)
            return
        chk.outcome("estimator_history_event", (ei, step))
    chk.nontriv(("hest", N, kind, norm, tuple(hist)))


def k_values(L, N, D, with_interf):
    """(label, K): taps 0..K are kept"""
    win = N // D if N % D == 0 else None
    out = [("K=L-1", L - 1)]
    if with_interf:
        if L + 1 <= win:
            out.append(("K=L", L))
        if win - 1 > L:
            out.append(("K=window-1", win - 1))
    else:
        out.append(("K=L", L))
        out.append(("K=N-1", N - 1))
    return out


def est_unit(chk, unit, cache):
    _, N, kind, norm, shift, root = unit
    skind, D, mult, cc, xd, variant = kind_info(kind)
    occ = variant == "occ"
    off_h, off_i = common.seed_offset(TAG_H), common.seed_offset(TAG_I)
    Lmax = max(1, N // 8)
    rxs = ["1d", 1, 2, 3, 4] if chk.tier == "thorough" else (["1d", 1, 2] if N < 96 else ["1d", 2])
    isets = interferer_sets(D, N, occ)
    if chk.tier != "thorough" and N >= 96:
        isets = [t for i, t in enumerate(isets) if i != 3]      # quick: without the two-interferer set
    win = N // D if N % D == 0 else None
    for L in range(1, Lmax + 1):
        for ri, rx in enumerate(rxs):
            for ii, interf in enumerate(isets):
                if interf and L > win:
                    chk.count("excluded_target_delay_spread_exceeds_shift_window")
                    continue
                for klabel, K in k_values(L, N, D, bool(interf)):
                    fam = (N * 131 + shift * 17 + L * 7 + ri * 3 + ii) % 977
                    case = {"part": "E", "N": N, "kind": kind, "normalize": norm, "shift": shift, "root": root,
                            "L": L, "K": K, "rx": rx, "interf": [list(t) for t in interf],
                            "fam": fam, "off_h": off_h, "off_i": off_i}
                    with guard(chk, ("cazac_estimator", variant), case):
                        eval_est(chk, case, cache)
                    chk.outcome("kept_vs_taps", klabel)


def est_ctx_unit(chk, unit, cache):
    """numeric scale 1e-12..1e12 and dtype / layout / flags of the received array"""
    _, what, N, kind, norm, root = unit
    skind, D, mult, cc, xd, variant = kind_info(kind)
    occ = variant == "occ"
    off_h, off_i = common.seed_offset(TAG_H), common.seed_offset(TAG_I)
    ok = N % D == 0
    win = N // D if ok else max(2, N // 8)
    isets = [[]] + ([[(D - 1, win, "same")], [(1, win, "same"), (D // 2, win, "same"), (D - 1, win, "same")]] if ok else [])
    if ok and occ:
        isets.append([(0, win, "other"), (1, win, "same")])
    if what == "scale":
        ctxs = [{"gain": g, "gain_i": g} for g in (1e-12, 1e-6, 1e6, 1e12)]
        ctxs += [{"gain": 1e-3, "gain_i": 1.0}, {"gain": 1.0, "gain_i": 1e-3}, {"gain": 1e9, "gain_i": 1e12}]
        ctxs += [{"gain": 0.0, "gain_i": 0.0}, {"gain": 0.0, "gain_i": 1.0}]     # a channel of all zeros
        rxs = ["1d", 2]
    else:
        ctxs = [{"layout": l} for l in EST_LAYOUTS]
        rxs = ["1d", 2, 3]
    for shift in (0, D - 1):
        for L in sorted(set((1, min(3, win), win))):
            for K in sorted(set((L - 1, win - 1))):
                if K + 1 < L:
                    continue
                for ri, rx in enumerate(rxs):
                    for ii, interf in enumerate(isets):
                        for ci, ctx in enumerate(ctxs):
                            if ctx.get("gain") != ctx.get("gain_i") and not interf:
                                continue
                            if ctx.get("layout") in ("fortran", "rowstrided", "c64_fortran") and rx == "1d" and not (occ and xd):
                                continue          # 1-D arrays have no such layout
                            case = {"part": "E", "N": N, "kind": kind, "normalize": norm, "shift": shift, "root": root,
                                    "L": L, "K": K, "rx": rx, "interf": [list(t) for t in interf],
                                    "fam": (N * 131 + shift * 17 + L * 7 + ri * 3 + ii) % 977, "off_h": off_h, "off_i": off_i}
                            case.update(ctx)
                            pre = ("cazac_estimator", variant) + ((ctx["layout"],) if "layout" in ctx else ())
                            with guard(chk, pre, case):
                                eval_est(chk, case, cache)


# ----------------------------------------------------------------------
# T: the same VALUES presented as Python objects and as numpy scalars / other containers
# ----------------------------------------------------------------------
TYPE_VARIANTS = ("py", "np_bool", "np_int64", "np_int32", "np_uint8", "cc_list", "cc_tuple", "cc_int8", "cc_float",
                 "cc_bool", "all_numpy", "np_size")


def _typed(tv, what, v):
    """value v of argument kind `what` ('bool' | 'int' | 'cc') in the presentation of type variant tv"""
    if what == "bool":
        return np.bool_(v) if tv in ("np_bool", "all_numpy") else bool(v)
    if what == "int":
        t = {"np_int64": np.int64, "all_numpy": np.int64, "np_int32": np.int32, "np_uint8": np.uint8}.get(tv)
        if t is None or (t is np.uint8 and not 0 <= v < 256):
            return int(v)
        return t(v)
    if v is None:
        return None
    if tv == "cc_list":
        return [int(e) for e in v]
    if tv == "cc_tuple":
        return tuple(int(e) for e in v)
    if tv in ("cc_int8", "all_numpy"):
        return np.array(v, dtype=np.int8)
    if tv == "cc_float":
        return np.array(v, dtype=float)
    if tv == "cc_bool" and all(e == 1 for e in v):
        return np.array([True] * len(v))
    return np.array(v)


def typed_run(case):
    """construct root -> user sequence -> estimator -> estimate with every argument in the presentation case['tv'];
    returns (sequence, estimate, truth, taps, nbins, Nr)"""
    from pyphysim.reference_signals.channel_estimation import (CazacBasedChannelEstimator,
                                                               CazacBasedWithOCCChannelEstimator)
    from pyphysim.reference_signals.dmrs import DmrsUeSequence
    from pyphysim.reference_signals.root_sequence import RootSequence
    from pyphysim.reference_signals.srs import SrsUeSequence
    tv, N, kind, norm, shift, root = case["tv"], case["N"], case["kind"], case["normalize"], case["shift"], case["root"]
    L, K, rx = case["L"], case["K"], case["rx"]
    skind, D, mult, cc, xd, variant = kind_info(kind)
    occ = variant == "occ"
    Nr = 1 if rx == "1d" else int(rx)
    # the size is typed on its own ('np_size'): a tree that insists on a Python int there would hide every other int
    rs = RootSequence(root_index=_typed(tv, "int", root), size=np.int64(N) if tv == "np_size" else int(N))
    if skind == "srs":
        ue = SrsUeSequence(rs, _typed(tv, "int", shift), normalize=_typed(tv, "bool", norm))
    else:
        ue = DmrsUeSequence(rs, _typed(tv, "int", shift), cover_code=_typed(tv, "cc", COVER_CODES[cc]),
                            normalize=_typed(tv, "bool", norm))
    seq = np.asarray(ue.seq_array())
    if seq.shape != ((2, N) if occ else (N,)) or seq.dtype.kind not in "cf":
        raise LibraryOutput(("typed_arguments", tv, "sequence_shape"), (seq.shape, str(seq.dtype)), (2, N) if occ else (N,))
    nbins = mult * N
    taps = families.generic(case["fam"], (Nr, L), True, offset=case["off_h"], tag=TAG_H)
    H = true_response(taps, nbins)
    Hp = H[:, ::mult]
    Y = seq[None, :, :] * Hp[:, None, :] if occ else seq[None, :] * Hp
    if occ:
        obs = (Y[0] if xd else Y[0].reshape(-1)) if rx == "1d" else (Y if xd else Y.reshape(Nr, -1))
        est = CazacBasedWithOCCChannelEstimator(ue).estimate_channel_freq_domain(
            np.ascontiguousarray(obs), _typed(tv, "int", K), extra_dimension=_typed(tv, "bool", xd))
    else:
        obs = Y[0] if rx == "1d" else Y
        est = CazacBasedChannelEstimator(ue, size_multiplier=_typed(tv, "int", mult)).estimate_channel_freq_domain(
            np.ascontiguousarray(obs), _typed(tv, "int", K))
    return seq, np.asarray(est), (H[0] if rx == "1d" else H), taps, nbins, Nr, bool(ue.normalized)


def typed_judge(case, seq, est, want, taps, nbins, Nr):
    """the relations of the Python-typed call: constant amplitude 1 or 1/sqrt(N); exact single-user estimate"""
    N, K = case["N"], case["K"]
    amp = np.abs(seq)
    level = float(amp.flat[0])
    if not (np.max(np.abs(amp - level)) <= 4 * C_AMP * numerics.EPS and
            (abs(level - 1.0) <= 4 * C_AMP * numerics.EPS or abs(level * math.sqrt(N) - 1.0) <= 64 * numerics.EPS)):
        return "sequence_amplitude", "|x| ranges %.6g..%.6g" % (amp.min(), amp.max())
    if shape_of(est) != shape_of(want):
        return "estimate_shape", "%r instead of %r" % (shape_of(est), shape_of(want))
    scale = max(numerics.scale(want), float(np.sum(np.abs(taps), axis=1).max()))
    if not numerics.close(est, want, 2 * math.pi * N, C_EST, scale_=scale):
        H = want.reshape(Nr, -1)
        return ("estimate_not_exact_" + diagnose(est.reshape(Nr, -1), H, taps, K, nbins),
                "max |est - H| = %.6g (max|H| = %.4g)" % (numerics.err(est, want), numerics.scale(want)))
    return None


def eval_typed(chk, case):
    """one configuration with Python-typed arguments, then with the numpy-typed / re-packaged arguments of equal
    value.  A loud rejection of a presentation is an OUTCOME (no wrong value was produced); an accepted call is
    judged by the same relations as the Python-typed call"""
    py = dict(case, tv="py")
    r = typed_run(py)                                   # a valid, plainly typed call: exceptions are violations
    chk.count("eval_typed_argument_cases")
    bad = typed_judge(py, *r[:6])
    if bad:
        chk.count("excluded_typed_base_case_wrong")      # reported by parts S / E with their own signatures
        return
    tv = case["tv"]
    if tv == "py":
        return
    try:
        r = typed_run(case)
    except (KeyboardInterrupt, SystemExit, Broken, LibraryOutput):
        raise
    except Exception as e:       # noqa
        if raised_by_own_code(e):
            raise
        chk.outcome("typed_arguments", (tv, case["kind"], "rejected:" + type(e).__name__))
        return
    chk.count("eval_typed_argument_cases")
    chk.outcome("typed_arguments", (tv, case["kind"], "accepted"))
    if case["normalize"]:
        level = float(np.abs(r[0]).flat[0])
        chk.outcome("typed_normalize", (tv, "honoured" if abs(level * math.sqrt(case["N"]) - 1) < 1e-9 else "ignored",
                                        "reports_normalized" if r[6] else "reports_not_normalized"))
    chk.nontriv(("typed", tv, case["N"], case["kind"], case["normalize"], case["shift"], case["L"], case["rx"]))
    bad = typed_judge(case, *r[:6])
    if bad:
        sig = ("typed_arguments", tv, bad[0])
        if bad[0].startswith("estimate_not_exact"):
            sig = ("typed_arguments", tv, "normalize_on" if case["normalize"] else "normalize_off", bad[0])
        chk.fail(sig, case,
                 observed=bad[1], expected="the relations the Python-typed call satisfies",
                 msg="same values, arguments presented as %s" % tv)


def typed_unit(chk, unit):
    _, N, root = unit
    off_h = common.seed_offset(TAG_H)
    for kind in ("srs_comb", "dmrs_plain", "occ[1,-1]_xd", "occ[1,1]_flat"):
        skind, D, mult, cc, xd, variant = kind_info(kind)
        for norm in (False, True):
            for shift in (0, 3):
                for L, K in ((1, 0), (2, 1)):
                    for rx in ("1d", 2):
                        for tv in TYPE_VARIANTS:
                            if tv.startswith("cc_") and variant != "occ":
                                continue
                            if tv == "cc_bool" and cc != "[1,1]":
                                continue
                            case = {"part": "T", "tv": tv, "N": N, "kind": kind, "normalize": norm, "shift": shift,
                                    "root": root, "L": L, "K": K, "rx": rx, "fam": (N + 7 * shift + L) % 977, "off_h": off_h}
                            with guard(chk, ("typed_arguments", tv), case):
                                eval_typed(chk, case)


def est_hist_unit(chk, unit, cache):
    _, N, kind, norm, root, maxlen = unit
    skind, D, mult, cc, xd, variant = kind_info(kind)
    off_h, off_i = common.seed_offset(TAG_H), common.seed_offset(TAG_I)
    for n in range(1, maxlen + 1):
        for hist in itertools.product(range(EST_EVENTS), repeat=n):
            case = {"part": "HE", "N": N, "kind": kind, "normalize": norm, "shift": (3 * len(hist) + hist[0]) % D,
                    "root": root, "history": list(hist), "off_h": off_h, "off_i": off_i}
            with guard(chk, ("cazac_estimator", variant, "history"), case):
                eval_est_history(chk, case, cache)


ROOT_POOL = (("ok", 12, None, 0), ("ok", 12, None, 29), ("ok", 24, None, 0), ("ok", 25, None, 1), ("ok", 29, None, 28),
             ("ok", 30, None, 28), ("ok", 36, 29, 28), ("ok", None, 29, 28), ("ok", 48, None, 5), ("ok", 1200, None, 1192),
             ("bad", 20, None, 1), ("bad", 30, 31, 1), ("bad", None, None, 1), ("bad", 29, None, 29), ("bad", 12, None, 30),
             ("clobber_newest",))


def make_root(spec):
    from pyphysim.reference_signals.root_sequence import RootSequence
    _, size, nzc, u = spec
    kw = {}
    if size is not None:
        kw["size"] = size
    if nzc is not None:
        kw["Nzc"] = nzc
    return RootSequence(root_index=u, **kw)


def root_pool_unit(chk, unit):
    """SEVERAL live RootSequence objects of different sizes (tables, equal base length, largest size) created in
    every order, mixed with invalid constructions and with the caller overwriting a returned array: every new
    object equals the lone reference taken at the start, live objects and the module's tables stay as they were"""
    _, maxlen = unit
    ref = {}
    for i, spec in enumerate(ROOT_POOL):
        if spec[0] == "ok":
            # a VALID construction: an exception of the implementation is a violation (replayable one-event history)
            with guard(chk, ("root_pool_history",), {"part": "HR", "history": [i]}):
                o = make_root(spec)
                ref[spec] = (np.asarray(o.seq_array()).tobytes(), int(o.size), int(o.Nzc))
    tables0 = data_tables_digest()
    for n in range(1, maxlen + 1):
        for hist in itertools.permutations(range(len(ROOT_POOL)), n):
            if ROOT_POOL[hist[0]][0] == "clobber_newest":
                continue
            case = {"part": "HR", "history": list(hist)}
            with guard(chk, ("root_pool_history",), case):
                eval_root_pool(chk, case, ref, tables0)


def root_public_state(o):
    return (np.asarray(o.seq_array()).tobytes(), int(o.size), int(o.Nzc), o.index)


def eval_root_pool(chk, case, ref=None, tables0=None):
    judge_history(chk, case, lambda h, c: _root_pool_body(h, c, ref, tables0), lambda i: ROOT_POOL[i][0] == "bad",
                  ("root_pool_history",))


def _root_pool_body(chk, case, ref=None, tables0=None):
    hist = case["history"]
    if ref is None:
        ref = {}
        for spec in ROOT_POOL:
            if spec[0] == "ok":
                try:
                    o = make_root(spec)
                    ref[spec] = (np.asarray(o.seq_array()).tobytes(), int(o.size), int(o.Nzc))
                except (KeyboardInterrupt, SystemExit, Broken):
                    raise
                except Exception:       # noqa  -- reported when the history itself constructs this object
                    pass
        tables0 = data_tables_digest()
    chk.count("eval_root_pool_histories")
    live = []
    for step, i in enumerate(hist):
        spec = ROOT_POOL[i]
        at = dict(case, step=step)
        if spec[0] == "ok":
            o = make_root(spec)
            got = (np.asarray(o.seq_array()).tobytes(), int(o.size), int(o.Nzc))
            if spec in ref and got != ref[spec]:
                chk.fail(("root_pool_history", "new_object_differs_from_lone_reference"), at,
                         observed="size %d Nzc %d" % got[1:], expected="size %d Nzc %d, bit-identical" % ref[spec][1:],
                         msg="RootSequence%r after %r" % (spec[1:], [ROOT_POOL[j] for j in hist[:step]]))
            chk.outcome("root_objects_memory", "shared" if any(
                np.shares_memory(np.asarray(o2.seq_array()), np.asarray(o.seq_array())) for o2, _ in live) else "own")
            live.append((o, root_public_state(o)))
        elif spec[0] == "bad":
            chk.invalid_call("root_sequence:size=%s,Nzc=%s,root=%s" % spec[1:], lambda: make_root(spec), [o for o, _ in live])
        else:
            if live:
                o, _ = live.pop()
                a = o.seq_array()
                if a.flags.writeable:
                    a[...] = 0.5j
        chk.outcome("root_pool_event", spec)
        for o, d in live:
            if root_public_state(o) != d:
                chk.fail(("root_pool_history", "live_object_changed"), at,
                         msg="after %r" % ([ROOT_POOL[j] for j in hist[:step + 1]],))
                return
    chk.outcome("module_data_after_root_pool_history", "unchanged" if data_tables_digest() == tables0 else "changed")
    chk.nontriv(("hroot", tuple(hist)))


EST_POOL = ((48, "srs_comb", False, 2), (40, "srs_plain", True, 5), (36, "occ[1,-1]_flat", True, 7),
            (48, "dmrs_plain", False, 0), (25, "array_comb", False, 3), (48, "srs_comb3", True, 2))
EST_POOL_EVENTS = (0, 3)


def est_pool_prepare(cache, off_h, off_i):
    acts = []
    for oi, (N, kind, norm, shift) in enumerate(EST_POOL):
        D = kind_info(kind)[1]
        for ei in EST_POOL_EVENTS:
            L, K, rx, interf = est_event(N, D, ei)
            ec = {"part": "E", "N": N, "kind": kind, "normalize": norm, "shift": shift, "root": est_root(N, "seed"),
                  "L": L, "K": K, "rx": rx, "interf": [list(t) for t in interf], "fam": (53 * oi + 7 * ei) % 977,
                  "off_h": off_h, "off_i": off_i}
            b = build_obs(ec, cache)
            lone = run_estimator(make_estimator(kind, b), b, b["obs"].copy(), K)
            acts.append((oi, ec, b, K, lone.tobytes(), lone.shape))
    return acts


def eval_est_pool(chk, case, cache, acts=None):
    """SEVERAL live estimators (lengths 25..48, all variants) used alternately; every result is bit-identical to the
    result of a lone fresh estimator and (checked once per action) equal to the true response"""
    hist = case["history"]
    if acts is None:
        acts = est_pool_prepare(cache, case["off_h"], case["off_i"])
    chk.count("eval_estimator_pool_histories")
    objs = {}
    for oi, ec, b, K, _, _ in acts:
        if oi not in objs:
            objs[oi] = make_estimator(ec["kind"], b)
    digs = {oi: obj_digest(o) for oi, o in objs.items()}      # recorded as an outcome only
    for step, ai in enumerate(hist):
        oi, ec, b, K, lone, lone_shape = acts[ai]
        est = run_estimator(objs[oi], b, b["obs"], K)
        chk.count("eval_estimator_calls_on_reused_object")
        if est.shape != lone_shape or est.tobytes() != lone:
            chk.fail(("cazac_estimator", b["variant"], "pool", "differs_from_lone_estimator"), dict(case, step=step),
                     expected="bit-identical", msg="estimator %r, after actions %r" % (EST_POOL[oi], hist[:step]))
        chk.outcome("estimator_pool_action", (ai, step))
    chk.outcome("estimator_pool_objects", "unchanged" if all(obj_digest(o) == digs[oi] for oi, o in objs.items())
                else "internal_state_changed")
    chk.nontriv(("hpool", tuple(hist)))


def est_pool_unit(chk, unit, cache):
    _, maxlen = unit
    off_h, off_i = common.seed_offset(TAG_H), common.seed_offset(TAG_I)
    acts = None
    with guard(chk, ("cazac_estimator", "pool"), {"part": "HP", "history": [], "off_h": off_h, "off_i": off_i}):
        acts = est_pool_prepare(cache, off_h, off_i)
    if acts is None:
        return
    tables0 = data_tables_digest()
    for oi, ec, b, K, _, _ in acts:            # the lone results themselves are right
        with guard(chk, ("cazac_estimator", b["variant"]), ec):
            eval_est(chk, ec, cache)
    for n in range(1, maxlen + 1):
        for hist in itertools.product(range(len(acts)), repeat=n):
            case = {"part": "HP", "history": list(hist), "off_h": off_h, "off_i": off_i}
            with guard(chk, ("cazac_estimator", "pool"), case):
                eval_est_pool(chk, case, cache, acts)
    chk.outcome("module_data_after_estimator_pool", "unchanged" if data_tables_digest() == tables0 else "changed")


def est_big_unit(chk, unit, cache):
    """the largest size of the numerology: 1200 elements, base length 1193 (roots incl. 1192)"""
    _, N, kind, norm, root = unit
    skind, D, mult, cc, xd, variant = kind_info(kind)
    off_h, off_i = common.seed_offset(TAG_H), common.seed_offset(TAG_I)
    win = N // D
    isets = interferer_sets(D, N, variant == "occ")
    for shift in (0, D - 1):
        for L in (1, 2, win // 2, win):
            for ri, rx in enumerate(("1d", 2)):
                for ii, interf in enumerate(isets):
                    for klabel, K in k_values(L, N, D, bool(interf)):
                        case = {"part": "E", "N": N, "kind": kind, "normalize": norm, "shift": shift, "root": root,
                                "L": L, "K": K, "rx": rx, "interf": [list(t) for t in interf],
                                "fam": (N * 131 + shift * 17 + L * 7 + ri * 3 + ii) % 977, "off_h": off_h, "off_i": off_i}
                        with guard(chk, ("cazac_estimator", variant), case):
                            eval_est(chk, case, cache)
                        chk.outcome("largest_size", (kind, norm, root))


def ls_error_cases(Nt, Np, form):
    """pilot matrices whose Gram matrix is EXACTLY singular in floating point"""
    out = [("zero", np.zeros((Nt, Np), dtype=complex))]
    if Nt == 2:
        row = np.array([1, -1, 1j, 1][:Np], dtype=complex)
        out.append(("equal_rows", np.stack([row, row])))
    return out


def eval_ls_error(chk, case):
    from pyphysim.channel_estimation.estimators import compute_ls_estimation
    Nt, Np, form, which = case["Nt"], case["Np"], case["form"], case["which"]
    bad = dict(ls_error_cases(Nt, Np, form))[which]
    good = families.generic(3, (Nt, Np), True, offset=case["off_s"], tag=TAG_LS_S)
    H = families.generic(4, (2, Nt), True, offset=case["off_h"], tag=TAG_LS_H)
    if form == "2d":
        Yg, sg, Yb, sb = H @ good, good, H @ bad, bad
    elif form == "3d_shared_pilots":
        Yg, sg, Yb, sb = np.stack([H @ good] * 3), good, np.stack([H @ bad] * 3), bad
    else:
        Yg, sg = np.stack([H @ good] * 3), np.stack([good] * 3)
        Yb, sb = np.stack([H @ good, H @ bad, H @ good]), np.stack([good, bad, good])   # the 2nd realisation is singular
    first = np.asarray(compute_ls_estimation(Yg, sg))
    Yc, sc = Yb.copy(), sb.copy()
    # singular pilots are OUTSIDE the property ("any full-rank pilot matrix"): whatever the call does is recorded only
    record_invalid_call(chk, "ls_estimation:%s:singular_%s" % (form, which), lambda: compute_ls_estimation(Yb, sb), [])
    chk.outcome("invalid_call_input", ("ls_singular", "untouched" if np.array_equal(Yb, Yc) and np.array_equal(sb, sc) else "mutated"))
    record_invalid_call(chk, "ls_estimation:%s:pilot_count_mismatch" % form,
                        lambda: compute_ls_estimation(Yg, np.ones(np.shape(sg)[:-1] + (Np + 1,), dtype=complex)), [])
    # required: the next VALID call is as exact as before
    again = np.asarray(compute_ls_estimation(Yg, sg))
    chk.count("eval_ls_cases")
    if again.shape != first.shape or again.tobytes() != first.tobytes():
        chk.fail(("after_invalid_call", "ls_estimation:singular_" + which, "later_valid_result_differs"), case,
                 observed="max difference %.6g" % numerics.err(again, first), expected="bit-identical to the result before")


def seq_hist_unit(chk, unit):
    _, N, root, maxlen = unit
    for hist in seq_histories(maxlen):
        case = {"part": "HS", "N": N, "root": root, "history": hist}
        with guard(chk, ("shared_root_history",), case):
            eval_seq_history(chk, case)


# ----------------------------------------------------------------------
# L: least squares
# ----------------------------------------------------------------------
LS_ALPHABET = (1, -1, 1j, 0)
LS_SHAPES = [(1, 1), (1, 2), (2, 2), (1, 3), (2, 3), (3, 3), (1, 4), (2, 4), (3, 4), (4, 4)]


def small_matrix(idx, shape):
    n = shape[0] * shape[1]
    ent = []
    for _ in range(n):
        ent.append(LS_ALPHABET[idx % len(LS_ALPHABET)])
        idx //= len(LS_ALPHABET)
    return np.array(ent, dtype=complex).reshape(shape)


def ls_pilots(case, r=0):
    Nt, Np = case["Nt"], case["Np"]
    if case["pfam"] == "small":
        # realisation r of a 3-D stack uses the next index (wrapping)
        total = len(LS_ALPHABET) ** (Nt * Np)
        return small_matrix((case["pidx"] + 7919 * r) % total, (Nt, Np))
    if case["pfam"] == "generic_real":
        return families.generic(case["pidx"] + 31 * r, (Nt, Np), False, offset=case["off_s"], tag=TAG_LS_S)
    return families.generic(case["pidx"] + 31 * r, (Nt, Np), True, offset=case["off_s"], tag=TAG_LS_S)


LS_LAYOUTS = ("c64", "fortran", "strided", "readonly", "transposed_view")


def ls_layout(a, layout):
    if layout == "transposed_view":
        return np.ascontiguousarray(np.swapaxes(a, -1, -2)).swapaxes(-1, -2)
    return apply_layout(a, layout)


def eval_ls(chk, case):
    from pyphysim.channel_estimation.estimators import compute_ls_estimation
    Nt, Np, Nr, form = case["Nt"], case["Np"], case["Nr"], case["form"]
    pgain, hgain, layout = case.get("pgain", 1.0), case.get("hgain", 1.0), case.get("layout", "c")
    ctx = None
    if layout != "c":
        ctx = "layout=" + layout
    elif pgain != 1.0 or hgain != 1.0:
        ctx = "pilots*%g,channel*%g" % (pgain, hgain)
    c64 = layout.startswith("c64")
    R = 1 if form == "2d" else 3
    per = form == "3d_per_realization"
    pil = [pgain * ls_pilots(case, r if per else 0) for r in range(R)]
    conds = [families.cond(s) for s in pil]
    kmax = max(conds)
    if not math.isfinite(kmax):
        chk.count("excluded_pilots_rank_deficient")
        return
    if kmax > (10.0 if c64 else LS_COND_BOUND):
        chk.count("excluded_pilots_cond_above_bound")
        return
    Hs = [hgain * families.generic(case["hidx"] + r, (Nr, Nt), True, offset=case["off_h"], tag=TAG_LS_H) for r in range(R)]
    if c64:
        # single precision inputs: the reference channel is the one the rounded numbers encode
        pil = [p_.astype(np.complex64) for p_ in pil]
        Hs = [h_.astype(np.complex64).astype(complex) for h_ in Hs]
        Ys = [(Hs[r] @ pil[r].astype(complex)) for r in range(R)]
    else:
        Ys = [Hs[r] @ pil[r] for r in range(R)]
    if form == "2d":
        Y, s, want = Ys[0], pil[0], Hs[0]
    elif form == "3d_shared_pilots":
        Y, s, want = np.stack(Ys), pil[0], np.stack(Hs)
    else:
        Y, s, want = np.stack(Ys), np.stack(pil), np.stack(Hs)
    if case["pfam"] == "generic_real":
        s = np.ascontiguousarray(s.real) if np.iscomplexobj(s) else s
    if layout != "c":
        Y, s = ls_layout(Y, layout), ls_layout(s, layout)
    Yc, sc = np.array(Y, copy=True), np.array(s, copy=True)
    got = np.asarray(compute_ls_estimation(Y, s))
    chk.count("eval_ls_cases")
    if ctx is None:
        chk.outcome("ls_form", (form, Nt, Np, case["pfam"]))
    else:
        chk.outcome("ls_context", (ctx, form))
    if Nt >= 2 or Np >= 2:
        chk.nontriv(("ls", form[:4] + case["pfam"][-4:] + (ctx or ""), ((Nt * 8 + Np) * 8 + Nr) * 2 ** 20 + case["pidx"]))
    pk = "real_pilots" if case["pfam"] == "generic_real" else "complex_pilots"
    if not (np.array_equal(Y, Yc) and np.array_equal(s, sc)):
        chk.fail(("ls_estimation", form, "input_mutated"), case)
    if shape_of(got) != shape_of(want):
        chk.fail(("ls_estimation", form, "shape", pk), case, observed=shape_of(got), expected=shape_of(want))
        return
    kappa, c = kmax * kmax, C_LS
    if c64:
        c = 64.0 * EPS32 / numerics.EPS
    if not numerics.close(got, want, kappa, c):
        sig = ("ls_estimation", form, "not_exact", pk)
        if ctx is not None:
            base = {k: v for k, v in case.items() if k not in ("pgain", "hgain", "layout")}
            sub = Check(PID, LEVEL, ENGINE, RULE, child=True)
            with guard(sub, ("x",), base):
                eval_ls(sub, base)
            if not sub.violations:
                sig = ("ls_estimation", form, "wrong_only_for",
                       ctx if layout != "c" else ("pilots_small" if pgain < 1 else "pilots_large" if pgain > 1 else "channel_scaled"))
        chk.fail(sig, case,
                 observed="max |est - H| = %.6g (max|H| = %.4g)" % (numerics.err(got, want), numerics.scale(want)),
                 expected="<= %.3g (cond(s) = %.3g)" % (c * numerics.EPS * kappa * numerics.scale(got, want), kmax),
                 msg="Y = H s noise free, Nt=%d Np=%d Nr=%d" % (Nt, Np, Nr))


def ls_ctx_unit(chk, unit):
    """numeric scale (relative tolerances) and dtype / layout / flags of the LS inputs"""
    _, shape, form, S = unit
    Nt, Np = shape
    off_s, off_h = common.seed_offset(TAG_LS_S), common.seed_offset(TAG_LS_H)
    ctxs = [{"pgain": pg, "hgain": hg} for pg in (1e-6, 1e6) for hg in (1e-12, 1.0, 1e12)]
    ctxs += [{"pgain": 1.0, "hgain": hg} for hg in (1e-12, 1e12, 0.0)]
    ctxs += [{"layout": l} for l in LS_LAYOUTS]
    for which, _ in ls_error_cases(Nt, Np, form):
        case = {"part": "LE", "Nt": Nt, "Np": Np, "form": form, "which": which, "off_s": off_s, "off_h": off_h}
        with guard(chk, ("after_invalid_call", "ls_estimation", form), case):
            eval_ls_error(chk, case)
    for pidx in range(S):
        for Nr in (1, 2, 3, 4):
            for ctx in ctxs:
                case = {"part": "L", "pfam": "generic", "pidx": pidx, "Nt": Nt, "Np": Np, "Nr": Nr, "form": form,
                        "hidx": (pidx * 5 + Nr) % 911, "off_s": off_s, "off_h": off_h}
                case.update(ctx)
                pre = ("ls_estimation", form) + ((ctx["layout"],) if "layout" in ctx else ())
                with guard(chk, pre, case):
                    eval_ls(chk, case)


def ls_unit(chk, unit):
    _, pfam, shape, form, lo, hi = unit
    Nt, Np = shape
    off_s, off_h = common.seed_offset(TAG_LS_S), common.seed_offset(TAG_LS_H)
    for pidx in range(lo, hi):
        nrs = [1 + (pidx + Nt) % 4] if pfam == "small" else [1, 2, 3, 4]
        for Nr in nrs:
            case = {"part": "L", "pfam": pfam, "pidx": pidx, "Nt": Nt, "Np": Np, "Nr": Nr, "form": form,
                    "hidx": (pidx * 5 + Nr) % 911, "off_s": off_s, "off_h": off_h}
            with guard(chk, ("ls_estimation", form), case):
                eval_ls(chk, case)


# ----------------------------------------------------------------------
# enumeration
# ----------------------------------------------------------------------
def est_lengths(tier):
    """multiples of 24 plus lengths that are NOT multiples of 12 / 24: a prime square (25), a prime (31, no
    extension), multiples of only one of the two shift counts (36, 40, 60), 50, a power of two (64), ..."""
    if tier == "quick":
        return [24, 25, 31, 36, 40, 48, 50, 64, 72, 96, 144]
    return [12, 24, 25, 31, 36, 40, 48, 50, 60, 64, 72, 96, 100, 120, 121, 128, 144, 192, 288]


def est_root(N, which):
    if N <= 24:
        return {"seed": int(common.seed_offset(TAG_H) * 30) % 30, "one": 1, "last": 29, "zero": 0}[which]
    nzc = largest_prime_le(N)
    return {"seed": seed_root(nzc), "one": 1, "last": nzc - 1}[which]


def all_units(tier):
    """deterministic list of work units (identical in every process); heavy kinds interleaved"""
    thorough = tier == "thorough"
    zc, rr, ex, sh, es, ls = [], [], [], [], [], []
    # Z: group sizes by expected prime so that a worker's memo of the base sequence is used
    sizes = list(range(25, MAX_SIZE + 1)) if thorough else [s for s in range(36, MAX_SIZE + 1, 12)]
    groups = {}
    for s in sizes:
        groups.setdefault(largest_prime_le(s), []).append(s)
    for p in sorted(groups):
        zc.append(("zc", tuple(groups[p])))
    zc.append(("table", 12))
    zc.append(("table", 24))
    # R: every root of every prime base length
    for p in primes_between(23, MAX_SIZE):
        rr.append(("allroots", p))
    # X
    for p in primes_between(23, MAX_SIZE):
        if thorough or p < 150 or p % 10 == 3:
            ex.append(("ext", p))
    ex.append(("extraw",))
    # S
    for kind, D in (("srs", 8), ("dmrs", 12)):
        for size in [12, 24] + list(range(25, MAX_SIZE + 1)):
            if size % D == 0:
                sh.append(("shift", kind, size))
    # E
    for N in est_lengths(tier):
        for kind in EST_KINDS:
            skind, D, mult, cc, xd, variant = kind_info(kind)
            for norm in (False, True):
                if kind.startswith("array") and norm:
                    continue
                if kind in EXTRA_KINDS and not thorough and N > 64:
                    continue
                for shift in range(D):
                    if N <= 24:
                        whichs = ("zero",) if not thorough else ("zero", "seed", "last")     # root index 0 is valid
                    elif N == 25 and not thorough:
                        whichs = ("seed", "one", "last")
                    elif not thorough or N > 192:
                        whichs = ("seed",)
                    elif N > 96:
                        whichs = ("seed", "last")
                    else:
                        whichs = ("seed", "one", "last")
                    for which in whichs:
                        es.append(("est", N, kind, norm, shift, est_root(N, which)))
    # L
    small_limit = 9 if thorough else 6
    for shape in LS_SHAPES:
        n = shape[0] * shape[1]
        for form in ("2d", "3d_shared_pilots", "3d_per_realization"):
            if n <= small_limit:
                total = len(LS_ALPHABET) ** n
                chunk = 4096
                for lo in range(0, total, chunk):
                    ls.append(("ls", "small", shape, form, lo, min(total, lo + chunk)))
            S = 200 if thorough else 40
            ls.append(("ls", "generic", shape, form, 0, S))
            ls.append(("ls", "generic_real", shape, form, 0, S // 2))
    # H / contexts
    hx = []
    for N in ([24, 48] if not thorough else [12, 24, 25, 36, 48, 144]):
        for which in ("seed", "one"):
            hx.append(("hist_seq", N, est_root(N, which), 3 if not thorough else 4))
    for N in ([40, 48] if not thorough else [31, 36, 40, 48, 72]):
        for kind in EST_KINDS:
            for norm in (False, True):
                if kind.startswith("array") and norm:
                    continue
                if not thorough and N % kind_info(kind)[1]:
                    continue
                hx.append(("hist_est", N, kind, norm, est_root(N, "seed"), 3))
    for what in ("scale", "layout"):
        for N in ([40, 48] if not thorough else [36, 40, 48, 50, 96]):
            for kind in EST_KINDS:
                for norm in (False, True):
                    if kind.startswith("array") and norm:
                        continue
                    hx.append(("est_ctx", what, N, kind, norm, est_root(N, "seed")))
    for shape in LS_SHAPES:
        for form in ("2d", "3d_shared_pilots", "3d_per_realization"):
            hx.append(("ls_ctx", shape, form, 60 if thorough else 12))
    hx.append(("root_pool", 3))
    for N in ([40, 48] if not thorough else [24, 25, 40, 48, 144]):
        hx.append(("typed", N, est_root(N, "seed")))
    hx.append(("est_pool", 4 if thorough else 3))
    big = [("srs_comb", False, "last")]
    if thorough:
        big += [("srs_comb", True, "seed"), ("dmrs_plain", True, "last"), ("occ[1,-1]_flat", True, "last"),
                ("occ[1,1]_xd", False, "seed"), ("srs_comb3", False, "last"), ("array_plain", False, "last")]
    for kind, norm, which in big:
        hx.append(("est_big", MAX_SIZE, kind, norm, est_root(MAX_SIZE, which)))
    ls = ls + hx
    # simplest first inside every kind (the first stored counterexample of a signature is then a small one);
    # cost-sorted lists also balance under round-robin sharding
    es.sort(key=lambda u: u[1])
    return ex + sh + ls + zc + rr + es


def _as_list(x):
    return [_as_list(e) for e in x] if isinstance(x, (tuple, list)) else x


def _as_tuple(x):
    return tuple(_as_tuple(e) for e in x) if isinstance(x, (tuple, list)) else x


def run_unit(chk, unit, tools, cache):
    """safety net: whatever escapes the per-case guards of a unit (a preparation step of the unit calling the
    implementation with a VALID request) becomes a violation with the unit as replayable case; the shard continues"""
    with guard(chk, ("unit", unit[0]), {"part": "unit", "unit": _as_list(unit)}):
        _run_unit(chk, unit, tools, cache)


def _run_unit(chk, unit, tools, cache):
    what = unit[0]
    if what == "zc":
        for size in unit[1]:
            from pyphysim.reference_signals.root_sequence import RootSequence
            case0 = {"part": "Z", "size": size, "root": 1}
            nzc = None
            with guard(chk, ("root_sequence",), case0):
                nzc = int(RootSequence(root_index=1, size=size).Nzc)
            if nzc is None:
                continue
            for u in designated_roots(nzc):
                case = {"part": "Z", "size": size, "root": u}
                with guard(chk, ("zc_root",), case):
                    eval_zc(chk, case, tools)
    elif what == "table":
        seen = {}
        for u in range(30):
            case = {"part": "Z", "size": unit[1], "root": u}
            with guard(chk, ("table_root",), case):
                b = eval_table(chk, case)
                if b is not None and b in seen:
                    chk.fail(("table_root", "two_root_indexes_same_sequence"), case, observed=(seen[b], u),
                             expected="30 distinct sequences", msg="root indexes %d and %d give the same sequence" % (seen[b], u))
                seen.setdefault(b, u)
    elif what == "allroots":
        p = unit[1]
        des = set(designated_roots(p))
        for u in range(1, p):
            if chk.tier != "thorough" and p > 200 and u % 16 != 3 and u not in des:
                continue
            case = {"part": "R", "nzc": p, "root": u, "direct": u in des}
            with guard(chk, ("zc_root",), case):
                eval_allroots(chk, case, tools)
    elif what == "ext":
        p = unit[1]
        for u in designated_roots(p):
            for size in sorted(set(p + a for a in (0, 1, p - 1, p, p + 1, p + 3, 2 * p, 2 * p + 5))):
                if size <= 24:
                    continue
                case = {"part": "X", "nzc": p, "root": u, "size": size}
                with guard(chk, ("cyclic_extension",), case):
                    eval_ext(chk, case)
    elif what == "extraw":
        for n in range(1, 7):
            for size in range(n, 4 * n + 2):
                case = {"part": "X", "raw": True, "n": n, "size": size}
                with guard(chk, ("cyclic_extension",), case):
                    eval_ext_raw(chk, case)
    elif what == "shift":
        _, kind, size = unit
        if size <= 24:
            roots = list(range(30)) if chk.tier == "thorough" else [0, 1, 17, 29]
        else:
            # roots must be valid for the OBJECT's base length (which the prime check P judges separately)
            from pyphysim.reference_signals.root_sequence import RootSequence
            nzc = None
            with guard(chk, ("root_sequence",), {"part": "S", "kind": kind, "size": size, "root": 1, "normalize": False}):
                nzc = int(RootSequence(root_index=1, size=size).Nzc)
            if nzc is None:
                return
            roots = designated_roots(nzc) if chk.tier == "thorough" else [1, seed_root(nzc)]
        for u in roots:
            for norm in (False, True):
                case = {"part": "S", "kind": kind, "size": size, "root": u, "normalize": norm}
                with guard(chk, ("user_sequence", kind), case):
                    eval_shift(chk, case)
    elif what == "est":
        est_unit(chk, unit, cache)
    elif what == "ls":
        ls_unit(chk, unit)
    elif what == "ls_ctx":
        ls_ctx_unit(chk, unit)
    elif what == "est_ctx":
        est_ctx_unit(chk, unit, cache)
    elif what == "hist_est":
        est_hist_unit(chk, unit, cache)
    elif what == "hist_seq":
        seq_hist_unit(chk, unit)
    elif what == "typed":
        typed_unit(chk, unit)
    elif what == "root_pool":
        root_pool_unit(chk, unit)
    elif what == "est_pool":
        est_pool_unit(chk, unit, cache)
    elif what == "est_big":
        est_big_unit(chk, unit, cache)
    else:
        raise Broken("unknown unit %r" % (unit,))


def self_check_determinism():
    """DESIGN 2.1: one recorded execution twice, bit-identical observations, else the check is broken"""
    case = {"part": "E", "N": 48, "kind": "occ[1,-1]_flat", "normalize": True, "shift": 5, "root": 7,
            "L": 3, "K": 2, "rx": 2, "interf": [[1, 4, "same"], [0, 4, "other"]], "fam": 11,
            "off_h": common.seed_offset(TAG_H), "off_i": common.seed_offset(TAG_I)}
    outs = []
    for _ in range(2):
        c = Check(PID, LEVEL, ENGINE, RULE, child=True)
        e = None
        with guard(c, ("cazac_estimator", "occ"), case):     # a crash here is the library's, reported by part E
            e = eval_est(c, case, SeqCache())
        outs.append((None if e is None else e.tobytes(), sorted(c.violations)))
    if outs[0] != outs[1]:
        raise Broken("estimator execution is not deterministic")


def main(chk: Check):
    chk.assume("num_taps_to_keep = K keeps the delay taps 0..K (K+1 taps), as the implementation does; "
               "'delay spread fits in the kept taps' means #taps <= K+1")
    chk.assume("interferers' responses 'fit their shift window': #taps <= N/D and K+1 <= N/D, D = 8 (SRS) / 12 (DMRS), D | N")
    chk.assume("invalid calls (shift out of range, size not allowed, wrong-shape observation, singular pilots) are outside the "
               "property: what they do is recorded as an outcome only; required is that later VALID calls on the live objects "
               "stay bit-identical to lone fresh objects (signature after_invalid_call|what|relation)")
    chk.assume("sizes 12 and 24 are QPSK table sequences, not Zadoff-Chu: only amplitude/length/shift relations apply; "
               "the prime selection for 12 and 24 is checked on the selection function only")
    chk.assume("comb pattern: pilot k sits on subcarrier multiplier*k (offset 0); channel static over both cover-code slots")
    chk.assume("least squares: pilot matrices with cond(s) <= %g (normal equations square the condition number)" % LS_COND_BOUND)
    chk.extra["tolerances"] = {"C_AMP": C_AMP, "C_ZC (kappa=pi*u*(Nzc+1))": C_ZC, "C_SHIFT (kappa=2*pi*N)": C_SHIFT,
                               "C_EST (kappa=2*pi*N*(1+#interferers))": C_EST, "C_LS (kappa=cond(s)^2)": C_LS,
                               "LS_COND_BOUND": LS_COND_BOUND}
    chk.extra["seed_chosen_root_example_nzc139"] = seed_root(139)
    _watch_list()              # fix the list of watched module data before any library call
    self_check_determinism()
    part_prime(chk)
    units = all_units(chk.tier)
    chk.extra["work_units"] = len(units)

    def worker(i, n, c):
        tools, cache = ZcTools(), SeqCache()
        try:
            for unit in shard(units, i, n):
                run_unit(c, unit, tools, cache)
        except Broken as e:
            c.extra["broken_in_worker"] = "shard %d: %s" % (i, e)

    run_shards(chk, worker)
    if "broken_in_worker" in chk.extra:
        raise Broken(chk.extra["broken_in_worker"])
    if chk.tier != "thorough":
        chk.assume("quick tier: Z on sizes that are multiples of 12; E on lengths {24,25,31,36,40,48,50,64,72,96,144} with the "
                   "seed-chosen root (24: root 0; 25: also roots 1 and Nzc-1), receive forms 1-D, 1, 2 antennas (1-D and 2 for "
                   "N >= 96; 3 antennas in the layout contexts), multiplier 3 and raw DMRS array for N <= 64; N = 1200 in one "
                   "comb configuration; X on a subset of base lengths; R every root for base lengths <= 200 and every 16th "
                   "root above; L small-entry pilots with <= 6 entries; histories up to 3 events")
    chk.sample({"part": "P", "size": 1013})
    chk.sample({"part": "Z", "size": 144, "root": 1})
    chk.sample({"part": "E", "N": 48, "kind": "srs_comb", "normalize": False, "shift": 3, "root": 7, "L": 6, "K": 5,
                "rx": 2, "interf": [[1, 6, "same"], [7, 5, "same"]]})
    chk.require_outcomes("expected_nzc", 150)
    chk.require_outcomes("object_nzc", 50)
    chk.require_outcomes("sequence_kind", 3)
    chk.require_outcomes("extension_branch", 3)
    chk.require_outcomes("estimator_form", 80)
    chk.require_outcomes("kept_vs_taps", 4)
    chk.require_outcomes("ls_form", 30)
    chk.require_outcomes("shift_family", 6)
    chk.require_outcomes("estimator_context", 40)
    chk.require_outcomes("ls_context", 30)
    chk.require_outcomes("history_event", 10)
    chk.require_outcomes("invalid_call", 12)
    chk.require_outcomes("root_pool_event", 16)
    chk.require_outcomes("estimator_pool_action", 30)
    chk.require_outcomes("largest_size", 1)
    chk.require_outcomes("typed_arguments", 12)
    chk.require_outcomes("estimator_history_event", 12)


def replay(case, chk: Check):
    part = case.get("part")
    _watch_list()
    tools, cache = ZcTools(), SeqCache()
    if part == "P":
        c = {"part": "P", "size": case["size"]}
        with guard(chk, ("prime_selection",), c):
            eval_prime(chk, c)
    elif part == "Z":
        c = {k: case[k] for k in ("part", "size", "root")}
        if case["size"] <= 24:
            with guard(chk, ("table_root",), c):
                eval_table(chk, c)
        else:
            with guard(chk, ("zc_root",), c):
                eval_zc(chk, c, tools)
    elif part == "R":
        c = {k: case[k] for k in ("part", "nzc", "root", "direct")}
        with guard(chk, ("zc_root",), c):
            eval_allroots(chk, c, tools)
    elif part == "X":
        if case.get("raw"):
            c = {k: case[k] for k in ("part", "raw", "n", "size")}
            with guard(chk, ("cyclic_extension",), c):
                eval_ext_raw(chk, c)
        else:
            c = {k: case[k] for k in ("part", "nzc", "root", "size")}
            with guard(chk, ("cyclic_extension",), c):
                eval_ext(chk, c)
    elif part == "S":
        c = {k: case[k] for k in ("part", "kind", "size", "root", "normalize")}
        with guard(chk, ("user_sequence", c["kind"]), c):
            eval_shift(chk, c)
    elif part == "E":
        c = dict(case)
        c["interf"] = [list(t) for t in case["interf"]]
        variant = kind_info(c["kind"])[5]
        c.pop("step", None)
        pre = ("cazac_estimator", variant) + ((c["layout"],) if c.get("layout", "c") != "c" else ())
        with guard(chk, pre, c):
            eval_est(chk, c, cache)
    elif part == "unit":
        run_unit(chk, _as_tuple(case["unit"]), tools, cache)
    elif part == "T":
        c = dict(case)
        with guard(chk, ("typed_arguments", c["tv"]), c):
            eval_typed(chk, c)
    elif part == "HR":
        c = {"part": "HR", "history": list(case["history"])}
        with guard(chk, ("root_pool_history",), c):
            eval_root_pool(chk, c)
    elif part == "HP":
        c = {k: case[k] for k in ("part", "history", "off_h", "off_i")}
        with guard(chk, ("cazac_estimator", "pool"), c):
            eval_est_pool(chk, c, cache)
    elif part == "LE":
        c = {k: case[k] for k in ("part", "Nt", "Np", "form", "which", "off_s", "off_h")}
        with guard(chk, ("after_invalid_call", "ls_estimation", c["form"]), c):
            eval_ls_error(chk, c)
    elif part == "HS":
        c = {k: case[k] for k in ("part", "N", "root", "history")}
        with guard(chk, ("shared_root_history",), c):
            eval_seq_history(chk, c)
    elif part == "HE":
        c = {k: case[k] for k in ("part", "N", "kind", "normalize", "shift", "root", "history", "off_h", "off_i")}
        with guard(chk, ("cazac_estimator", kind_info(c["kind"])[5], "history"), c):
            eval_est_history(chk, c, cache)
    elif part == "L":
        c = dict(case)
        pre = ("ls_estimation", c["form"]) + ((c["layout"],) if c.get("layout", "c") != "c" else ())
        with guard(chk, pre, c):
            eval_ls(chk, c)
    else:
        raise Broken("unknown replay case %r" % (case,))
