"""C11 - reported SINRs equal first-principles signal / (interference + noise).

Engine E1: the complete product of a stated finite alphabet

  channel class   MultiUserChannelMatrix | MultiUserChannelMatrixExtInt (NtE = 1, [1,1], ...)
  layout          (Nr, Nt) per user, K in {2,3} (thorough: also K=4 and larger antennas)
  streams         every Ns tuple in {1,2}^K
  path loss       unset | generic positive K x K (and K x Ke for the external sources)
  noise           None | 0 | 0.1 | 2
  pe              default | 0.5 | 4   (external interference power, ExtInt only)
  variant         interference channel (IC) | joint processing (JP)
  member          index s of the generic family (vmc/families.py); the seed only rotates phases

is executed on the real implementation.  Channels are built with
init_from_channel_matrix, precoders / receive filters are arbitrary (not
aligned) members of the same family.  The same product is run through IA solver
objects (set_precoders / set_receive_filters; F+P None, F+unequal P, full_F; W or
W_H; several solver classes) bound to the plain channel and to the ExtInt channel
(where the only power the solver API can mean is the library default pe = 1).

Oracle (never a covariance helper of the library): explicit nested Python loops
over scalars built from the RAW channel matrix, the path-loss matrix, the
precoder / filter columns:

    SINR_kl = |u^H H_kk f_kl|^2 /
              ( sum_{(j,d)!=(k,l)} |u^H H_kj f_jd|^2 + pe * sum_e |u^H h_k,e|^2 + sigma^2 |u|^2 )

Relations checked on every case: library value == oracle; shape / finite / >= 0;
invariance under per-column rescaling of the receive filters by {2, -0.5j, 1e-3};
list container == object-array container; calc_Q / calc_JP_Q / per-stream B_kl /
external-interference covariances == explicit entry-wise sums, Hermitian, PSD;
solver == oracle with an independently derived full filter inv(W^H H_kk F) W^H;
solver == channel object fed the solver's own full_F / full_W; dB = 10 log10;
sum capacity = sum log2(1 + SINR); calc_shannon_sum_capacity.

Part 1b (numeric scale): SINR is a ratio, so every relation is exactly scale covariant.  On a
reduced configuration set every relation above is repeated with receive filters x 1e-10 / 1e8
(also per user 1e-10, 1, 1e8), precoders x 1e-10 / 1e8 (solver powers x 1e-20 / 1e16), channel
matrix x 1e-9 / 1e6, path loss x 1e-16 on every link and 1e-12..1e-17 per link, everything small /
everything big, noise None | 0 | 1e-13 | 1e-20, pe default | 1e-12; the rescale-invariance relation
uses the factors {2, -0.5j, 1e-3, 1e-10, 1e8}.  All tolerances are relative to the operands
(kappa = (signal + denominator) / denominator); there is no absolute floor.

Part 1c (sum capacity at scale): calc_sum_capacity and calc_shannon_sum_capacity must be finite
and equal to the sum of log2(1 + SINR) of the oracle's own SINRs where the true capacity exceeds
1100 bits (K = 40 users x 3 streams at ordinary SINR; K = 12 isolated links at noise 1e-30 / 1e-300)
and where 1 + SINR rounds to 1 (the 120 streams at noise 1e6 / 1e20).

Part L (layout histories): one channel object (plain and ExtInt), every sequence up to depth 3 of
{set_pathloss P1|P2, init_from_channel_matrix / randomize into ANOTHER layout with the same total
antennas (same K other split; other K same totals), touch IC|JP}; after every sequence all
channel-object relations (IC and JP SINR, Q, B_kl, external-interference covariances) against the
oracle built from the check's own copy of the unscaled matrix x sqrt(path loss) per block.

Part H (object reuse, engine E3): for every (class, layout, Ns, member) of hist_configs() a
breadth-first exploration of every event history up to the depth bound over ONE channel object
and ONE solver bound to it.  Events: set_pathloss(None | P1(,E1) | P2(,E2)), noise_var = None | 0 |
0.1 | 2, init_from_channel_matrix(other family member, same layout), set_pathloss(-160 dB), noise 1e-13 | 1e-20,
set_receive_filters(W = b * 1e-10), randomize (the library's
random draw is scripted through the seam multiuser.randn_c_RS), set_precoders(F=a|b, full_F=b),
set_receive_filters(W=a | W_H=b), P = None | unequal vector, and "touch" IC | JP | solver (evaluate
the library so that its lazily filled caches are warm).  In EVERY reached state all
state-dependent relations above (SINR IC and JP, Q, B_kl, external-interference covariances,
solver SINR / dB / sum capacity / Q / B_kl, solver vs channel object) are evaluated against the
oracle computed from the reference model of the history (current path loss, noise, channel
member, precoders, filters, powers).  States are merged only if the real objects agree
attribute for attribute, caches included.  A history violation is reported once, for the shortest failing
prefix, with signature (hist, plain|extint, wrong_after_<last event of that prefix>, <most
primitive failing relation>).
"""
import contextlib
import itertools
import math
import os

import numpy as np

from vmc import bfs
from vmc import common, families
from vmc.numerics import EPS
from vmc.parallel import run_shards, shard
from vmc.report import Broken, Check

PID = "C11"
LEVEL = "exploration"
ENGINE = ("E1 exhaustive product of a finite configuration alphabet x generic matrix family + "
          "E3 BFS over event histories of one reused channel object and bound solver")
RULE = ("every (channel class, NtE, antenna layout, Ns tuple in {1,2}^K, path loss unset|generic, "
        "noise None|0|0.1|2, pe default|0.5|4, IC|JP, generic family member s) through calc_SINR / "
        "calc_JP_SINR / calc_Q / calc_JP_Q / B_kl helpers of the channel object, and x (solver class, "
        "F+P None | F+unequal P | full_F, W | W_H; solver bound to the plain and to the ExtInt "
        "channel) through the IA solver's "
        "calc_SINR / calc_SINR_in_dB / calc_sum_capacity / calc_Q; oracle = scalar nested-loop "
        "|u^H H f|^2 sums from the raw channel matrix, path loss, precoder and filter columns. "
        "A case is non-trivial when every stream has non-zero desired power and a non-zero "
        "denominator; Part H: BFS over every history (<= depth) of {set_pathloss None|P1|P2, "
        "noise_var, init_from_channel_matrix(other member), randomize(scripted), set_precoders, "
        "set_receive_filters, P=, touch IC|JP|solver} on ONE channel object + bound solver, all "
        "relations checked in every state against the oracle of the current model state; distinct = distinct "
        "configuration tuple (incl. family member)")

# tolerance: |lib - ref| <= C_TOL * 2^-52 * kappa * max(|lib|,|ref|); kappa = 1 + SINR_ref is the
# cancellation factor of "total covariance minus own-stream covariance" (x cond(W^H H F) where the
# solver's solve() is involved).  Defects move the values by >= 1e-3 relative.
C_TOL = 2000.0
KAPPA_MAX = 1e7         # cases whose cancellation/condition factor exceeds this are excluded + counted
FACTORS = (2.0, -0.5j, 1e-3, 1e-10, 1e8)
RESCALE_ROUNDS_QUICK = 2   # round r multiplies column l of user k by FACTORS[(l+k+3r) % 5]: two rounds
#                            give a tiny (1e-10) and a huge (1e8) factor to columns of every case
#                            (even K=2, one stream each); thorough: all 5 rounds

# scale families (SINR is a ratio: every relation is exactly scale covariant, every tolerance is
# relative to the operands - there is no absolute floor anywhere in this check)
PE_BOUNDARY = (0, 0.0, 1e-30, 0.5, 1e6)
NOISE_BOUNDARY = (None, 0, 0.1, 1e-13)
SCALES = [
    ("U*1e-10", dict(U=1e-10)), ("U*1e8", dict(U=1e8)),
    ("F*1e-10,P*1e-20", dict(F=1e-10, P=1e-20)), ("F*1e8,P*1e16", dict(F=1e8, P=1e16)),
    ("H*1e-9", dict(H=1e-9)), ("H*1e6", dict(H=1e6)),
    ("PL*1e-16", dict(PL="uniform")), ("PL*1e-12..1e-17", dict(PL="hetero")),
    ("all_small", dict(H=1e-9, F=1e-10, U=1e-10, P=1e-20)),
    ("all_big", dict(H=1e6, F=1e8, U=1e8, P=1e16)),
    ("U_per_user", dict(Umix=(1e-10, 1.0, 1e8, 1e-3))),
    # falsy-but-valid values (unit scale)
    ("PL_zero_cross_link", dict(PL="zero_cross")),      # path loss exactly 0 from Tx 1 to Rx 0
    ("F_zero_column", dict(Fzero=True)),                # a stream with zero power -> SINR 0
    # boundary values of the option pe (0 as int and float, tiny, ordinary, large) x ordinary and
    # boundary noise variances x every entry point (IC and JP; Q, B_kl, covariances ride along)
    ("pe_boundary", dict(pes=PE_BOUNDARY, noises=NOISE_BOUNDARY)),
]
SCALE_NOISES = [None, 0, 0.0, 1e-13, 1e-20]
SCALE_PES = [None, 1e-12]
SOLVE_SAFETY = 8.0      # relations through the solver's solve(W^H H F, W^H): kappa = 8 cond(W^H H F) (1+SINR)

LAYOUTS_QUICK = [([2, 2], [2, 2]), ([2, 3], [3, 2]), ([2, 2, 3], [2, 3, 2])]
LAYOUTS_THOROUGH = LAYOUTS_QUICK + [([3, 3, 3], [3, 3, 3]), ([4, 2], [2, 4]),
                                    ([3, 2, 4], [4, 3, 2]), ([2, 2, 2, 2], [2, 2, 2, 2])]
NOISES = [None, 0, 0.1, 2.0]
PES = [None, 0.5, 4.0]                 # None = argument omitted (library default 1.0)
NTE_QUICK = [1, [1, 1]]
NTE_THOROUGH = [1, [1, 1], 2, [2, 1]]
SOLVERS_QUICK = ["IASolverBaseClass", "MaxSinrIASolver"]
SOLVERS_THOROUGH = ["IASolverBaseClass", "ClosedFormIASolver", "MaxSinrIASolver", "MMSEIASolver"]
FMODES = ["F_P1", "F_Pvec", "fullF"]
# further legal argument combinations of set_precoders (python lists as containers); "backoff":
# an explicit full_F = b_k sqrt(P_k) F_k with b_k != 1 next to F (and P)
FMODES_EXTRA = ["fullF_P", "F_fullF_backoff", "F_fullF_P_backoff", "F_Pint"]
P_INT = [1, 3, 2, 5]        # powers as integers (array of ints / python int scalar)
WMODES = ["W", "W_H"]


# ----------------------------------------------------------------------
# enumeration
# ----------------------------------------------------------------------
def _offs():
    return [common.seed_offset(111), common.seed_offset(112)]


def all_cases(tier):
    thorough = tier == "thorough"
    layouts = LAYOUTS_THOROUGH if thorough else LAYOUTS_QUICK
    members = range(4) if thorough else range(2)
    ntes = NTE_THOROUGH if thorough else NTE_QUICK
    pes = PES + ([0.0] if thorough else [])
    solvers = SOLVERS_THOROUGH if thorough else SOLVERS_QUICK
    offs = _offs()
    # simplest first: plain before ext-int, small K first, Ns=1 first, no path loss / noise first
    for Nr, Nt in layouts:
        K = len(Nr)
        ns_tuples = sorted(itertools.product((1, 2), repeat=K), key=lambda t: (sum(t), t))
        for Ns in ns_tuples:
            for pl in (0, 1):
                for noise in NOISES:
                    for s in members:
                        base = dict(Nr=list(Nr), Nt=list(Nt), Ns=list(Ns), pl=pl, noise=noise,
                                    s=s, offs=offs)
                        for var in ("IC", "JP"):
                            yield dict(base, kind="chan", chan="plain", NtE=None, pe=None, var=var,
                                       int_layout=False)
                        if len(set(Nr)) == 1 and len(set(Nt)) == 1:
                            # Nr / Nt given as plain ints (documented for the plain class)
                            yield dict(base, kind="chan", chan="plain", NtE=None, pe=None, var="IC",
                                       int_layout=True)
                        for NtE in ntes:
                            for pe in pes:
                                for var in ("IC", "JP"):
                                    yield dict(base, kind="chan", chan="ext", NtE=NtE, pe=pe,
                                               var=var, int_layout=False)
                        for ci, cls in enumerate(solvers):
                            for fi, fmode in enumerate(FMODES):
                                for wi, wmode in enumerate(WMODES):
                                    # quick: the further solver classes (they inherit every SINR
                                    # method) get one filter form per precoder mode
                                    if not thorough and ci > 0 and wi != fi % 2:
                                        continue
                                    yield dict(base, kind="solver", chan="plain", NtE=None, pe=None,
                                               cls=cls, fmode=fmode, wmode=wmode)
                        for i_, fmode in enumerate(FMODES_EXTRA):
                            yield dict(base, kind="solver", chan="plain", NtE=None, pe=None,
                                       cls=solvers[0], fmode=fmode, wmode=WMODES[i_ % 2])
                            yield dict(base, kind="solver", chan="ext", NtE=ntes[0], pe=None,
                                       cls=solvers[0], fmode=fmode, wmode=WMODES[(i_ + 1) % 2])
                        # the solver bound to the external-interference channel (its API has no pe
                        # argument: the library default pe = 1 is the only power it can mean)
                        for ni, NtE in enumerate(ntes):
                            for fi, fmode in enumerate(FMODES):
                                for wi, wmode in enumerate(WMODES):
                                    if not thorough and ni > 0 and wi != (fi + 1) % 2:
                                        continue    # quick: further NtE get one filter form each
                                    yield dict(base, kind="solver", chan="ext", NtE=NtE, pe=None,
                                               cls=solvers[0], fmode=fmode, wmode=wmode)


def scale_cases(tier):
    """Part 1b: numeric-scale families on a reduced configuration set (scale covariance)"""
    thorough = tier == "thorough"
    offs = _offs()
    configs = [([2, 2], [2, 2], [2, 1]), ([2, 2, 3], [2, 3, 2], [1, 2, 1])]
    if thorough:
        configs += [([2, 2], [2, 2], [1, 1]), ([2, 3], [3, 2], [2, 2]), ([3, 3, 3], [3, 3, 3], [2, 1, 2])]
    for Nr, Nt, Ns in configs:
        for s in (range(3) if thorough else range(1)):
            for name, sc in SCALES:
                for noise in sc.get("noises", SCALE_NOISES):
                    base = dict(Nr=list(Nr), Nt=list(Nt), Ns=list(Ns), pl=1 if "PL" in sc else 0,
                                noise=noise, s=s, offs=offs, scale=name)
                    for var in ("IC", "JP"):
                        if "pes" not in sc:
                            yield dict(base, kind="chan", chan="plain", NtE=None, pe=None,
                                       var=var, int_layout=False)
                        for NtE in (1, [1, 1]):
                            for pe in sc.get("pes", SCALE_PES):
                                yield dict(base, kind="chan", chan="ext", NtE=NtE, pe=pe, var=var,
                                           int_layout=False)
                    if "Fzero" in sc or "pes" in sc:
                        continue        # (W^H H F is singular with a silent stream; no pe argument)
                    for fmode in FMODES:
                        wmode = WMODES[(FMODES.index(fmode) + len(name)) % 2]
                        yield dict(base, kind="solver", chan="plain", NtE=None, pe=None,
                                   cls="IASolverBaseClass", fmode=fmode, wmode=wmode)
                        yield dict(base, kind="solver", chan="ext", NtE=1, pe=None,
                                   cls="IASolverBaseClass", fmode=fmode, wmode=wmode)


# ----------------------------------------------------------------------
# deterministic inputs
# ----------------------------------------------------------------------
def gen(case, tag, idx, shape):
    """generic complex member; two members with different seed offsets are superposed so that the
    seed changes relative phases (a global phase alone would leave every |u^H H f|^2 unchanged)"""
    o1, o2 = case["offs"]
    s = int(case["s"]) * 64 + idx
    return (families.generic(s, shape, True, offset=o1, tag=tag) +
            0.6 * families.generic(s + 32, shape, True, offset=o2, tag=tag + 40))


def nte_list(case):
    NtE = case["NtE"]
    if NtE is None:
        return []
    return [int(NtE)] if isinstance(NtE, (int, np.integer)) else [int(v) for v in NtE]


def make_inputs(case):
    Nr, Nt, Ns = case["Nr"], case["Nt"], case["Ns"]
    K = len(Nr)
    ntE = nte_list(case)
    Hraw = gen(case, 21, 0, (sum(Nr), sum(Nt) + sum(ntE)))
    PL = None
    if case["pl"] and not case.get("scale"):
        g = gen(case, 24, 1, (K, K + len(ntE)))
        PL = 0.02 + 1.3 * (np.abs(g) - 0.1) ** 2          # positive, spans about two decades
    F = [gen(case, 22, 2 + k, (Nt[k], Ns[k])) for k in range(K)]
    Fjp = [gen(case, 25, 8 + k, (sum(Nt), Ns[k])) for k in range(K)]
    U = [gen(case, 23, 14 + k, (Nr[k], Ns[k])) for k in range(K)]
    sc = dict(SCALES)[case["scale"]] if case.get("scale") else {}
    if "H" in sc:
        Hraw = Hraw * sc["H"]
    if "F" in sc:
        F = [M * sc["F"] for M in F]
        Fjp = [M * sc["F"] for M in Fjp]
    if "U" in sc:
        U = [M * sc["U"] for M in U]
    if "Fzero" in sc:
        # last stream of the first user with two streams (else the whole first user) is silent
        kz = next((k for k in range(K) if Ns[k] > 1), 0)
        F[kz] = np.array(F[kz], copy=True)
        F[kz][:, -1] = 0.0
        Fjp[kz] = np.array(Fjp[kz], copy=True)
        Fjp[kz][:, -1] = 0.0
    if "Umix" in sc:
        U = [U[k] * sc["Umix"][k % len(sc["Umix"])] for k in range(K)]
    if "PL" in sc:
        g = gen(case, 24, 1, (K, K + len(ntE)))
        PL = 0.02 + 1.3 * (np.abs(g) - 0.1) ** 2
        if sc["PL"] == "uniform":
            PL = PL * 1e-16                                 # about -160 dB on every link
        elif sc["PL"] == "zero_cross":
            PL[0, 1] = 0.0
        else:
            ex = np.array([[12 + (3 * i + 5 * j) % 6 for j in range(PL.shape[1])]
                           for i in range(PL.shape[0])], dtype=float)
            PL = PL * 10.0 ** (-ex)                         # 1e-12 .. 1e-17, different per link
    return dict(K=K, ntE=ntE, Hraw=Hraw, PL=PL, F=F, Fjp=Fjp, U=U, Pscale=sc.get("P", 1.0))


def objarr(mats):
    a = np.empty(len(mats), dtype=object)
    for i, m in enumerate(mats):
        a[i] = m
    return a


def build_channel(case, inp):
    from pyphysim.channels import multiuser
    Nr, Nt = case["Nr"], case["Nt"]
    K = inp["K"]
    H = np.array(inp["Hraw"], copy=True)
    if case["chan"] == "plain":
        ch = multiuser.MultiUserChannelMatrix()
        if case.get("int_layout"):
            ch.init_from_channel_matrix(H, int(Nr[0]), int(Nt[0]), K)
        else:
            ch.init_from_channel_matrix(H, np.array(Nr), np.array(Nt), K)
        if inp["PL"] is not None:
            ch.set_pathloss(np.array(inp["PL"], copy=True))
    else:
        ch = multiuser.MultiUserChannelMatrixExtInt()
        NtE = case["NtE"]
        NtE_arg = int(NtE) if isinstance(NtE, (int, np.integer)) else [int(v) for v in NtE]
        ch.init_from_channel_matrix(H, np.array(Nr), np.array(Nt), K, NtE_arg)
        if inp["PL"] is not None:
            ch.set_pathloss(np.array(inp["PL"][:, :K], copy=True),
                            np.array(inp["PL"][:, K:], copy=True))
    if case["noise"] is not None:
        ch.noise_var = case["noise"]
    return ch


# ----------------------------------------------------------------------
# oracle: scalar sums, explicit loops, raw matrices only
# ----------------------------------------------------------------------
class Ref:
    """first-principles model of one configuration"""

    def __init__(self, Nr, Nt, ntE, Hraw, PL, sigma2, pe):
        self.Nr, self.Nt, self.ntE = list(Nr), list(Nt), list(ntE)
        self.K = len(Nr)
        self.sigma2 = 0.0 if sigma2 is None else float(sigma2)
        self.pe = float(pe)
        nt_all = self.Nt + self.ntE
        rx_of_row = [k for k, n in enumerate(self.Nr) for _ in range(n)]
        tx_of_col = [j for j, n in enumerate(nt_all) for _ in range(n)]
        self.h = []
        for r in range(sum(self.Nr)):
            row = []
            for c in range(sum(nt_all)):
                v = complex(Hraw[r, c])
                if PL is not None:
                    v = v * math.sqrt(float(PL[rx_of_row[r], tx_of_col[c]]))
                row.append(v)
            self.h.append(row)
        self.roff = [sum(self.Nr[:k]) for k in range(self.K)]
        self.coff = [sum(self.Nt[:j]) for j in range(self.K)]
        self.n_user_cols = sum(self.Nt)
        self.ext_cols = list(range(self.n_user_cols, sum(nt_all)))

    def streams(self, F, jp):
        """list of (user j, stream d, global column indices, weights)"""
        out = []
        for j in range(self.K):
            Fj = np.asarray(F[j])
            for d in range(Fj.shape[1]):
                if jp:
                    cols = list(range(self.n_user_cols))
                else:
                    cols = list(range(self.coff[j], self.coff[j] + self.Nt[j]))
                assert Fj.shape[0] == len(cols)
                out.append((j, d, cols, [complex(Fj[i, d]) for i in range(len(cols))]))
        return out

    def rx(self, k, stream):
        """vector received at user k's antennas from one stream"""
        _, _, cols, w = stream
        g = []
        for a in range(self.Nr[k]):
            acc = 0j
            hrow = self.h[self.roff[k] + a]
            for i, c in enumerate(cols):
                acc += hrow[c] * w[i]
            g.append(acc)
        return g

    @staticmethod
    def filt(u, g):
        acc = 0j
        for a in range(len(g)):
            acc += u[a].conjugate() * g[a]
        return acc

    def sinr(self, F, U, jp):
        """-> sinr[k][l], parts[k][l] = (signal, own_streams, other_users, ext, noise)"""
        st = self.streams(F, jp)
        sinr, parts = [], []
        for k in range(self.K):
            Uk = np.asarray(U[k])
            gk = [self.rx(k, s_) for s_ in st]
            row, prow = [], []
            nstreams_k = sum(1 for s_ in st if s_[0] == k)
            assert Uk.shape == (self.Nr[k], nstreams_k)
            for l in range(nstreams_k):
                u = [complex(Uk[a, l]) for a in range(self.Nr[k])]
                sig = own = oth = 0.0
                for s_, g in zip(st, gk):
                    p = abs(self.filt(u, g)) ** 2
                    if s_[0] == k and s_[1] == l:
                        sig += p
                    elif s_[0] == k:
                        own += p
                    else:
                        oth += p
                ext = 0.0
                for c in self.ext_cols:
                    acc = 0j
                    for a in range(self.Nr[k]):
                        acc += u[a].conjugate() * self.h[self.roff[k] + a][c]
                    ext += self.pe * abs(acc) ** 2
                nu = 0.0
                for a in range(self.Nr[k]):
                    nu += abs(u[a]) ** 2
                noise = self.sigma2 * nu
                den = own + oth + ext + noise
                row.append(sig / den if den > 0 else math.inf)
                prow.append((sig, own, oth, ext, noise))
            sinr.append(row)
            parts.append(prow)
        return sinr, parts

    def cov(self, k, F, jp, skip, with_ext=True, with_noise=True, only=None):
        """sum over streams s with not skip(s) (or only(s)) of g g^H (+ ext + noise), entry-wise"""
        n = self.Nr[k]
        Q = [[0j] * n for _ in range(n)]
        for s_ in self.streams(F, jp):
            if only is not None:
                if not only(s_):
                    continue
            elif skip(s_):
                continue
            g = self.rx(k, s_)
            for a in range(n):
                for b in range(n):
                    Q[a][b] += g[a] * g[b].conjugate()
        if with_ext:
            for c in self.ext_cols:
                for a in range(n):
                    for b in range(n):
                        Q[a][b] += self.pe * self.h[self.roff[k] + a][c] * \
                            self.h[self.roff[k] + b][c].conjugate()
        if with_noise:
            for a in range(n):
                Q[a][a] += self.sigma2
        return np.array(Q, dtype=complex)


# ----------------------------------------------------------------------
# comparison helpers
# ----------------------------------------------------------------------
def noise_class(case):
    n = case["noise"]
    return "noise_pos" if (n is not None and n > 0) else "noiseless"


def stream_class(ns_k):
    return "multi_stream" if ns_k > 1 else "single_stream"


def view_of(case):
    if case["kind"] == "solver":
        return "solver"
    return ("chan_plain" if case["chan"] == "plain" else "chan_extint") + "_" + case["var"]


def kappa_of(parts_kl):
    sig, own, oth, ext, noise = parts_kl
    den = own + oth + ext + noise
    return (sig + den) / den if den > 0 else math.inf


def sinr_close(lib, ref, kappa, c=C_TOL):
    if not (math.isfinite(lib) and math.isfinite(ref)):
        return False, math.inf
    e = abs(lib - ref)
    s = max(abs(lib), abs(ref), 1e-300)
    ne = e / (EPS * kappa * s)
    return ne <= c, ne


def zero_denominator(parts):
    """a stream without any interference, external interference or noise has no defined SINR; and
    when the denominator is below 2^-52 x 100 of the total received power the library's "total
    covariance minus own-stream covariance" cancels to (possibly exactly) zero - SINR > 1e14 is
    beyond what double precision can report with this algorithm.  Both are excluded and counted."""
    return any(sum(p_[1:]) == 0 or kappa_of(p_) > 1e14 for row in parts for p_ in row)


def decade(x):
    if x <= 0:
        return -99
    if not math.isfinite(x):
        return 999
    return int(math.floor(math.log10(x)))


def check_shape(chk, view, rel, case, got, Ns):
    """SINR container: K entries, entry k = 1-D float array of length Ns[k], finite, >= 0"""
    ok = True
    try:
        if len(got) != len(Ns):
            ok = False
        else:
            for k, n in enumerate(Ns):
                a = np.asarray(got[k], dtype=float)      # values: any real numeric container
                if a.shape != (n,):
                    ok = False
    except (TypeError, ValueError):
        ok = False
    if not ok:
        chk.fail((view, rel, "shape"), case, observed=repr(got)[:200],
                 expected="K arrays of Ns[k] floats")
        return False
    for k, n in enumerate(Ns):
        a = np.asarray(got[k], dtype=float)
        if not np.all(np.isfinite(a)) or np.any(a < 0):
            chk.fail((view, rel, "nonneg_finite"), case, observed=a, expected="finite and >= 0")
            return False
    return True


def sinr_matches(case, got, ref, parts, extra_kappa=None):
    """silent version of compare_sinr: True iff every (non-excluded) stream agrees"""
    Ns = case["Ns"]
    for k in range(len(Ns)):
        for l in range(Ns[k]):
            kap = kappa_of(parts[k][l]) * (extra_kappa[k] if extra_kappa is not None else 1.0)
            if not kap < KAPPA_MAX:
                continue
            if not sinr_close(float(got[k][l]), float(ref[k][l]), kap)[0]:
                return False
    return True


MISSING = object()


def _private(obj, *names, default=MISSING):
    """a private helper of the library, by any of its known names; MISSING when the implementation
    does not have it (a rename / refactoring of private code is not a violation: the relation that
    needs it is skipped and counted, the same content is judged through the public entry points)"""
    for n in names:
        v = getattr(obj, n, MISSING)
        if v is not MISSING:
            return v
    return default


def _call_private(chk, what, helper, *args):
    """call a private helper; a changed private signature makes the relation unavailable"""
    try:
        return helper(*args)
    except TypeError as e:
        if e.__traceback__ is not None and e.__traceback__.tb_next is None:   # raised by the call itself
            chk.outcome("oracle_input_unavailable", what + ("signature",))
            return MISSING
        raise


def _raised_in_check(exc):
    """True when the innermost frame that belongs either to the implementation or to /verif is
    code of /verif: the check's own code failed (an attribute it assumed, an assertion of the
    oracle), which says nothing about the property"""
    import traceback
    for fr in reversed(traceback.extract_tb(exc.__traceback__)):
        fn = os.path.abspath(fr.filename)
        if fn.startswith(common.REPO + os.sep) or "/pyphysim/" in fn:
            return False
        if fn.startswith(common.VERIF_DIR + os.sep):
            return True
    return False


@contextlib.contextmanager
def guard(chk, sig_prefix, case):
    """chk.guard, except that an exception raised by the check's own code ends the run as BROKEN
    (exit 2) instead of being reported with a property signature; exceptions raised inside
    pyphysim for valid calls remain violations"""
    with chk.guard(sig_prefix, case):
        try:
            yield
        except (KeyboardInterrupt, SystemExit, Broken):
            raise
        except BaseException as e:      # noqa
            if _raised_in_check(e):
                import traceback
                raise Broken("the check's own code raised %s: %s at %s (case %r)" % (
                    type(e).__name__, e,
                    "; ".join("%s:%d" % (os.path.basename(f.filename), f.lineno)
                              for f in traceback.extract_tb(e.__traceback__)[-3:]),
                    {k: case[k] for k in list(case)[:8]} if isinstance(case, dict) else case)) from e
            raise


def pl_factor(Nr, Nt_all, PL):
    """sqrt(path loss) expanded to the big matrix by the check's own loops (ones if PL is None)"""
    rx = [k for k, n in enumerate(Nr) for _ in range(n)]
    tx = [j for j, n in enumerate(Nt_all) for _ in range(n)]
    out = np.ones((len(rx), len(tx)))
    if PL is not None:
        for r in range(len(rx)):
            for c in range(len(tx)):
                out[r, c] = math.sqrt(float(PL[rx[r], tx[c]]))
    return out


def noise_presentations(value):
    """other presentations of the same scalar: (name, object)"""
    out = []
    if float(np.float32(value)) == float(value):
        out.append(("np.float32", np.float32(value)))
    if float(value) == int(value):
        out += [("int", int(value)), ("np.int64", np.int64(value))]
    else:
        out.append(("np.float64", np.float64(value)))
    if isinstance(value, int):
        out.append(("float", float(value)))
    return out


def compare_sinr(chk, view, rel, case, got, ref, parts, extra_kappa=None, record=True,
                 den_scale=None, tag=None):
    """got / ref: [k][l]; returns number of compared streams.  den_scale[k][l]: factor by which the
    denominator of `parts` is multiplied in the evaluated call (rescaled filters); it only serves
    to NAME a violation (coarse condition of the signature), never to decide it"""
    Ns = case["Ns"]
    n = 0
    for k in range(len(Ns)):
        for l in range(Ns[k]):
            kap = kappa_of(parts[k][l])
            if extra_kappa is not None:
                kap = kap * extra_kappa[k]
            if not kap < KAPPA_MAX:
                chk.count("excluded_kappa_" + rel)
                continue
            ok, ne = sinr_close(float(got[k][l]), float(ref[k][l]), kap)
            n += 1
            if record:
                chk.outcome("normalized_error_decade", (view, rel, decade(max(ne, 1e-3))))
            if not ok:
                den = sum(parts[k][l][1:])        # (both sides of a lib-vs-lib relation count)
                den = min(den, den * (den_scale[k][l] if den_scale is not None else 1.0))
                cond = (("nonzero_denominator_below_2^-52",) if 0 < den < EPS
                        else (tag,) if tag is not None
                        else (stream_class(Ns[k]), noise_class(case)))
                chk.fail((view, rel) + cond, case,
                         observed="SINR[%d][%d]=%r" % (k, l, float(got[k][l])),
                         expected="%r (signal, own-stream, other-user, ext, noise powers = %r)"
                         % (float(ref[k][l]), parts[k][l]),
                         msg="normalized error %.3g > %g (kappa %.3g)" % (ne, C_TOL, kap))
    chk.count("eval_" + rel, n)
    return n


def compare_cov(chk, view, rel, case, k, got, ref, scale_ref, psd=True):
    """matrix relations: == explicit sum, Hermitian, PSD; scale_ref = magnitude of the operands
    the library adds / subtracts to obtain the matrix"""
    got = np.asarray(got)
    cond = (stream_class(case["Ns"][k]),) if "Bkl" in rel else ()
    if got.shape != ref.shape:
        chk.fail((view, rel, "shape"), case, observed=got.shape, expected=ref.shape)
        return
    sc = max(float(np.max(np.abs(ref))) if ref.size else 0.0, scale_ref, 1e-300)
    tol = C_TOL * EPS * sc
    chk.count("eval_" + rel)
    if not np.all(np.isfinite(got)) or float(np.max(np.abs(got - ref))) > tol:
        chk.fail((view, rel, "vs_explicit_sum") + cond, dict(case, k=k), observed=got,
                 expected=ref, msg="max abs diff %.3g > tol %.3g" %
                 (float(np.max(np.abs(got - ref))), tol))
        return
    if float(np.max(np.abs(got - got.conj().T))) > tol:
        chk.fail((view, rel, "hermitian") + cond, dict(case, k=k), observed=got,
                 expected="equal to its conjugate transpose")
    if psd:
        ev = np.linalg.eigvalsh((got + got.conj().T) / 2.0)
        if float(ev[0]) < -tol:
            chk.fail((view, rel, "psd") + cond, dict(case, k=k), observed=ev,
                     expected="eigenvalues >= 0")


def record_outcomes(chk, case, ref_sinr, parts):
    names = ("own_streams", "other_users", "ext_int", "noise")
    nontrivial = True
    for k in range(len(parts)):
        for l in range(len(parts[k])):
            sig, own, oth, ext, noise = parts[k][l]
            den = (own, oth, ext, noise)
            chk.outcome("dominant_denominator_term", names[int(np.argmax(den))])
            chk.outcome("sinr_decade", decade(ref_sinr[k][l]))
            chk.outcome("denominator_decade", decade(sum(den)))
            if 0 < sum(den) < EPS:
                chk.count("streams_with_nonzero_denominator_below_2^-52")
            chk.outcome("active_terms", tuple(v > 0 for v in den))
            if not (sig > 0 and sum(1 for v in den if v > 0) >= 1 and sum(den) > 0):
                nontrivial = False
    cfg = (case["kind"], case["chan"], case.get("var"), tuple(case["Nr"]), tuple(case["Nt"]),
           tuple(case["Ns"]), case["pl"], repr(case["noise"]), repr(case["NtE"]), repr(case["pe"]),
           case.get("cls"), case.get("fmode"), case.get("wmode"), bool(case.get("int_layout")),
           case.get("scale"))
    if case["kind"] == "hist":
        chk.outcome("history_model_state", cfg + (case["model_key"],))
        if nontrivial:
            chk.nontriv(cfg + (case["s"], case["model_key"], len(case["hist"])))
        return
    chk.outcome("configuration", cfg)
    if nontrivial:
        chk.nontriv(cfg + (case["s"],))


def rescale_rounds(chk):
    return len(FACTORS) if chk.tier == "thorough" else RESCALE_ROUNDS_QUICK


def rescaled(U, r):
    """every column l of every user's filter multiplied by FACTORS[(l + k + 3 * r) % len(FACTORS)]"""
    out = []
    for k, Uk in enumerate(U):
        V = np.array(Uk, dtype=complex, copy=True)
        for l in range(V.shape[1]):
            V[:, l] = V[:, l] * FACTORS[(l + k + 3 * r) % len(FACTORS)]
        out.append(V)
    return out


# ----------------------------------------------------------------------
# channel-object case
# ----------------------------------------------------------------------
def run_chan_case(case, chk, live=None):
    """live = dict(view, inp, ch): evaluate the state-dependent relations on a LIVE channel object
    whose current state is described by `inp` / `case` (history exploration) instead of building
    a fresh object"""
    view = live["view"] if live else view_of(case)
    with guard(chk, (view,), case):
        inp = live["inp"] if live else make_inputs(case)
        K, Ns = inp["K"], case["Ns"]
        jp = case["var"] == "JP"
        ext = case["chan"] == "ext"
        pe_val = 1.0 if case["pe"] is None else float(case["pe"])
        ref = Ref(case["Nr"], case["Nt"], inp["ntE"], inp["Hraw"], inp["PL"], case["noise"],
                  pe_val if ext else 0.0)
        Fl = inp["Fjp"] if jp else inp["F"]
        Ul = inp["U"]
        ref_sinr, parts = ref.sinr(Fl, Ul, jp)
        if zero_denominator(parts):
            chk.count("excluded_zero_denominator")
            return
        record_outcomes(chk, case, ref_sinr, parts)
        chk.count("eval_hist_chan_observations" if live else "eval_chan_cases")

        ch = live["ch"] if live else build_channel(case, inp)
        pe_args = () if (not ext or case["pe"] is None) else (case["pe"],)
        fn = ch.calc_JP_SINR if jp else ch.calc_SINR
        name = "calc_JP_SINR" if jp else "calc_SINR"

        if not live:
            for acc in ((name, "calc_JP_Q" if jp else "calc_Q") +
                        (("calc_cov_matrix_extint_plus_noise",
                          "calc_cov_matrix_extint_without_noise") if ext else ())):
                chk.outcome("cell", (type(ch).__name__, acc, "pe=%r" % (case["pe"],) if ext else "-",
                                     "noise_var=%r" % (case["noise"],)))

        # 1. library vs first principles (object-array containers)
        got = fn(objarr(Fl), objarr(Ul), *pe_args)
        if not check_shape(chk, view, name, case, got, Ns):
            return
        compare_sinr(chk, view, name + "_vs_first_principles", case, got, ref_sinr, parts)

        # 2. list containers give the identical numbers
        if not live:
            got_l = fn(list(Fl), list(Ul), *pe_args)
            chk.count("eval_list_container")
            same = check_shape(chk, view, name + "_list", case, got_l, Ns) and \
                all(np.array_equal(np.asarray(got_l[k]), np.asarray(got[k])) for k in range(K))
            if not same:
                chk.fail((view, name, "list_vs_object_array"), case, observed=list(got_l),
                         expected=list(got))

        # 3a. the same power through every spelling of the argument
        if ext and case["pe"] is not None and not live:
            variants = [("keyword", lambda: fn(objarr(Fl), objarr(Ul), pe=case["pe"])),
                        ("np.float64", lambda: fn(objarr(Fl), objarr(Ul), np.float64(case["pe"])))]
            if float(case["pe"]) == int(case["pe"]):
                variants.append(("int", lambda: fn(objarr(Fl), objarr(Ul), int(case["pe"]))))
                variants.append(("float", lambda: fn(objarr(Fl), objarr(Ul), float(case["pe"]))))
                variants.append(("np.int64", lambda: fn(objarr(Fl), objarr(Ul),
                                                        np.int64(case["pe"]))))
                variants.append(("np.float32", lambda: fn(objarr(Fl), objarr(Ul),
                                                          np.float32(case["pe"]))))
            for vname, call in variants:
                got_v = call()
                chk.count("eval_pe_argument_forms")
                if not all(np.array_equal(np.asarray(got_v[k]), np.asarray(got[k]))
                           for k in range(K)):
                    chk.fail((view, name, "pe_argument_form", vname), case, observed=list(got_v),
                             expected=list(got))

        # 3b. the same noise variance through every scalar presentation (an int, a numpy integer,
        #     np.float32 ... must behave like the equal-valued python float)
        if not live and case["noise"] is not None and case["noise"] > 0:
            for pname, pres in noise_presentations(case["noise"]):
                ch.noise_var = pres
                got_v = fn(objarr(Fl), objarr(Ul), *pe_args)
                chk.count("eval_noise_var_presentations")
                if check_shape(chk, view, name + "_noise_" + pname, case, got_v, Ns):
                    compare_sinr(chk, view, name + "_noise_var_presentation", case, got_v,
                                 [[float(v) for v in got[k]] for k in range(K)], parts,
                                 record=False, tag=pname)
            ch.noise_var = case["noise"]

        # 3. pe omitted == pe = 1.0
        if ext and case["pe"] is None and not live:
            got_1 = fn(objarr(Fl), objarr(Ul), 1.0)
            chk.count("eval_pe_default")
            if not all(np.array_equal(np.asarray(got_1[k]), np.asarray(got[k])) for k in range(K)):
                chk.fail((view, name, "pe_default_is_1"), case, observed=list(got),
                         expected=list(got_1))

        # 4. rescaling the receive filter columns changes nothing
        for r in range(0 if live else rescale_rounds(chk)):
            got_r = fn(objarr(Fl), objarr(rescaled(Ul, r)), *pe_args)
            if check_shape(chk, view, name + "_rescaled", case, got_r, Ns):
                compare_sinr(chk, view, name + "_filter_rescale_invariance", case, got_r,
                             [[float(v) for v in got[k]] for k in range(K)], parts, record=False,
                             den_scale=[[abs(FACTORS[(l + k + 3 * r) % len(FACTORS)]) ** 2
                                         for l in range(Ns[k])] for k in range(K)])

        # 5. covariance matrices
        Fo = objarr(Fl)
        own_scale = []
        for k in range(K):
            tot = ref.cov(k, Fl, jp, skip=lambda s_: False)
            own_scale.append(float(np.max(np.abs(tot))))
        for k in range(K):
            Qref = ref.cov(k, Fl, jp, skip=lambda s_, k=k: s_[0] == k)
            if jp:
                Q = ch.calc_JP_Q(k, Fo, *pe_args)
                qn = "calc_JP_Q"
            else:
                Q = ch.calc_Q(k, Fo, *pe_args)
                qn = "calc_Q"
            compare_cov(chk, view, qn, case, k, Q, Qref, 0.0)
            # per-stream interference-plus-noise covariance B_kl
            if ext:
                Re = ch.calc_cov_matrix_extint_plus_noise(*pe_args)
                arg = Re[k]
            else:
                arg = case["noise"] if (case["noise"] is not None or not jp) else 0.0
            # (private helpers named by the property's anchors; their content is also judged through
            #  the public calc_SINR / calc_JP_SINR / calc_Q / calc_JP_Q above)
            bn = "JP_Bkl_cov_matrix_all_l" if jp else "Bkl_cov_matrix_all_l"
            helper = _private(ch, "_calc_" + bn)
            if helper is MISSING:
                chk.outcome("oracle_input_unavailable", (type(ch).__name__, "_calc_" + bn))
                continue
            B = _call_private(chk, (type(ch).__name__, "_calc_" + bn), helper, Fo, k, arg)
            if B is MISSING:
                continue
            if len(B) != Ns[k]:
                chk.fail((view, bn, "shape"), case, observed=len(B), expected=Ns[k])
            else:
                for l in range(Ns[k]):
                    Bref = ref.cov(k, Fl, jp, skip=lambda s_, k=k, l=l: s_[0] == k and s_[1] == l)
                    compare_cov(chk, view, bn, case, k, B[l], Bref, own_scale[k])
        if ext:
            R0 = ch.calc_cov_matrix_extint_without_noise(*pe_args)
            R1 = ch.calc_cov_matrix_extint_plus_noise(*pe_args)
            if len(R0) != K or len(R1) != K:
                chk.fail((view, "calc_cov_matrix_extint", "shape"), case,
                         observed=(len(R0), len(R1)), expected=K)
            else:
                for k in range(K):
                    none = lambda s_: True          # noqa: E731
                    compare_cov(chk, view, "calc_cov_matrix_extint_without_noise", case, k, R0[k],
                                ref.cov(k, Fl, jp, skip=none, with_noise=False), 0.0)
                    compare_cov(chk, view, "calc_cov_matrix_extint_plus_noise", case, k, R1[k],
                                ref.cov(k, Fl, jp, skip=none), 0.0)

        # 6. Shannon sum capacity helper on the reported values
        if live:
            return
        from pyphysim.util import misc
        flat = np.hstack([np.asarray(got[k], dtype=float) for k in range(K)])
        want = 0.0
        for v in flat.tolist():
            want += math.log2(1.0 + v)
        cap = misc.calc_shannon_sum_capacity(flat)
        chk.count("eval_calc_shannon_sum_capacity")
        if not (math.isfinite(cap) and abs(cap - want) <= 16 * EPS * max(1.0, abs(want)) * flat.size):
            chk.fail(("misc", "calc_shannon_sum_capacity", "array"), case, observed=cap,
                     expected=want)
        cap0 = misc.calc_shannon_sum_capacity(float(flat[0]))
        if not abs(cap0 - math.log2(1.0 + float(flat[0]))) <= 16 * EPS * max(1.0, abs(cap0)):
            chk.fail(("misc", "calc_shannon_sum_capacity", "scalar"), case, observed=cap0,
                     expected=math.log2(1.0 + float(flat[0])))


# ----------------------------------------------------------------------
# solver case
# ----------------------------------------------------------------------
P_UNEQUAL = [0.7, 1.9, 3.1, 0.4]


def solver_inputs(case, inp):
    """what is handed to the solver and the resulting ideal full_F / W (oracle side)"""
    K = inp["K"]
    Fn = [F / math.sqrt(float(np.sum(np.abs(F) ** 2))) for F in inp["F"]]   # unit Frobenius norm
    fmode = case["fmode"]
    if fmode == "F_P1":
        P = None
        fullF = [np.array(F) for F in Fn]
    elif fmode == "F_Pvec":
        P = np.array(P_UNEQUAL[:K], dtype=float) * inp.get("Pscale", 1.0)
        fullF = [Fn[k] * math.sqrt(P[k]) for k in range(K)]
    elif fmode == "fullF":
        P = None
        fullF = [inp["F"][k] * (1.7 + 0.9 * k) for k in range(K)]           # arbitrary scale
    elif fmode == "F_Pint":
        P = np.array(P_INT[:K], dtype=int)
        fullF = [Fn[k] * math.sqrt(float(P[k])) for k in range(K)]
    elif fmode == "fullF_P":
        P = np.array(P_UNEQUAL[:K], dtype=float)
        fullF = [inp["F"][k] * (1.7 + 0.9 * k) for k in range(K)]           # used as given
    elif fmode == "F_fullF_backoff":
        P = None
        fullF = [Fn[k] * BACKOFF[k % len(BACKOFF)] for k in range(K)]
    elif fmode == "F_fullF_P_backoff":
        P = np.array(P_UNEQUAL[:K], dtype=float)
        fullF = [Fn[k] * (BACKOFF[k % len(BACKOFF)] * math.sqrt(P[k])) for k in range(K)]
    else:
        raise ValueError(fmode)
    return Fn, P, fullF


def oracle_full_filter(ref, fullF, W, k):
    """U_k such that U_k^H = inv(W_k^H H_kk fullF_k) W_k^H, built from the oracle's own channel;
    returns (U_k as Nr x Ns array, cond(W^H H F))"""
    ns = fullF[k].shape[1]
    st = [s_ for s_ in ref.streams(fullF, False) if s_[0] == k]
    M = np.zeros((ns, ns), dtype=complex)
    for d, s_ in enumerate(st):
        g = ref.rx(k, s_)
        for l in range(ns):
            u = [complex(W[k][a, l]) for a in range(ref.Nr[k])]
            M[l, d] = ref.filt(u, g)
    WH = np.asarray(W[k]).conj().T
    UH = np.linalg.solve(M, WH)
    return UH.conj().T, families.cond(M)


def run_solver_case(case, chk, live=None):
    """live = dict(view, inp, ch, sol, Fn, P, fullF, W, stale): relations on a LIVE solver bound to
    a live channel object (history exploration); stale = the solver cached its derived
    full_W_H before the channel object was changed"""
    ext = case["chan"] == "ext"
    view = live["view"] if live else ("solver_extint" if ext else "solver")
    with guard(chk, (view,), case):
        import pyphysim.ia.algorithms as alg
        import pyphysim.ia.iabase as iabase
        inp = live["inp"] if live else make_inputs(case)
        K, Ns = inp["K"], case["Ns"]
        # bound to the ExtInt channel the solver can only mean the library default pe = 1
        # (that is what its own calc_Q passes on)
        ref = Ref(case["Nr"], case["Nt"], inp["ntE"], inp["Hraw"], inp["PL"], case["noise"],
                  1.0 if ext else 0.0)
        if live:
            Fn, P, fullF, W, ch = live["Fn"], live["P"], live["fullF"], live["W"], live["ch"]
        else:
            Fn, P, fullF = solver_inputs(case, inp)
            W = inp["U"]
            ch = build_channel(case, inp)
        cls = getattr(iabase, case["cls"], None) or getattr(alg, case["cls"])

        def make_solver(Wmats):
            sol = cls(ch)
            fm = case["fmode"]
            if fm == "F_Pint":
                # integers: a python list of ints through set_precoders, or the P setter afterwards
                if case["wmode"] == "W":
                    sol.set_precoders(F=[np.array(m) for m in Fn], P=[int(v) for v in P])
                else:
                    sol.set_precoders(F=[np.array(m) for m in Fn])
                    sol.P = np.array(P, dtype=np.int64)
            elif fm in FMODES_EXTRA:
                kw = dict(full_F=[np.array(m) for m in fullF])          # python lists
                if "F_" in fm:
                    kw["F"] = [np.array(m) for m in Fn]
                if P is not None:
                    kw["P"] = np.array(P)
                sol.set_precoders(**kw)
            elif case["fmode"] == "fullF":
                sol.set_precoders(full_F=objarr([np.array(m) for m in fullF]))
            elif P is None:
                sol.set_precoders(F=objarr([np.array(m) for m in Fn]))
            else:
                sol.set_precoders(F=objarr([np.array(m) for m in Fn]), P=np.array(P))
            if case["fmode"] in FMODES_EXTRA:                            # python lists
                if case["wmode"] == "W":
                    sol.set_receive_filters(W=[np.array(m) for m in Wmats])
                else:
                    sol.set_receive_filters(W_H=[np.array(m).conj().T for m in Wmats])
            elif case["wmode"] == "W":
                sol.set_receive_filters(W=objarr([np.array(m) for m in Wmats]))
            else:
                sol.set_receive_filters(W_H=objarr([np.array(m).conj().T for m in Wmats]))
            return sol

        sol = live["sol"] if live else make_solver(W)
        chk.count("eval_hist_solver_observations" if live else "eval_solver_cases")

        # oracle: independently derived full filter, then the scalar-sum SINR
        Ufull, conds = [], []
        if live and live["stale"]:
            # the derived filter was computed for an earlier channel state: first principles are
            # evaluated for the filter the solver reports (its precoders still come from the model)
            chk.count("hist_solver_observations_with_reported_filter")
            Ufull = [np.asarray(sol.full_W[k]) for k in range(K)]
            conds = [1.0] * K
        else:
            for k in range(K):
                Uk, cd = oracle_full_filter(ref, fullF, W, k)
                Ufull.append(Uk)
                conds.append(SOLVE_SAFETY * cd)
        ref_sinr, parts = ref.sinr(fullF, Ufull, False)
        if zero_denominator(parts):
            chk.count("excluded_zero_denominator")
            return
        record_outcomes(chk, case, ref_sinr, parts)
        chk.outcome("cond_WHF_decade", decade(max(conds) / (SOLVE_SAFETY if not (live and live["stale"]) else 1.0)))

        if not live:
            for acc in ("calc_SINR", "calc_sum_capacity", "calc_SINR_in_dB", "calc_Q"):
                chk.outcome("cell", ("solver on " + type(ch).__name__, acc, "-",
                                     "noise_var=%r" % (case["noise"],)))
        got = sol.calc_SINR()
        if not check_shape(chk, view, "calc_SINR", case, got, Ns):
            return
        # the solver must report the number of streams it was given
        if [int(v) for v in sol.Ns] != list(Ns):
            chk.fail((view, "Ns_after_set_precoders"), case, observed=sol.Ns, expected=Ns)
        ignores_ext = False
        if ext and not sinr_matches(case, got, ref_sinr, parts, conds):
            # name the defect: is it exactly the value obtained without the external sources?
            ref0 = Ref(case["Nr"], case["Nt"], inp["ntE"], inp["Hraw"], inp["PL"], case["noise"], 0.0)
            r0, p0 = ref0.sinr(fullF, Ufull, False)
            if sinr_matches(case, got, r0, p0, conds):
                ignores_ext = True
                chk.count("eval_calc_SINR_vs_first_principles",
                          sum(Ns))
                got_ch = ch.calc_SINR(sol.full_F, sol.full_W)
                chk.fail((view, "calc_SINR", "external_interference_ignored"), case,
                         observed=[[float(v) for v in got[k]] for k in range(K)],
                         expected=ref_sinr,
                         msg="solver.calc_SINR() equals the first-principles value WITHOUT the "
                             "external interference; channel.calc_SINR(solver.full_F, "
                             "solver.full_W) = %r; solver.calc_Q includes the external "
                             "interference (pe=1)" % ([[float(v) for v in got_ch[k]]
                                                      for k in range(K)],))
        if not ignores_ext:
            compare_sinr(chk, view, "calc_SINR_vs_first_principles", case, got, ref_sinr, parts,
                         extra_kappa=conds)

            # first principles with the solver's own reported full_F / full_W (no solve())
            sF = [np.asarray(sol.full_F[k]) for k in range(K)]
            sW = [np.asarray(sol.full_W[k]) for k in range(K)]
            ref2, parts2 = ref.sinr(sF, sW, False)
            compare_sinr(chk, view, "calc_SINR_vs_first_principles_own_filters", case, got, ref2,
                         parts2)

            # the two implementations agree
            got_ch = ch.calc_SINR(sol.full_F, sol.full_W)
            if check_shape(chk, view, "channel_calc_SINR_of_solver_filters", case, got_ch, Ns):
                compare_sinr(chk, view, "solver_vs_channel_object", case, got,
                             [[float(v) for v in got_ch[k]] for k in range(K)], parts2,
                             record=False)

        # the noise variance of the channel object through other scalar presentations
        if not live and case["noise"] is not None and case["noise"] > 0:
            for pname, pres in noise_presentations(case["noise"]):
                if pname not in ("int", "np.float32"):
                    continue
                ch.noise_var = pres
                got_v = make_solver(W).calc_SINR()
                chk.count("eval_noise_var_presentations")
                if check_shape(chk, view, "calc_SINR_noise_" + pname, case, got_v, Ns):
                    compare_sinr(chk, view, "calc_SINR_noise_var_presentation", case, got_v,
                                 [[float(v) for v in got[k]] for k in range(K)], parts,
                                 extra_kappa=conds, record=False, tag=pname)
                got_c = ch.calc_SINR(sol.full_F, sol.full_W)
                if not ignores_ext and check_shape(chk, view, "channel_calc_SINR_noise_" + pname,
                                                   case, got_c, Ns):
                    compare_sinr(chk, view, "solver_vs_channel_object_noise_var_presentation", case,
                                 got, [[float(v) for v in got_c[k]] for k in range(K)], parts2,
                                 record=False, tag=pname)
            ch.noise_var = case["noise"]

        # rescaling the filter columns handed to the solver
        for r in range(0 if live else rescale_rounds(chk)):
            sol_r = make_solver(rescaled(W, r))
            got_r = sol_r.calc_SINR()
            if check_shape(chk, view, "calc_SINR_rescaled", case, got_r, Ns):
                compare_sinr(chk, view, "calc_SINR_filter_rescale_invariance", case, got_r,
                             [[float(v) for v in got[k]] for k in range(K)], parts,
                             extra_kappa=conds, record=False)

        # dB
        dB = sol.calc_SINR_in_dB()
        if check_shape_db(chk, view, case, dB, Ns):
            n = 0
            for k in range(K):
                for l in range(Ns[k]):
                    own = 10.0 * math.log10(float(got[k][l]))
                    if abs(float(dB[k][l]) - own) > 64 * EPS * max(1.0, abs(own)):
                        chk.fail((view, "calc_SINR_in_dB", "is_10log10_of_calc_SINR"), case,
                                 observed=float(dB[k][l]), expected=own)
                    kap = kappa_of(parts[k][l]) * conds[k]
                    if ignores_ext or not kap < KAPPA_MAX:
                        continue
                    want = 10.0 * math.log10(ref_sinr[k][l])
                    tol = C_TOL * EPS * (kap * 10.0 / math.log(10.0) + abs(want))
                    n += 1
                    if not abs(float(dB[k][l]) - want) <= tol:
                        chk.fail((view, "calc_SINR_in_dB_vs_first_principles", stream_class(Ns[k]),
                                  noise_class(case)), case, observed=float(dB[k][l]), expected=want)
            chk.count("eval_calc_SINR_in_dB", n)

        # sum capacity
        cap = sol.calc_sum_capacity()
        want, tol, ok_k = 0.0, 0.0, True
        own = 0.0
        for k in range(K):
            for l in range(Ns[k]):
                kap = kappa_of(parts[k][l]) * conds[k]
                if not kap < KAPPA_MAX:
                    ok_k = False
                want += math.log2(1.0 + ref_sinr[k][l])
                own += math.log2(1.0 + float(got[k][l]))
                tol += C_TOL * EPS * kap / math.log(2.0)
        chk.count("eval_calc_sum_capacity")
        if not abs(float(cap) - own) <= 64 * EPS * max(1.0, abs(own)):
            chk.fail((view, "calc_sum_capacity", "is_sum_log2_of_calc_SINR"), case, observed=cap,
                     expected=own)
        if ok_k and not ignores_ext and \
                not abs(float(cap) - want) <= tol + C_TOL * EPS * abs(want):
            chk.fail((view, "calc_sum_capacity_vs_first_principles", noise_class(case)), case,
                     observed=cap, expected=want)

        # interference covariance reported by the solver
        for k in range(K):
            Qref = ref.cov(k, fullF, False, skip=lambda s_, k=k: s_[0] == k)
            compare_cov(chk, view, "calc_Q", case, k, sol.calc_Q(k), Qref, 0.0)
            helper = _private(sol, "_calc_Bkl_cov_matrix_all_l")
            if helper is MISSING:
                chk.outcome("oracle_input_unavailable", ("solver", "_calc_Bkl_cov_matrix_all_l"))
            B = MISSING if helper is MISSING else _call_private(
                chk, ("solver", "_calc_Bkl_cov_matrix_all_l"), helper, k)
            tot = float(np.max(np.abs(ref.cov(k, fullF, False, skip=lambda s_: False))))
            if B is MISSING:
                pass
            elif len(B) != Ns[k]:
                chk.fail((view, "Bkl_cov_matrix_all_l", "shape"), case, observed=len(B),
                         expected=Ns[k])
            elif not ignores_ext:       # (same defect: B_kl is what calc_SINR is computed from)
                for l in range(Ns[k]):
                    Bref = ref.cov(k, fullF, False,
                                   skip=lambda s_, k=k, l=l: s_[0] == k and s_[1] == l)
                    compare_cov(chk, view, "Bkl_cov_matrix_all_l", case, k, B[l], Bref, tot)
            # share of the interference in the Ns[k] weakest directions (eq. 30 of Cadambe 2008)
            ev = np.linalg.eigvalsh((Qref + Qref.conj().T) / 2.0)
            tr = float(np.sum(np.abs(np.diag(Qref))))
            if tr > 0:
                want_p = float(np.sum(np.abs(ev[:Ns[k]]))) / tr
                pk = sol.calc_remaining_interference_percentage(k)
                chk.count("eval_remaining_interference_percentage")
                if not abs(float(pk) - want_p) <= C_TOL * EPS:
                    chk.fail((view, "calc_remaining_interference_percentage"), dict(case, k=k),
                             observed=pk, expected=want_p)

        # deprecated calc_SINR_old on the sub-domain where its formula IS the definition
        # (two users, one stream each, unit powers: nothing is summed coherently)
        if K == 2 and all(n == 1 for n in Ns) and case["fmode"] == "F_P1" and not ext and not live:
            old = sol.calc_SINR_old()
            ref_o, parts_o = ref.sinr(Fn, W, False)
            if check_shape(chk, view, "calc_SINR_old", case, old, Ns):
                compare_sinr(chk, view, "calc_SINR_old_vs_first_principles", case, old, ref_o,
                             parts_o, record=False)


def check_shape_db(chk, view, case, got, Ns):
    try:
        ok = len(got) == len(Ns) and all(np.asarray(got[k]).shape == (Ns[k],)
                                         for k in range(len(Ns)))
        ok = ok and all(np.all(np.isfinite(np.asarray(got[k], dtype=float)))
                        for k in range(len(Ns)))
    except (TypeError, ValueError):
        ok = False
    if not ok:
        chk.fail((view, "calc_SINR_in_dB", "shape_finite"), case, observed=repr(got)[:200],
                 expected="K arrays of Ns[k] finite floats")
    return ok


# ----------------------------------------------------------------------
# Part H: object-reuse histories (explicit-state BFS over ONE channel object + ONE bound solver)
# ----------------------------------------------------------------------
# Events.  Mutators change the object, "touch" events only evaluate library functions (they
# populate the lazily filled caches - without them a rebuilt state never has a warm cache).  In
# every reached state ALL state-dependent relations are evaluated against the first-principles
# oracle of the CURRENT model state (path loss, noise, channel member, precoders, filters, powers).
H_NOISES = [None, 0, 0.1, 2, 1e-13, 1e-20]      # (2 is a python int here, 2.0 in Part 1)
EV_FULL = ([("pl", 0), ("pl", 1), ("pl", 2), ("pl", 3)] +
           [("noise", i) for i in range(len(H_NOISES))] +
           [("init", 1), ("init", 0), ("rand", 2)] +
           [("setF", "a"), ("setF", "b"), ("setFull", "b"), ("setW", "a"), ("setW", "b"),
            ("setW", "c"), ("setBoth", "b")] +
           [("P", 0), ("P", 1)] + [("bad", "channel"), ("bad", "solver")] +
           [("touch", "IC"), ("touch", "JP"), ("touch", "solver")])
EV_CORE = [("pl", 0), ("pl", 1), ("pl", 3), ("noise", 0), ("noise", 2), ("init", 1), ("rand", 2),
           ("setF", "b"), ("setW", "c"), ("P", 1), ("setBoth", "b"), ("bad", "channel"),
           ("bad", "solver"),
           ("touch", "IC"), ("touch", "JP"), ("touch", "solver")]
EVENT_NAME = {"pl": "set_pathloss", "noise": "noise_var", "init": "init_from_channel_matrix",
              "rand": "randomize", "setF": "set_precoders", "setFull": "set_precoders",
              "setW": "set_receive_filters", "P": "P_setter", "setBoth": "set_precoders",
              "bad": "invalid_call"}


def hist_configs(tier):
    """(chan, NtE, Nr, Nt, Ns, s, alphabet name, depth)"""
    thorough = tier == "thorough"
    classes = [("plain", None), ("ext", 1), ("ext", [1, 1])]
    out = []
    out.append(("ext", 1, [2, 2], [2, 2], [2, 1], 0, "full", 2))
    out.append(("ext", 1, [2, 2], [2, 2], [2, 1], 0, "core", 3))
    out.append(("plain", None, [2, 2], [2, 2], [2, 1], 0, "full", 2))
    out.append(("plain", None, [2, 2], [2, 2], [2, 1], 0, "core", 3))
    out.append(("ext", [1, 1], [2, 2], [2, 2], [2, 1], 0, "full", 2))
    out.append(("ext", [1, 1], [2, 2], [2, 2], [2, 1], 0, "core", 3))
    if thorough:
        for chan, NtE in classes + [("ext", 2)]:
            for Nr, Nt, Ns in (([2, 2], [2, 2], [1, 2]), ([2, 2, 3], [2, 3, 2], [1, 2, 2])):
                for s in (0, 1):
                    out.append((chan, NtE, Nr, Nt, Ns, s, "full", 3))
        for chan, NtE in classes:
            out.append((chan, NtE, [2, 2], [2, 2], [2, 1], 1, "core", 4))
    return out


def hist_units(tier):
    """one BFS unit per (configuration, first event): the units are sharded over the workers"""
    offs = _offs()
    for chan, NtE, Nr, Nt, Ns, s, alpha, depth in hist_configs(tier):
        evs = EV_FULL if alpha == "full" else EV_CORE
        base = dict(kind="hist", chan=chan, NtE=NtE, Nr=list(Nr), Nt=list(Nt), Ns=list(Ns), s=s,
                    offs=offs, cls="IASolverBaseClass", alphabet=alpha, depth=depth)
        yield dict(base, first=None)
        for ev in evs:
            yield dict(base, first=list(ev))


def hist_data(cfg):
    """every matrix an event or an observation can refer to (closed-form family members)"""
    Nr, Nt, Ns = cfg["Nr"], cfg["Nt"], cfg["Ns"]
    K = len(Nr)
    ntE = nte_list(cfg)
    shapeH = (sum(Nr), sum(Nt) + sum(ntE))
    H = {0: gen(cfg, 21, 0, shapeH), 1: gen(cfg, 21, 20, shapeH), 2: gen(cfg, 21, 21, shapeH)}
    PL = {0: None}
    for i, idx in ((1, 1), (2, 5), (3, 6)):
        g = gen(cfg, 24, idx, (K, K + len(ntE)))
        PL[i] = 0.02 + 1.3 * (np.abs(g) - 0.1) ** 2
    PL[3] = PL[3] * 1e-16            # about -160 dB on every link
    F = {"a": [gen(cfg, 22, 2 + k, (Nt[k], Ns[k])) for k in range(K)],
         "b": [gen(cfg, 22, 30 + k, (Nt[k], Ns[k])) for k in range(K)]}
    W = {"a": [gen(cfg, 23, 14 + k, (Nr[k], Ns[k])) for k in range(K)],
         "b": [gen(cfg, 23, 40 + k, (Nr[k], Ns[k])) for k in range(K)]}
    W["c"] = [M * 1e-10 for M in W["b"]]          # the same filters, tiny
    Fjp = [gen(cfg, 25, 8 + k, (sum(Nt), Ns[k])) for k in range(K)]
    return dict(K=K, ntE=ntE, H=H, PL=PL, F=F, W=W, Fjp=Fjp, U=W["a"],
                U_tiny=[M * 1e-10 for M in W["a"]],
                Pvec=np.array(P_UNEQUAL[:K], dtype=float))


def _unit(F):
    return [M / math.sqrt(float(np.sum(np.abs(M) ** 2))) for M in F]


def hist_model(hist):
    """reference model of the object state: pure function of the event history"""
    m = dict(mem=0, pl=0, noise=0, F=("unit", "a"), W="a", P=0, cached=False, stale=False,
             last="constructed")
    for kind, arg in hist:
        if kind == "touch":
            if arg == "solver":
                m["cached"] = True
            continue
        m["last"] = EVENT_NAME[kind]
        if kind == "bad":               # a rejected call changes nothing
            continue
        if kind == "pl":
            m["pl"] = arg
        elif kind == "noise":
            m["noise"] = arg
        elif kind in ("init", "rand"):
            m["mem"] = arg
        elif kind == "setF":
            m["F"] = ("unit", arg)
        elif kind == "setFull":
            m["F"] = ("full", arg)
        elif kind == "setBoth":
            m["F"] = ("backoff", arg)
            m["P"] = 1
        elif kind == "setW":
            m["W"] = arg
        elif kind == "P":
            m["P"] = arg
            if m["F"][0] == "full":          # an explicit full_F is dropped with the power
                m["F"] = ("unit_of_full", m["F"][1])
            elif m["F"][0] == "backoff":
                m["F"] = ("unit", m["F"][1])
        if kind in ("pl", "init", "rand"):
            if m["cached"]:
                m["stale"] = True            # solver's derived filter belongs to the old channel
        elif kind in ("setF", "setFull", "setBoth", "setW", "P"):
            m["cached"] = m["stale"] = False
    return m


def model_precoders(m, data):
    """-> (Fn handed to / implied for the solver, P, ideal full_F)"""
    K = data["K"]
    how, which = m["F"]
    P = data["Pvec"] if m["P"] else None
    scaled = [data["F"][which][k] * (1.7 + 0.9 * k) for k in range(K)]
    if how in ("unit", "backoff"):
        Fn = _unit(data["F"][which])
    else:
        Fn = _unit(scaled)
    if how == "full":
        fullF = scaled
    elif how == "backoff":
        fullF = backoff_full_F(data, which)
    else:
        fullF = [Fn[k] * (math.sqrt(P[k]) if P is not None else 1.0) for k in range(K)]
    return Fn, P, fullF


class HistState:
    pass


def _digest_state(st):
    from vmc import bfs
    return bfs.digest([bfs.state_of(st.ch)] +
                      [{k: v for k, v in bfs.state_of(o).items() if v is not st.ch}
                       for o in st.solvers()], 9)


BACKOFF = (0.6, 0.25, 0.9, 0.5)      # per-user power back-off of an explicitly given full_F


def backoff_full_F(data, which):
    """full_F = b_k sqrt(P_k) F_k with b_k != 1 (the transmitter does not use all its power)"""
    Fn = _unit(data["F"][which])
    return [Fn[k] * (BACKOFF[k % len(BACKOFF)] * math.sqrt(float(data["Pvec"][k])))
            for k in range(data["K"])]


def hist_new(cfg, data, second_solver=False):
    """fresh channel object (family member 0, no path loss, no noise) + bound solver(s)"""
    from pyphysim.channels import multiuser
    from pyphysim.ia.iabase import IASolverBaseClass
    ext = cfg["chan"] == "ext"
    st = HistState()
    st.model_pl = 0           # path-loss id of the reference model
    st.raw_learnt = None      # raw channel learnt from the object (randomize bypassed the seam)
    st.soft = []              # (sub-call, raised?, objects unchanged?) of every invalid call made
    st.unknown = set()        # parts ("H","PL","noise","F","W","P") an invalid call has damaged and
    #                           no valid call has re-established yet
    st.ch = multiuser.MultiUserChannelMatrixExtInt() if ext else multiuser.MultiUserChannelMatrix()
    _hist_init(cfg, data, st, 0)
    st.sol = IASolverBaseClass(st.ch)
    st.sol.set_precoders(F=objarr(_unit(data["F"]["a"])))
    st.sol.set_receive_filters(W=objarr([np.array(m_) for m_ in data["W"]["a"]]))
    st.sol2 = None
    if second_solver:         # a second solver on the SAME channel object, never changed afterwards
        st.sol2 = IASolverBaseClass(st.ch)
        st.sol2.set_precoders(F=[np.array(m_) for m_ in _unit(data["F"]["b"])],
                              P=np.array(data["Pvec"]))
        st.sol2.set_receive_filters(W_H=[np.array(m_).conj().T for m_ in data["W"]["b"]])
    st.solvers = lambda: [o for o in (st.sol, st.sol2) if o is not None]
    return st


def _nte_arg(cfg):
    NtE = cfg["NtE"]
    if cfg["chan"] != "ext":
        return None
    return int(NtE) if isinstance(NtE, (int, np.integer)) else [int(v) for v in NtE]


def _hist_init(cfg, data, st, mem):
    Hm = np.array(data["H"][mem], copy=True)
    K = data["K"]
    if cfg["chan"] == "ext":
        st.ch.init_from_channel_matrix(Hm, np.array(cfg["Nr"]), np.array(cfg["Nt"]), K,
                                       _nte_arg(cfg))
    else:
        st.ch.init_from_channel_matrix(Hm, np.array(cfg["Nr"]), np.array(cfg["Nt"]), K)


def invalid_calls(cfg, data, st, which):
    """(name, thunk, parts) of invalid calls (tools/INVALID_CALL_POLICY.md).
    An invalid call, as a call, is free: whether it raises, which exception, whether it is
    accepted, whether it changes the objects is only RECORDED (outcome class "invalid_call").
    `parts` names what the call could have damaged: "H" channel matrix / layout, "PL" path loss,
    "noise", and the solver inputs "F", "W", "P".  If the objects changed, those parts count as
    unknown until a VALID call re-establishes them (init_from_channel_matrix / randomize,
    set_pathloss, noise_var =, set_precoders, set_receive_filters, P =); from then on every
    relation of the property must hold again against first principles."""
    K = data["K"]
    ext = cfg["chan"] == "ext"
    ch, sol = st.ch, st.sol
    Nr, Nt = np.array(cfg["Nr"]), np.array(cfg["Nt"])
    Fa, Wa = data["F"]["a"], data["W"]["a"]
    H1 = np.array(data["H"][1], copy=True)
    more = (_nte_arg(cfg),) if ext else ()
    if which == "channel":
        calls = [
            ("init_from_channel_matrix(wrong shape)",
             lambda: ch.init_from_channel_matrix(H1[:-1, :], Nr, Nt, K, *more), ("H", "PL")),
            ("init_from_channel_matrix(K mismatch)",
             lambda: ch.init_from_channel_matrix(H1, Nr, Nt, K + 1, *more), ("H", "PL")),
            ("noise_var=-1", lambda: setattr(ch, "noise_var", -1.0), ("noise",)),
        ]
        if ext:
            calls += [
                ("init_from_channel_matrix(NtE not matching the matrix)",
                 lambda: ch.init_from_channel_matrix(H1, Nr, Nt, K, [3, 1]), ("H", "PL")),
                ("set_pathloss(P, ext_int_pathloss missing)",
                 lambda: ch.set_pathloss(np.ones((K, K))), ("PL",)),
            ]
        return calls
    return [
        ("P=0", lambda: setattr(sol, "P", 0.0), ("P",)),
        ("P=[.., -1]", lambda: setattr(sol, "P", np.array([1.0] * (K - 1) + [-1.0])), ("P",)),
        ("P of wrong length", lambda: setattr(sol, "P", np.ones(K + 1)), ("P",)),
        ("set_precoders()", lambda: sol.set_precoders(), ("F", "P")),
        ("set_precoders(F, P=[.., -1])",
         lambda: sol.set_precoders(F=objarr(_unit(Fa)), P=np.array([1.0] * (K - 1) + [-1.0])),
         ("F", "P")),
        ("set_receive_filters()", lambda: sol.set_receive_filters(), ("W",)),
        ("set_receive_filters(W, W_H)",
         lambda: sol.set_receive_filters(W=objarr([np.array(m_) for m_ in Wa]),
                                         W_H=objarr([np.array(m_).conj().T for m_ in Wa])),
         ("W",)),
        ("set_precoders(F of K-1 users)", lambda: sol.set_precoders(F=objarr(_unit(Fa)[:-1])),
         ("F",)),
        ("set_receive_filters(W of K-1 users)",
         lambda: sol.set_receive_filters(W=objarr([np.array(m_) for m_ in Wa][:-1])), ("W",)),
    ]


_ORIG_RANDN_C_RS = [None]


def seed_channel(ch, seed):
    """public seeding of the channel generator (keeps replays deterministic when randomize does
    not go through the scripted seam)"""
    f = getattr(ch, "set_channel_seed", None)
    if f is not None:
        f(seed)


def hist_apply_touch(ch, data, arg, pe_touch, st):
    if arg == "IC":
        ch.calc_SINR(objarr(data["F"]["a"]), objarr(data["U"]), *pe_touch)
        ch.calc_Q(0, objarr(data["F"]["a"]), *pe_touch)
    elif arg == "JP":
        ch.calc_JP_SINR(objarr(data["Fjp"]), objarr(data["U"]), *pe_touch)
        ch.calc_JP_Q(0, objarr(data["Fjp"]), *pe_touch)
    else:
        st.sol2.calc_SINR()


def hist_apply(cfg, data, st, ev):
    """execute one event on the live objects"""
    from pyphysim.channels import multiuser
    from vmc import seams
    kind, arg = ev
    ch, sol = st.ch, st.sol
    K = data["K"]
    ext = cfg["chan"] == "ext"
    Nr, Nt = np.array(cfg["Nr"]), np.array(cfg["Nt"])
    pe_touch = (0.5,) if ext else ()
    if kind == "pl":
        st.unknown.discard("PL")
        st.model_pl = arg
        PLm = data["PL"][arg]
        if PLm is None:
            ch.set_pathloss(None)
        elif ext:
            ch.set_pathloss(np.array(PLm[:, :K], copy=True), np.array(PLm[:, K:], copy=True))
        else:
            ch.set_pathloss(np.array(PLm, copy=True))
    elif kind == "noise":
        st.unknown.discard("noise")
        ch.noise_var = H_NOISES[arg]
    elif kind == "init":
        st.unknown.discard("H")
        st.raw_learnt = None
        _hist_init(cfg, data, st, arg)
    elif kind == "rand":
        st.unknown.discard("H")
        st.raw_learnt = None
        calls = [0]

        # the library's random draw is scripted where it goes through randn_c_RS: family member `arg`
        def fake(_rs, *shape, H2=data["H"][arg]):
            calls[0] += 1
            if tuple(int(v) for v in shape) != H2.shape:      # some other use of the generator
                return _ORIG_RANDN_C_RS[0](_rs, *shape)
            return np.array(H2, copy=True)
        _ORIG_RANDN_C_RS[0] = getattr(multiuser, "randn_c_RS", None)
        seed_channel(ch, 1000 + arg)
        with seams.patched((multiuser, "randn_c_RS", fake)):
            if ext:
                ch.randomize(Nr, Nt, K, _nte_arg(cfg))
            elif len(set(cfg["Nr"])) == 1 and len(set(cfg["Nt"])) == 1:
                ch.randomize(int(cfg["Nr"][0]), int(cfg["Nt"][0]), K)      # ints are documented
            else:
                ch.randomize(Nr, Nt, K)
        if calls[0] == 0:
            # the implementation drew the channel some other way (the property does not say how):
            # the raw channel is learnt from the public big_H with the model's path loss divided out
            PLm = data["PL"][st.model_pl]
            st.raw_learnt = np.asarray(ch.big_H) / pl_factor(
                cfg["Nr"], list(cfg["Nt"]) + list(data["ntE"]), PLm)
    elif kind == "setF":
        st.unknown.discard("F")
        if arg == "b":      # python lists are accepted too
            sol.set_precoders(F=[np.array(m_) for m_ in _unit(data["F"][arg])])
        else:
            sol.set_precoders(F=objarr(_unit(data["F"][arg])))
    elif kind == "setFull":
        st.unknown.discard("F")
        sol.set_precoders(full_F=objarr([data["F"][arg][k] * (1.7 + 0.9 * k) for k in range(K)]))
    elif kind == "setBoth":
        st.unknown.discard("F")
        st.unknown.discard("P")
        # every argument at once, with a power back-off: full_F != sqrt(P) F
        sol.set_precoders(F=objarr(_unit(data["F"][arg])), full_F=objarr(backoff_full_F(data, arg)),
                          P=np.array(data["Pvec"]))
    elif kind == "setW":
        st.unknown.discard("W")
        if arg in ("a", "c"):
            sol.set_receive_filters(W=objarr([np.array(m_) for m_ in data["W"][arg]]))
        else:
            sol.set_receive_filters(W_H=[np.array(m_).conj().T for m_ in data["W"][arg]])
    elif kind == "P":
        damaged = bool(st.unknown - {"P"})
        try:
            sol.P = np.array(data["Pvec"]) if arg else None
            st.unknown.discard("P")
        except Exception:           # noqa
            if not damaged:
                raise
            st.unknown.add("P")     # (power not taken while other inputs are still damaged)
    elif kind == "touch" and st.unknown and arg != "solver":
        try:        # damaged and not re-established: anything may happen, nothing is required
            hist_apply_touch(ch, data, arg, pe_touch, st)
        except Exception:       # noqa
            pass
    elif kind == "touch":
        if arg in ("IC", "JP", "solver2"):
            hist_apply_touch(ch, data, arg, pe_touch, st)
        elif st.unknown:
            try:                    # inputs not re-established yet: anything may happen, nothing
                sol.calc_SINR()     # is required - except that it must not poison what follows
                sol.calc_Q(0)
            except Exception:       # noqa
                pass
        else:
            sol.calc_SINR()
            sol.calc_Q(0)
    elif kind == "bad":
        for name, thunk, policy in invalid_calls(cfg, data, st, arg):
            before = _digest_state(st)
            raised = None
            try:
                thunk()
            except Exception as e:          # noqa
                raised = type(e).__name__
            same = _digest_state(st) == before
            st.soft.append((name, raised, same))
            if not same:
                st.unknown.update(policy)
    else:
        raise ValueError(kind)


def hist_build(cfg, data, hist, second_solver=False):
    st = hist_new(cfg, data, second_solver)
    for ev in hist:
        hist_apply(cfg, data, st, ev)
    return st


REL_PRIORITY = ["calc_cov_matrix_extint_without_noise", "calc_cov_matrix_extint_plus_noise",
                "calc_Q", "calc_JP_Q", "Bkl_cov_matrix_all_l", "JP_Bkl_cov_matrix_all_l",
                "calc_SINR_vs_first_principles", "calc_JP_SINR_vs_first_principles",
                "calc_SINR_vs_first_principles_own_filters", "solver_vs_channel_object"]


def hist_observe(chk, cfg, data, hist, st):
    """observe the state; on a violation find the shortest failing prefix of the history and report
    ONE violation naming the event after which the object is wrong and the most primitive
    relation that fails (the complete list of failing relations goes into the message)"""
    tmp = chk.child_check()
    _hist_observe_raw(tmp, cfg, data, hist, st)
    state = tmp.state()
    viol = state["violations"]
    state["violations"] = {}
    chk.absorb(state)
    if not viol:
        return
    def failing(h):
        """violations observed in the state reached by history h (None if it holds)"""
        t2 = chk.child_check()
        try:
            _hist_observe_raw(t2, cfg, data, h, hist_build(cfg, data, h))
        except Broken:
            raise
        except Exception as e:      # noqa - a history that cannot even be built fails
            t2.fail(("hist", "exception", type(e).__name__), None, observed=repr(e))
        return t2.violations or None

    # minimal witness: shortest failing prefix, then drop every event that is not needed
    pre, v2 = tuple(hist), viol
    for i in range(len(hist)):
        got = failing(tuple(hist[:i]))
        if got:
            pre, v2 = tuple(hist[:i]), got
            break
    i = 0
    while i < len(pre) - 1:
        cand = pre[:i] + pre[i + 1:]
        got = failing(cand)
        if got:
            pre, v2 = cand, got
        else:
            i += 1
    rels = []
    for v in v2.values():
        sg = v["sig"]
        rels.append((sg[0].split("|")[-1], sg[1] if sg[1] != "exception" else "|".join(sg[1:])))
    names = sorted(set(r for _, r in rels))
    primary = next((r for r in REL_PRIORITY if r in names), names[0])
    culprit = "constructed"
    if pre:
        kind, arg = pre[-1]
        culprit = EVENT_NAME.get(kind, "touch_%s" % arg)
    first = sorted(v2.values(), key=lambda v: (v["sig"][1] != primary, v["sig"]))[0]
    cls_name = "extint" if cfg["chan"] == "ext" else "plain"
    bad = [arg for kind, arg in pre if kind == "bad"]
    if bad:
        # INVALID_CALL_POLICY rule 2: the inputs were re-established by valid calls, yet a relation
        # of the property fails afterwards
        sig = ("after_invalid_call", "%s:invalid_%s_calls" % (cls_name, bad[-1]), primary)
    else:
        sig = ("hist", cls_name, "wrong_after_" + culprit, primary)
    chk.fail(sig,
             dict(cfg, hist=[list(e) for e in pre]), observed=first["observed"],
             expected=first["expected"],
             msg="minimal failing sub-history of %r; failing relations: %s"
                 % ([list(e) for e in hist], sorted(set("%s:%s" % r for r in rels))))


def _hist_observe_raw(chk, cfg, data, hist, st):
    """all state-dependent relations for the CURRENT state against the first-principles oracle"""
    m = hist_model(hist)
    ext = cfg["chan"] == "ext"
    for name, raised, same in st.soft:
        # tools/INVALID_CALL_POLICY.md rule 1: recorded, never judged
        chk.outcome("invalid_call", (name, "raised:%s" % raised if raised else "accepted",
                                     "object_unchanged" if same else "object_changed"))
        chk.count("invalid_calls_made")
    if st.unknown & {"H", "PL", "noise"}:
        # the channel object was changed by an invalid call and not re-established by valid calls
        chk.count("hist_observations_skipped_channel_not_reestablished")
        return (m["mem"], m["pl"], m["noise"], "channel state unknown")
    Hraw = data["H"][m["mem"]]
    if getattr(st, "raw_learnt", None) is not None:
        Hraw = st.raw_learnt
        chk.outcome("randomize_seam", "bypassed: raw channel learnt from big_H")
    inp = dict(K=data["K"], ntE=data["ntE"], Hraw=Hraw, PL=data["PL"][m["pl"]],
               F=data["F"]["a"], Fjp=data["Fjp"], U=data["U"])
    mk = (m["mem"], m["pl"], m["noise"], m["F"], m["W"], m["P"], m["cached"], m["stale"])
    sub = dict(cfg, hist=[list(e) for e in hist], noise=H_NOISES[m["noise"]], pl=m["pl"],
               fmode="hist", wmode="hist", int_layout=False, model_key=repr(mk))
    cname = "chan_plain" if not ext else "chan_extint"
    for var, pe in (("IC", 0.5 if ext else None), ("JP", None)):
        # (the filters handed to the channel object are arguments, not state: JP gets tiny ones)
        run_chan_case(dict(sub, var=var, pe=pe), chk,
                      live=dict(view="hist|%s_%s" % (cname, var), ch=st.ch,
                                inp=inp if var == "IC" else dict(inp, U=data["U_tiny"])))
    if st.unknown:
        # precoders / filters / powers damaged by an invalid call and not re-established yet
        chk.count("hist_solver_observations_skipped_inputs_not_reestablished")
        return (m["mem"], m["pl"], m["noise"], "solver inputs unknown")
    Fn, P, fullF = model_precoders(m, data)
    chk.outcome("solver_observed_after_reestablishing_inputs",
                bool(st.soft) and any(not same for _, _, same in st.soft))
    run_solver_case(dict(sub, var=None, pe=None), chk,
                    live=dict(view="hist|%s" % ("solver_extint" if ext else "solver"),
                              inp=inp, ch=st.ch, sol=st.sol, Fn=Fn, P=P, fullF=fullF,
                              W=data["W"][m["W"]], stale=m["stale"]))
    return mk


def run_hist_unit(unit, chk):
    from vmc import bfs
    cfg = {k: v for k, v in unit.items() if k != "first"}
    data = hist_data(cfg)
    evs = [tuple(e) for e in (EV_FULL if cfg["alphabet"] == "full" else EV_CORE)]
    with guard(chk, ("hist", cfg["chan"]), dict(cfg, hist=[unit["first"]] if unit["first"] else [])):
        if unit["first"] is None:
            st = hist_build(cfg, data, ())
            hist_observe(chk, cfg, data, (), st)
            chk.states += 1
            return
        observed = set()
        last = {}

        def build(hist):
            return hist_build(cfg, data, hist)

        def canon(hist, st):
            m = hist_model(hist)
            key = (m["mem"], m["pl"], m["noise"], m["F"], m["W"], m["P"], _digest_state(st),
                   frozenset(st.unknown))
            last["key"] = key
            return key

        def invariant(hist, st):
            key = last["key"]
            if key in observed:           # field-for-field identical object: same observations
                chk.count("hist_transitions_into_known_state")
                return
            observed.add(key)
            hist_observe(chk, cfg, data, hist, st)

        def enabled(hist, st):
            return evs

        b = bfs.BFS(chk, build, enabled, invariant, canon, cfg["depth"] - 1,
                    label="hist")
        b.run([(tuple(unit["first"]),)])
        chk.outcome("history_depth", (cfg["alphabet"], b.depth_reached))


def replay_hist(case, chk):
    cfg = {k: v for k, v in case.items()
           if k in ("kind", "chan", "NtE", "Nr", "Nt", "Ns", "s", "offs", "cls", "alphabet", "depth")}
    data = hist_data(cfg)
    hist = tuple((e[0], e[1]) for e in case["hist"])
    with guard(chk, ("hist", cfg["chan"]), case):
        st = hist_build(cfg, data, hist)
        hist_observe(chk, cfg, data, hist, st)


# ----------------------------------------------------------------------
# Part M: several live objects used alternately (class-level / module-level state)
# ----------------------------------------------------------------------
def multi_objects(tier):
    """label -> (configuration, two solvers on the one channel?, events of that object)"""
    offs = _offs()

    def cfg(chan, NtE, Nr, Nt, Ns, s):
        return dict(kind="hist", chan=chan, NtE=NtE, Nr=Nr, Nt=Nt, Ns=Ns, s=s, offs=offs,
                    cls="IASolverBaseClass", alphabet="multi", depth=0)
    objs = {
        "A": (cfg("plain", None, [2, 2], [2, 2], [2, 1], 0), True,
              [("pl", 1), ("noise", 2), ("touch", "IC"), ("touch", "solver"),
               ("touch", "solver2"), ("setW", "b")]),
        "C": (cfg("ext", 1, [2, 2], [2, 2], [2, 1], 1), False,
              [("pl", 2), ("noise", 3), ("touch", "IC"), ("touch", "JP"), ("touch", "solver"),
               ("setBoth", "b")]),
        # objects of the same class AND shape as A / C (what a cache keyed on shapes confuses)
        "D": (cfg("plain", None, [2, 2], [2, 2], [2, 1], 2), False,
              [("pl", 2), ("touch", "IC")] + ([("touch", "solver")] if tier == "thorough" else [])),
        "E": (cfg("ext", 1, [2, 2], [2, 2], [2, 1], 3), False,
              [("pl", 1), ("touch", "IC")] + ([("touch", "solver")] if tier == "thorough" else [])),
    }
    if tier == "thorough":
        objs["B"] = (cfg("ext", [1, 1], [2, 3], [3, 2], [1, 2], 0), False,
                     [("pl", 1), ("noise", 1), ("rand", 2), ("init", 1), ("touch", "IC"),
                      ("touch", "solver"), ("P", 1)])
    return objs


def multi_units(tier):
    depth = 2
    objs = multi_objects(tier)
    pairs = [[lab, list(ev)] for lab in sorted(objs) for ev in objs[lab][2]]
    yield dict(kind="multi", first=None, depth=depth)
    for pr in pairs:
        yield dict(kind="multi", first=pr, depth=depth)


def _lone_outputs(cfg, data, st):
    """a few reported values, for the bitwise comparison with a lone object"""
    ext = cfg["chan"] == "ext"
    pe = (0.5,) if ext else ()
    out = {"calc_SINR": st.ch.calc_SINR(objarr(data["F"]["a"]), objarr(data["U"]), *pe),
           "calc_JP_SINR": st.ch.calc_JP_SINR(objarr(data["Fjp"]), objarr(data["U"]), *pe),
           "solver.calc_SINR": st.sol.calc_SINR(),
           "solver.calc_sum_capacity": [np.array([st.sol.calc_sum_capacity()])]}
    if st.sol2 is not None:
        out["solver2.calc_SINR"] = st.sol2.calc_SINR()
    return out


def run_multi_sequence(seq, chk, tier):
    """seq: [(label, event), ...] executed in this order on objects that are all alive; then every
    object is compared (a) bit for bit with a lone object that saw only its own events and
    (b) with the first-principles oracle of its own model state"""
    objs = multi_objects(tier)
    case = dict(kind="multi", seq=[[lab, list(ev)] for lab, ev in seq], tier_objects=sorted(objs))
    with guard(chk, ("multi_object",), case):
        datas = {lab: hist_data(objs[lab][0]) for lab in objs}
        live = {lab: hist_new(objs[lab][0], datas[lab], objs[lab][1]) for lab in sorted(objs)}
        for lab, ev in seq:
            hist_apply(objs[lab][0], datas[lab], live[lab], tuple(ev))
        chk.count("eval_multi_object_sequences")
        # phase 1: every live object is read and checked while no other object is created
        # (constructing the lone objects first could reset shared state and hide a leak)
        outputs = {lab: _lone_outputs(objs[lab][0], datas[lab], live[lab])
                   for lab in sorted(objs, reverse=True)}
        for lab in sorted(objs):
            cfg, two, _ = objs[lab]
            data, st = datas[lab], live[lab]
            sub = tuple(tuple(ev) for l2, ev in seq if l2 == lab)
            tmp = chk.child_check()
            _hist_observe_raw(tmp, cfg, data, sub, st)
            if st.sol2 is not None:
                m2 = dict(hist_model(()), F=("unit", "b"), W="b", P=1)
                cached = stale = False
                for kind, arg in sub:
                    if (kind, arg) == ("touch", "solver2"):
                        cached = True
                    elif kind in ("pl", "init", "rand") and cached:
                        stale = True
                m = hist_model(sub)
                inp = dict(K=data["K"], ntE=data["ntE"],
                           Hraw=(st.raw_learnt if st.raw_learnt is not None
                                 else data["H"][m["mem"]]),
                           PL=data["PL"][m["pl"]], F=data["F"]["a"], Fjp=data["Fjp"], U=data["U"])
                Fn, P, fullF = model_precoders(m2, data)
                run_solver_case(dict(cfg, hist=[list(e) for e in sub], noise=H_NOISES[m["noise"]],
                                     pl=m["pl"], fmode="hist", wmode="hist", int_layout=False,
                                     model_key="solver2", var=None, pe=None), tmp,
                                live=dict(view="hist|solver2", inp=inp, ch=st.ch, sol=st.sol2,
                                          Fn=Fn, P=P, fullF=fullF, W=data["W"]["b"], stale=stale))
            state = tmp.state()
            viol = state["violations"]
            state["violations"] = {}
            chk.absorb(state)
            if viol:
                names = sorted(set(v["sig"][1] for v in viol.values()))
                primary = next((r for r in REL_PRIORITY if r in names), names[0])
                first = sorted(viol.values(), key=lambda v: (v["sig"][1] != primary, v["sig"]))[0]
                chk.fail(("multi_object", cfg["chan"], "wrong_vs_first_principles", primary),
                         dict(case, object=lab), observed=first["observed"],
                         expected=first["expected"],
                         msg="failing relations of object %s: %s"
                             % (lab, sorted(set("%s:%s" % (v["sig"][0].split("|")[-1], v["sig"][1])
                                                for v in viol.values()))))
        # phase 2: bit-for-bit comparison with lone objects that saw only their own events
        for lab in sorted(objs):
            cfg, two, _ = objs[lab]
            sub = tuple(tuple(ev) for l2, ev in seq if l2 == lab)
            lone = hist_build(cfg, datas[lab], sub, two)
            if live[lab].raw_learnt is not None or lone.raw_learnt is not None:
                # the two objects drew their own random channels: nothing makes them equal
                chk.count("multi_vs_lone_object_skipped_random_channel")
                continue
            a, b = outputs[lab], _lone_outputs(cfg, datas[lab], lone)
            for fn in a:
                chk.count("eval_multi_vs_lone_object")
                if not (len(a[fn]) == len(b[fn]) and
                        all(np.array_equal(np.asarray(x), np.asarray(y))
                            for x, y in zip(a[fn], b[fn]))):
                    chk.fail(("multi_object", cfg["chan"], "differs_from_lone_object", fn),
                             dict(case, object=lab), observed=list(a[fn]), expected=list(b[fn]))


def run_multi_unit(unit, chk):
    if "seq" in unit:                                   # replay of one stored sequence
        tier = "thorough" if "B" in unit.get("tier_objects", []) else "quick"
        run_multi_sequence([(lab, tuple(ev)) for lab, ev in unit["seq"]], chk, tier)
        return
    objs = multi_objects(chk.tier)
    pairs = [(lab, tuple(ev)) for lab in sorted(objs) for ev in objs[lab][2]]
    if unit["first"] is None:
        run_multi_sequence([], chk, chk.tier)
        return
    first = (unit["first"][0], tuple(unit["first"][1]))
    run_multi_sequence([first], chk, chk.tier)
    if unit["depth"] >= 2:
        for second in pairs:
            run_multi_sequence([first, second], chk, chk.tier)


# ----------------------------------------------------------------------
# Part 1c: sum capacity where algebraically identical formulas leave the double range
# ----------------------------------------------------------------------
CAP_BITS = 1100.0        # the "large" cases must carry more than this (2^1024 is the double range)


def capacity_cases(tier):
    """(a) many streams at ordinary SINR: K = 40 users x 3 streams, weak cross links;
    (b) the same network drowned in noise: 120 streams at SINR 1e-6 / 1e-20 (1 + SINR rounds);
    (c) few streams at extreme SINR: K = 12 isolated links (cross blocks exactly zero, or path loss
        exactly zero off the diagonal), one stream each, noise 1e-30 / 1e-300."""
    offs = _offs()
    members = range(2) if tier == "thorough" else range(1)
    for s in members:
        base = dict(kind="capacity", s=s, offs=offs, cls="IASolverBaseClass")
        for K in ((40, 64) if tier == "thorough" else (40,)):
            for noise in (1e-4, 1e6, 1e20):
                yield dict(base, form="many_streams", K=K, N=4, Ns=3, noise=noise)
        for iso in ("zero_blocks", "zero_pathloss"):
            for noise in (1e-30, 1e-300):
                yield dict(base, form="isolated_links", K=12, N=2, Ns=1, noise=noise, iso=iso)


def run_capacity_case(case, chk):
    view = "capacity_" + case["form"]
    with guard(chk, (view,), case):
        from pyphysim.channels import multiuser
        from pyphysim.ia.iabase import IASolverBaseClass
        from pyphysim.util import misc
        K, N, ns = case["K"], case["N"], case["Ns"]
        Nr = [N] * K
        H = gen(case, 21, 0, (K * N, K * N))
        PL = None
        isolated = case["form"] == "isolated_links"
        if isolated and case["iso"] == "zero_blocks":
            for i in range(K):
                for j in range(K):
                    if i != j:
                        H[i * N:(i + 1) * N, j * N:(j + 1) * N] = 0.0
        elif isolated:
            PL = np.eye(K)
        else:
            PL = np.full((K, K), 1e-6) + (1.0 - 1e-6) * np.eye(K)     # weak cross links
        F = _unit([gen(case, 22, 2 + k, (N, ns)) for k in range(K)])
        # receive filters near the matched filter (keeps W^H H F well conditioned for 120+ streams)
        W = [H[k * N:(k + 1) * N, k * N:(k + 1) * N] @ F[k] + 0.3 * gen(case, 23, 200 + k, (N, ns))
             for k in range(K)]
        ch = multiuser.MultiUserChannelMatrix()
        ch.init_from_channel_matrix(np.array(H, copy=True), N, N, K)      # Nr / Nt as ints
        if PL is not None:
            ch.set_pathloss(np.array(PL, copy=True))
        ch.noise_var = case["noise"]
        sol = IASolverBaseClass(ch)
        sol.set_precoders(F=[np.array(m_) for m_ in F])
        sol.set_receive_filters(W=[np.array(m_) for m_ in W])
        chk.count("eval_capacity_cases")

        # first principles (own zero-forcing full filter, scalar sums)
        ref = Ref(Nr, Nr, [], H, PL, case["noise"], 0.0)
        Ufull, conds = [], []
        for k in range(K):
            Uk, cd = oracle_full_filter(ref, F, W, k)
            Ufull.append(Uk)
            conds.append(SOLVE_SAFETY * cd)
        ref_sinr, parts = ref.sinr(F, Ufull, False)
        n = K * ns
        want = 0.0
        for k in range(K):
            for l in range(ns):
                want += math.log2(1.0 + ref_sinr[k][l])
        regime = ("above_%d_bits" % CAP_BITS if want > CAP_BITS else
                  "one_plus_sinr_rounds_to_one" if max(max(r) for r in ref_sinr) < EPS else "other")
        chk.outcome("capacity_regime", (case["form"], regime))
        chk.outcome("capacity_streams", n)
        chk.nontriv(("capacity", case["form"], K, repr(case["noise"]), case.get("iso"), case["s"]))

        got = sol.calc_SINR()
        if not check_shape(chk, view, "calc_SINR", case, got, [ns] * K):
            return
        # with isolated links and one stream the interference part is exactly zero: nothing cancels
        kap = [[1.0 if isolated else kappa_of(parts[k][l]) * conds[k] for l in range(ns)]
               for k in range(K)]
        # a relative SINR error e moves log2(1+SINR) by at most e/ln 2 bits: the capacity relation
        # stays meaningful for much larger cancellation factors than a single SINR does
        comparable = all(v < 1e10 for row in kap for v in row)
        if True:
            for k in range(K):
                for l in range(ns):
                    if not kap[k][l] < KAPPA_MAX:
                        chk.count("excluded_kappa_capacity_case_streams")
                        continue
                    ok, ne = sinr_close(float(got[k][l]), ref_sinr[k][l], kap[k][l])
                    if not ok:
                        chk.fail((view, "calc_SINR_vs_first_principles"), case,
                                 observed="SINR[%d][%d]=%r" % (k, l, float(got[k][l])),
                                 expected=ref_sinr[k][l], msg="normalized error %.3g" % ne)
            chk.count("eval_calc_SINR_vs_first_principles", n)
        if not comparable:
            chk.count("excluded_kappa_capacity_case")

        # every capacity-like public accessor: finite, the sum of log2(1 + SINR)
        flat = np.hstack([np.asarray(got[k], dtype=float) for k in range(K)])
        own = 0.0
        for v in flat.tolist():
            own += math.log2(1.0 + v)
        tol_own = (64 + n) * EPS * max(1.0, abs(own))
        tol_ref = C_TOL * EPS * abs(want)
        for k in range(K):
            for l in range(ns):
                x = ref_sinr[k][l]
                tol_ref += C_TOL * EPS * (kap[k][l] * x / (1.0 + x) + 1.0) / math.log(2.0)
        for name, value in (("calc_sum_capacity", sol.calc_sum_capacity()),
                            ("calc_shannon_sum_capacity", misc.calc_shannon_sum_capacity(flat))):
            chk.count("eval_capacity_accessor_at_scale")
            if not math.isfinite(float(value)):
                chk.fail((view, name, "not_finite", regime), case, observed=value,
                         expected="%r (finite: sum of log2(1+SINR) over %d streams)" % (own, n))
                continue
            if not abs(float(value) - own) <= tol_own:
                chk.fail((view, name, "is_sum_log2_of_calc_SINR", regime), case, observed=value,
                         expected=own)
            if comparable and not abs(float(value) - want) <= tol_ref:
                chk.fail((view, name, "vs_first_principles", regime), case, observed=value,
                         expected=want)
        dB = sol.calc_SINR_in_dB()
        if check_shape_db(chk, view, case, dB, [ns] * K):
            for k in range(K):
                for l in range(ns):
                    o = 10.0 * math.log10(float(got[k][l]))
                    if abs(float(dB[k][l]) - o) > 64 * EPS * max(1.0, abs(o)):
                        chk.fail((view, "calc_SINR_in_dB", "is_10log10_of_calc_SINR"), case,
                                 observed=float(dB[k][l]), expected=o)


# ----------------------------------------------------------------------
# Part L: histories that change the antenna LAYOUT of one channel object after a path loss was set
# ----------------------------------------------------------------------
# All layouts have the same total numbers of rx / tx antennas (5 x 5), so every matrix derived from
# the old layout still has the right SHAPE: L0 -> L1 same K other split, L0 -> L2 other K same
# totals, L3 other split on one side only.
L_LAYOUTS = [([2, 3], [3, 2], [2, 2]), ([3, 2], [2, 3], [2, 2]), ([2, 2, 1], [1, 2, 2], [1, 2, 1]),
             ([2, 3], [2, 3], [2, 1])]
L_EVENTS_QUICK = [("pl", 1), ("init", 1), ("init", 2), ("rand", 1), ("touch", "JP"), ("touch", "IC")]
L_EVENTS_THOROUGH = L_EVENTS_QUICK + [("pl", 2), ("pl", 0), ("init", 3), ("rand", 0), ("rand", 2),
                                      ("noise", 2)]
L_EVENT_NAME = {"pl": "set_pathloss", "init": "init_from_channel_matrix_other_layout",
                "rand": "randomize_other_layout", "touch": "touch", "noise": "noise_var"}


def layout_units(tier):
    evs = L_EVENTS_THOROUGH if tier == "thorough" else L_EVENTS_QUICK
    depth = 3
    for chan, NtE in (("plain", None), ("ext", 1)) + ((("ext", [1, 1]),) if tier == "thorough" else ()):
        base = dict(kind="layout", chan=chan, NtE=NtE, s=0, offs=_offs(), depth=depth)
        yield dict(base, first=None)
        for ev in evs:
            yield dict(base, first=list(ev))


def layout_data(cfg):
    ntE = nte_list(cfg)
    H = {j: gen(cfg, 21, 60 + j, (5, 5 + sum(ntE))) for j in range(8)}     # member per (event, layout)
    PL = {}
    for K in (2, 3):
        PL[K] = {0: None}
        for i, idx in ((1, 1), (2, 5)):
            g = gen(cfg, 24, idx + 10 * K, (K, K + len(ntE)))
            PL[K][i] = 0.02 + 1.3 * (np.abs(g) - 0.1) ** 2
    lay = []
    for j, (Nr, Nt, Ns) in enumerate(L_LAYOUTS):
        K = len(Nr)
        lay.append(dict(Nr=Nr, Nt=Nt, Ns=Ns, K=K,
                        F=[gen(cfg, 22, 70 + 8 * j + k, (Nt[k], Ns[k])) for k in range(K)],
                        Fjp=[gen(cfg, 25, 110 + 8 * j + k, (sum(Nt), Ns[k])) for k in range(K)],
                        U=[gen(cfg, 23, 150 + 8 * j + k, (Nr[k], Ns[k])) for k in range(K)]))
    return dict(ntE=ntE, H=H, PL=PL, lay=lay)


def layout_model(seq):
    """reference model: (layout, channel member, path loss id or 'unknown', noise)"""
    m = dict(lay=0, mem=0, pl=0, noise=None, last="constructed")
    for kind, arg in seq:
        if kind == "touch":
            continue
        m["last"] = L_EVENT_NAME[kind]
        if kind == "pl":
            m["pl"] = arg
        elif kind == "noise":
            m["noise"] = H_NOISES[arg]
        else:
            newK = len(L_LAYOUTS[arg][0])
            if newK != len(L_LAYOUTS[m["lay"]][0]) and m["pl"] != 0:
                m["pl"] = "unknown"      # a K x K path loss cannot describe the new number of users:
                #                          the user has to set a new one (nothing is required before)
            m["lay"] = arg
            m["mem"] = arg + (4 if kind == "rand" else 0)
    return m


def layout_build(cfg, data, seq):
    from pyphysim.channels import multiuser
    from vmc import seams
    ext = cfg["chan"] == "ext"
    NtE_arg = _nte_arg(cfg)
    ch = multiuser.MultiUserChannelMatrixExtInt() if ext else multiuser.MultiUserChannelMatrix()
    pe = (0.5,) if ext else ()

    def init(j, mem):
        L = data["lay"][j]
        args = (np.array(data["H"][mem], copy=True), np.array(L["Nr"]), np.array(L["Nt"]), L["K"])
        ch.init_from_channel_matrix(*(args + ((NtE_arg,) if ext else ())))

    init(0, 0)
    learnt = {"raw": None, "pending": False}     # raw channel when randomize bypassed the seam

    def learn(m_now):
        """raw = big_H with the model's path loss divided out (only while that path loss is known)"""
        if m_now["pl"] == "unknown":
            learnt["pending"] = True
            return
        Ln = data["lay"][m_now["lay"]]
        learnt["raw"] = np.asarray(ch.big_H) / pl_factor(
            Ln["Nr"], list(Ln["Nt"]) + list(data["ntE"]), data["PL"][Ln["K"]][m_now["pl"]])
        learnt["pending"] = False

    for i, (kind, arg) in enumerate(seq):
        m = layout_model(seq[:i])
        L = data["lay"][m["lay"]]
        if kind == "pl":
            PLm = data["PL"][L["K"]][arg]
            if PLm is None:
                ch.set_pathloss(None)
            elif ext:
                ch.set_pathloss(np.array(PLm[:, :L["K"]], copy=True),
                                np.array(PLm[:, L["K"]:], copy=True))
            else:
                ch.set_pathloss(np.array(PLm, copy=True))
            if learnt["pending"]:
                learn(layout_model(seq[:i + 1]))
        elif kind == "noise":
            ch.noise_var = H_NOISES[arg]
        elif kind == "init":
            learnt["raw"], learnt["pending"] = None, False
            init(arg, arg)
        elif kind == "rand":
            L2 = data["lay"][arg]
            calls = [0]
            learnt["raw"], learnt["pending"] = None, False

            def fake(_rs, *shape, H2=data["H"][arg + 4]):
                calls[0] += 1
                if tuple(int(v) for v in shape) != H2.shape:
                    return _ORIG_RANDN_C_RS[0](_rs, *shape)
                return np.array(H2, copy=True)
            _ORIG_RANDN_C_RS[0] = getattr(multiuser, "randn_c_RS", None)
            seed_channel(ch, 2000 + arg)
            with seams.patched((multiuser, "randn_c_RS", fake)):
                a_ = (np.array(L2["Nr"]), np.array(L2["Nt"]), L2["K"])
                ch.randomize(*(a_ + ((NtE_arg,) if ext else ())))
            if calls[0] == 0:
                learn(layout_model(seq[:i + 1]))
        elif kind == "touch":
            try:
                if arg == "IC":
                    ch.calc_SINR(objarr(L["F"]), objarr(L["U"]), *pe)
                else:
                    ch.calc_JP_SINR(objarr(L["Fjp"]), objarr(L["U"]), *pe)
                    ch.calc_JP_Q(0, objarr(L["Fjp"]), *pe)
            except Exception:       # noqa
                if m["pl"] != "unknown":
                    raise
    holder = HistState()
    holder.ch, holder.raw_learnt = ch, learnt["raw"]
    return holder


def _layout_observe_raw(chk, cfg, data, seq, holder):
    ch = holder.ch
    m = layout_model(seq)
    if m["pl"] == "unknown":
        chk.count("layout_observations_skipped_pathloss_of_other_K")
        return
    L = data["lay"][m["lay"]]
    ext = cfg["chan"] == "ext"
    # ground truth independent of H / get_Hkl: the check's own copy of the unscaled matrix and of the
    # K x K (+ Ke) path loss, expanded per block by the oracle
    Hraw = data["H"][m["mem"]]
    if holder.raw_learnt is not None:
        Hraw = holder.raw_learnt
        chk.outcome("randomize_seam", "bypassed: raw channel learnt from big_H")
    inp = dict(K=L["K"], ntE=data["ntE"], Hraw=Hraw, PL=data["PL"][L["K"]][m["pl"]],
               F=L["F"], Fjp=L["Fjp"], U=L["U"])
    mk = (m["lay"], m["mem"], m["pl"], repr(m["noise"]))
    sub = dict(kind="hist", chan=cfg["chan"], NtE=cfg["NtE"], Nr=L["Nr"], Nt=L["Nt"], Ns=L["Ns"],
               s=cfg["s"], offs=cfg["offs"], cls=None, hist=[list(e) for e in seq], noise=m["noise"],
               pl=m["pl"], fmode="layout", wmode="layout", int_layout=False, model_key=repr(mk))
    cname = "chan_plain" if not ext else "chan_extint"
    for var, pe in (("IC", 0.5 if ext else None), ("JP", None)):
        run_chan_case(dict(sub, var=var, pe=pe), chk,
                      live=dict(view="layout|%s_%s" % (cname, var), ch=ch, inp=inp))
    chk.outcome("layout_history_state", (cfg["chan"], repr(cfg["NtE"])) + mk)


def run_layout_sequence(cfg, data, seq, chk):
    case = dict(cfg, seq=[list(e) for e in seq])
    with guard(chk, ("layout_history", cfg["chan"]), case):
        tmp = chk.child_check()
        _layout_observe_raw(tmp, cfg, data, seq, layout_build(cfg, data, seq))
        state = tmp.state()
        viol = state["violations"]
        state["violations"] = {}
        chk.absorb(state)
        chk.count("eval_layout_history_sequences")
        if not viol:
            return

        def failing(sq):
            t2 = chk.child_check()
            try:
                _layout_observe_raw(t2, cfg, data, sq, layout_build(cfg, data, sq))
            except Broken:
                raise
            except Exception as e:      # noqa
                t2.fail(("layout", "exception", type(e).__name__), None, observed=repr(e))
            return t2.violations or None

        pre, v2 = tuple(seq), viol
        i = 0
        while i < len(pre):
            cand = pre[:i] + pre[i + 1:]
            got = failing(cand)
            if got:
                pre, v2 = cand, got
            else:
                i += 1
        names = sorted(set(v["sig"][1] if v["sig"][1] != "exception" else "|".join(v["sig"][1:])
                           for v in v2.values()))
        primary = next((r for r in REL_PRIORITY if r in names), names[0])
        last = next((L_EVENT_NAME[k] for k, _ in reversed(pre) if k != "touch"), "constructed")
        first = sorted(v2.values(), key=lambda v: (v["sig"][1] != primary, v["sig"]))[0]
        chk.fail(("layout_history", "extint" if cfg["chan"] == "ext" else "plain",
                  "wrong_after_" + last, primary), dict(cfg, seq=[list(e) for e in pre]),
                 observed=first["observed"], expected=first["expected"],
                 msg="minimal failing sub-sequence of %r; failing relations: %s"
                     % ([list(e) for e in seq],
                        sorted(set("%s:%s" % (v["sig"][0].split("|")[-1], v["sig"][1])
                                   for v in v2.values()))))


def run_layout_unit(unit, chk):
    cfg = {k: v for k, v in unit.items() if k not in ("first", "seq")}
    data = layout_data(cfg)
    if "seq" in unit:                                   # replay
        run_layout_sequence(cfg, data, tuple(tuple(e) for e in unit["seq"]), chk)
        return
    evs = L_EVENTS_THOROUGH if chk.tier == "thorough" else L_EVENTS_QUICK
    if unit["first"] is None:
        run_layout_sequence(cfg, data, (), chk)
        return
    first = tuple(unit["first"])
    for n in range(cfg["depth"]):
        for rest in itertools.product(evs, repeat=n):
            run_layout_sequence(cfg, data, (first,) + tuple(rest), chk)


# ----------------------------------------------------------------------
def run_case(case, chk):
    if case["kind"] == "layout":
        run_layout_unit(case, chk)
    elif case["kind"] == "capacity":
        run_capacity_case(case, chk)
    elif case["kind"] == "multi":
        run_multi_unit(case, chk)
    elif case["kind"] == "hist":
        if "hist" in case:
            replay_hist(case, chk)
        else:
            run_hist_unit(case, chk)
    elif case["kind"] == "chan":
        run_chan_case(case, chk)
    else:
        run_solver_case(case, chk)


def main(chk: Check):
    chk.assume("an IA solver bound to MultiUserChannelMatrixExtInt has no external-interference "
               "power argument: the library default pe = 1 (which the solver's own calc_Q passes "
               "on to the channel object) is taken as the power it reports for")
    chk.assume("calc_SINR_old is documented as deprecated and 'not the correct way to calculate "
               "the SINR'; it is compared only where its formula coincides with the definition "
               "(K=2, one stream per user, unit powers)")
    chk.assume("Part 1 builds a fresh channel object per case (init_from_channel_matrix, then "
               "set_pathloss, then noise_var); object reuse is covered by Part H: every event "
               "history up to the stated depth over ONE channel object and ONE bound solver, with "
               "all SINR / Q / covariance / dB / capacity relations evaluated in every reached state")
    chk.assume("Part H: a solver is not notified when its channel object changes; when its derived "
               "full_W_H was cached before a channel change (solver touch, then set_pathloss / "
               "init / randomize, no solver setter in between) the reported SINR is compared with "
               "first principles for the filter the solver itself reports (counted as "
               "hist_solver_observations_with_reported_filter); precoders, powers, channel, path "
               "loss and noise always come from the reference model of the history")
    chk.assume("randomize: where the implementation draws through multiuser.randn_c_RS the draw is "
               "scripted (a family member); where it does not (seam call count unchanged) the raw "
               "channel is learnt from the public big_H with the model's path loss divided out and "
               "everything is judged against it; bit-for-bit comparisons with lone objects are then "
               "skipped (two objects are never made equal through seeding)")
    chk.assume("Part H: randomize is driven through the seam multiuser.randn_c_RS (scripted to "
               "return a family member); states are merged only when the digest of every attribute "
               "of the real channel and solver objects (caches included) and the model state agree")
    chk.assume("a stream whose first-principles denominator is exactly zero (no interferer, no "
               "external source, no noise) has no defined SINR, and one whose SINR exceeds 1e14 "
               "cannot be reported by 'total minus own-stream covariance' in double precision "
               "(the subtraction may cancel to exactly zero -> ZeroDivisionError); such cases are "
               "excluded and counted (excluded_zero_denominator)")
    chk.assume("invalid calls (Part H 'bad' events, tools/INVALID_CALL_POLICY.md): what an invalid "
               "call does (raise / accept / change the objects) is recorded as the outcome class "
               "'invalid_call' and never judged; if the objects changed, the possibly damaged parts "
               "(channel matrix, path loss, noise, precoders, filters, powers) count as unknown and "
               "the relations depending on them are not evaluated until VALID calls re-establish "
               "them; from then on every relation must hold again (signature after_invalid_call|...)")
    chk.assume("matrices are members of the closed-form generic family (two superposed members "
               "with seed-rotated offsets); streams Ns_k <= min(Nr_k, Nt_k)")
    chk.extra["tolerance_c"] = C_TOL
    chk.extra["tolerance_rule"] = ("|lib-ref| <= c*2^-52*kappa*max(|lib|,|ref|), kappa = "
                                   "(signal+denominator)/denominator [x 8 cond(W^H H_kk F) for "
                                   "solver relations through solve()]; matrices: c*2^-52*max|operand|")
    chk.extra["kappa_max"] = KAPPA_MAX
    chk.extra["filter_rescale_factors"] = [repr(f) for f in FACTORS]
    ncase = sum(1 for _ in all_cases(chk.tier))
    chk.extra["enumerated_cases"] = ncase
    chk.extra["layout_history_units"] = sum(1 for _ in layout_units(chk.tier))
    chk.extra["layout_history_layouts"] = [list(l) for l in L_LAYOUTS]
    chk.extra["capacity_scale_cases"] = sum(1 for _ in capacity_cases(chk.tier))
    chk.extra["scale_cases"] = sum(1 for _ in scale_cases(chk.tier))
    chk.extra["scale_families"] = [n for n, _ in SCALES] + [
        "noise %r" % SCALE_NOISES, "pe %r" % SCALE_PES]
    chk.extra["multi_object_units"] = sum(1 for _ in multi_units(chk.tier))
    chk.extra["multi_objects"] = {lab: [o[0]["chan"], o[0]["NtE"], o[0]["Nr"], o[0]["Nt"],
                                        "two solvers" if o[1] else "one solver"]
                                  for lab, o in multi_objects(chk.tier).items()}
    chk.extra["history_units"] = sum(1 for _ in hist_units(chk.tier))
    chk.extra["history_configurations"] = [list(c[:6]) + [c[6], "depth %d" % c[7]]
                                           for c in hist_configs(chk.tier)]

    def worker(i, n, c):
        # the (heavier) history units first so that they spread evenly over the workers
        for case in shard(itertools.chain(capacity_cases(c.tier), layout_units(c.tier),
                                          hist_units(c.tier),
                                          multi_units(c.tier), scale_cases(c.tier),
                                          all_cases(c.tier)), i, n):
            run_case(case, c)

    run_shards(chk, worker)
    decs = [k[2] for k in chk.outcomes.get("normalized_error_decade", ())]
    if decs:
        # largest observed |lib-ref| / (2^-52 * kappa * scale), as a power of ten (threshold C_TOL)
        chk.extra["max_normalized_error_decade"] = max(decs)
    it = all_cases(chk.tier)
    for case in itertools.islice(it, 0, 60, 11):
        chk.sample(case)
    chk.require_outcomes("dominant_denominator_term", 4)
    chk.require_outcomes("sinr_decade", 3)
    chk.require_outcomes("active_terms", 4)
    chk.require_outcomes("configuration", 100)
    chk.require_outcomes("history_model_state", 200)
    chk.require_outcomes("history_depth", 2)
    # every (entry point) x (boundary value of pe) x (noise_var kind) cell is populated in every tier
    cells = chk.outcomes.get("cell", set())
    missing = []
    for acc in ("calc_SINR", "calc_JP_SINR", "calc_Q", "calc_JP_Q",
                "calc_cov_matrix_extint_plus_noise", "calc_cov_matrix_extint_without_noise"):
        for pe in PE_BOUNDARY + (None,):
            for noise in NOISE_BOUNDARY:
                c = ("MultiUserChannelMatrixExtInt", acc, "pe=%r" % (pe,), "noise_var=%r" % (noise,))
                if c not in cells:
                    missing.append(c)
    for acc in ("calc_SINR", "calc_JP_SINR", "calc_Q", "calc_JP_Q"):
        for noise in NOISE_BOUNDARY:
            c = ("MultiUserChannelMatrix", acc, "-", "noise_var=%r" % (noise,))
            if c not in cells:
                missing.append(c)
    for host in ("MultiUserChannelMatrix", "MultiUserChannelMatrixExtInt"):
        for acc in ("calc_SINR", "calc_sum_capacity", "calc_SINR_in_dB", "calc_Q"):
            for noise in NOISE_BOUNDARY:
                c = ("solver on " + host, acc, "-", "noise_var=%r" % (noise,))
                if c not in cells:
                    missing.append(c)
    if missing:
        raise Broken("vacuous: %d (entry point x option value) cells not populated, e.g. %r"
                     % (len(missing), missing[:3]))
    chk.extra["axes"] = {
        "entry points (channel object)": ["calc_SINR", "calc_JP_SINR", "calc_Q", "calc_JP_Q",
                                          "B_kl helpers", "calc_cov_matrix_extint_plus_noise",
                                          "calc_cov_matrix_extint_without_noise"],
        "entry points (solver)": ["calc_SINR", "calc_SINR_in_dB", "calc_sum_capacity", "calc_Q"],
        "pe": [repr(v) for v in PE_BOUNDARY] + ["omitted (default 1.0)", "4.0", "1e-12"],
        "noise_var": [repr(v) for v in NOISE_BOUNDARY] + ["2.0", "0.0", "1e-20", "int / np.int64 / "
                                                          "np.float32 presentations of 2"],
        "cells": "every entry point x every pe x every noise_var of the boundary lists is required "
                 "(BROKEN otherwise); %d distinct cells populated" % len(cells),
    }
    chk.require_outcomes("layout_history_state", 12)
    regimes = chk.outcomes.get("capacity_regime", set())
    for need in (("many_streams", "above_%d_bits" % CAP_BITS),
                 ("isolated_links", "above_%d_bits" % CAP_BITS),
                 ("many_streams", "one_plus_sinr_rounds_to_one")):
        if need not in regimes:
            from vmc.report import Broken
            raise Broken("vacuous: capacity regime %r not reached (%r)" % (need, sorted(regimes)))
    chk.require_outcomes("invalid_call", 10)
    chk.require_outcomes("solver_observed_after_reestablishing_inputs", 2)
    if not chk.counters.get("eval_multi_object_sequences", 0) >= 100:
        from vmc.report import Broken
        raise Broken("vacuous: multi-object sequences not executed")
    chk.require_outcomes("denominator_decade", 30)
    if not chk.counters.get("streams_with_nonzero_denominator_below_2^-52", 0) >= 1000:
        from vmc.report import Broken
        raise Broken("vacuous: scale families do not reach denominators below machine epsilon")


def replay(case, chk: Check):
    case = dict(case)
    case.pop("k", None)
    run_case(case, chk)
