#!/usr/bin/env python3
"""Run the repository's pinned test suite in REPO (default /repo) and compare
with the stable baseline of /root/.vp/BASELINE.json (falls back to the copy in
/verif/tools/BASELINE.stable.json).  Exit 0 iff every stable test passes.

usage: tools/baseline.py [REPO]
"""
import json
import os
import subprocess
import sys
import tempfile
import xml.etree.ElementTree as ET

here = os.path.dirname(os.path.abspath(__file__))
repo = os.path.abspath(sys.argv[1]) if len(sys.argv) > 1 else "/repo"
src = "/root/.vp/BASELINE.json"
if os.path.exists(src):
    stable = set(json.load(open(src))["stable_pass"])
else:
    stable = set(json.load(open(os.path.join(here, "BASELINE.stable.json"))))
with tempfile.TemporaryDirectory() as td:
    xml = os.path.join(td, "j.xml")
    env = dict(os.environ, PYTHONDONTWRITEBYTECODE="1")
    for k in ("PYPHYSIM_VERIF", "VERIF_REPO"):
        env.pop(k, None)
    p = subprocess.run(["/venv/bin/python", "-B", "-m", "pytest", "-ra", "-q", "-p", "no:cacheprovider",
                        "--timeout=900", "--continue-on-collection-errors", "--junitxml=" + xml],
                       cwd=repo, env=env, stdout=subprocess.PIPE, stderr=subprocess.STDOUT, text=True)
    passed = set()
    if os.path.exists(xml):
        for tc in ET.parse(xml).getroot().iter("testcase"):
            ok = not any(ch.tag in ("failure", "error", "skipped") for ch in tc)
            if ok:
                passed.add("%s::%s" % (tc.get("classname"), tc.get("name")))
missing = sorted(stable - passed)
# the suite draws unseeded random channels in a few tests: a stable test that fails once
# is re-run on its own (up to 3 times) before it counts as not passing
flaky = []
for m in list(missing)[:10]:
    mod, _, rest = m.partition("::")
    parts = mod.split(".")
    nodeid = "/".join(parts[:-1]) + ".py::" + parts[-1] + "::" + rest
    ok = 0
    for _ in range(3):
        r = subprocess.run(["/venv/bin/python", "-B", "-m", "pytest", "-q", "-p", "no:cacheprovider", nodeid],
                           cwd=repo, stdout=subprocess.PIPE, stderr=subprocess.STDOUT, text=True)
        ok += (r.returncode == 0)
    if ok == 3:
        flaky.append(m)
        missing.remove(m)
if flaky:
    print("flaky (failed once in the full run, passed 3/3 on re-run):", flaky)
print("baseline: %d stable tests, %d passed now, %d stable tests NOT passing"
      % (len(stable), len(passed), len(missing)))
for m in missing[:40]:
    print("  NOT PASSING:", m)
if missing:
    print(p.stdout[-3000:])
sys.exit(1 if missing else 0)
