"""C02 - OFDM round trip and exact one-tap equalisation when the CP covers the channel.

E1 (exhaustive product enumeration on the real implementation) + E3 (BFS over
short operation histories of ONE reused OFDM / equaliser / channel object):

Part P (parameters): every triple (fft, cp, used) of a small integer grid that
  also contains all the *invalid* neighbours (negative / too large cp, odd /
  too small / too large used, used=None, fft in {-1,0,1}) through the
  constructor and through `set_parameters`: valid => accepted with the
  attributes stored.  The property quantifies over VALID triples only, so an
  invalid call is free (raise anything / be accepted: recorded as an outcome);
  required is coherence afterwards (tools/INVALID_CALL_POLICY.md): if the triple
  the object REPORTS is valid all relations hold for it and it equals a fresh
  object, otherwise the next valid set_parameters restores correct behaviour.
Part R (round trip): every valid (fft, cp, used) of the tier x the six input
  lengths {1, used-1, used, used+1, 2 used, 2 used+3} x six input forms
  (contiguous complex128, strided view, negative-stride view, complex64,
  int64, float64; the received signal is presented in the same layout):
  (1) demodulate(modulate(x)) == x ++ zeros, length ceil(n/used)*used;
  (2) len(tx) == nsym*(fft+cp); (3) every prefix equal, sample by sample, to
  the tail of its symbol; (4) used < fft: an O(N^2) reference DFT (matrix of
  exp(-2 pi j (k m mod N)/N), no FFT) of every symbol body has no energy at
  bin 0 and at the guard bins; inputs are not modified; a second call with the
  SAME array object whose content the caller changed in place uses the new
  content and earlier results are not changed by it.
Part C (channel): every valid (fft, cp, used) x tap-delay sets inside {0..cp}
  (1..3 taps) x tap powers from {0,-3,-10} dB x seeded time-invariant
  realisations (real TdlChannel driven by JakesSampleGenerator(Fd=0, Ts=1,
  RS=RandomState(recorded seed))) x input lengths {used+1, 2 used+3} (thorough,
  full alphabet: also 1):
  (5) equalize_data(demodulate(rx[:len(tx)]), reported impulse response)
      == x ++ zeros with tolerance ~ max|H|/min|H| (H = frequency response the
      check derives from the *reported* taps by a direct sum, aliasing
      included); realisations with min|H_k| < 1e-3 on a used bin are excluded
      and counted.
Part H (histories, BFS): ONE OFDM object with an OfdmOneTapEqualizer bound to it
  at creation and ONE TdlChannel; events = set_parameters(valid triple) /
  set_parameters(invalid) / attribute assignments that keep the triple valid /
  reads (get_used_subcarrier_indexes, modulate, demodulate) / a transmission
  through the reused channel.  After EVERY event: all Part-R relations for the
  CURRENT parameters on the live object, bit-exact differential against a fresh
  object, equalisation through the reused channel with the bound equaliser, and
  get_freq_response of the previously reported impulse-response object at
  several fft sizes against the direct sum.
"""
import itertools
import math

import numpy as np

from vmc import bfs, common, numerics
from vmc.parallel import run_shards, shard
from vmc.report import Broken, Check

PID = "C02"
LEVEL = "exploration"
ENGINE = "E1 exhaustive product enumerator + E3 BFS over reuse histories of one OFDM/equaliser/channel object"
RULE = ("P: every (fft, cp, used) of the integer grid fft in -1..Fp, cp in -2..fft+2, used in "
        "{None} U -2..fft+2, via constructor and via set_parameters (valid => accepted and stored; invalid "
        "=> outcome only, then coherence of the object for the triple it reports). R: every valid (fft, cp in 0..fft, even used in 2..fft) of the tier x "
        "input lengths {1, used-1, used, used+1, 2used, 2used+3} x input forms {complex128, strided, "
        "reversed view, complex64, int64, float64}, symbols x_k=(1+k/8)e^{j(0.7k+c)} (k+1 resp. 1+k/8 "
        "for the real forms): round trip, output length, prefix==tail sample by sample, O(N^2)-DFT "
        "energy on DC/guard bins, inputs unmodified, in-place re-use of the argument array. "
        "C: configurations x tap-delay sets of 1..3 taps inside {0..cp} (ALL such subsets for "
        "fft <= F_full, otherwise all subsets of the boundary delays {0,1,cp//2,cp-1,cp}) x tap powers "
        "from {0,-3,-10} dB (all tuples up to a common shift for fft <= F_full, 1/4/4 tuples otherwise) "
        "x seeded static realisations x input lengths {used+1, 2used+3} (thorough, fft <= F_full: also 1): "
        "equalised demodulated data == input ++ zeros. "
        "H: every event sequence up to the depth bound on one object (states merged by whole-object "
        "digest only beyond depth 1), all relations after every event. "
        "Non-trivial: R with n > 1; C with a tap at non-zero delay; H with >= 1 event. Distinct = distinct "
        "(fft, cp, used, n, form) resp. (fft, cp, used, delay set) resp. history")

# ---- tolerance constants (DESIGN 2.4: |lhs-rhs| <= c * 2^-52 * kappa * scale) ----------
C_RT = 1e4        # round trip, kappa = 1 (kappa = 2^29 when the received signal is complex64)
C_DFT = 1e2       # reference-DFT energy test, kappa = N (O(N^2) summation)
C_EQ = 1e4        # equalised symbols, kappa = max(1, max|H|) / min|H| on the used bins
NULL_THR = 1e-3   # realisations with min|H_k| below this on a used bin are excluded (counted)
POWERS_DB = (0.0, -3.0, -10.0)
JAKES_L = 8
PREPASS_MAX_FFT = 4   # these configurations run serially in the parent first -> smallest witnesses
FORMS = ("c128", "strided", "reversed", "c64", "int64", "float64", "zeros", "zero_head")


# ----------------------------------------------------------------------
# alphabets
# ----------------------------------------------------------------------
def tier_params(tier):
    if tier == "thorough":
        return dict(F_all=24, F_full=10, Fp=26,
                    big=[(fft, cp, used) for fft in (32, 64, 128) for cp in range(fft + 1)
                         for used in sorted({2, fft // 2, fft - 2, fft})] + [(64, 16, 52)],
                    ch_lengths_full="three", ch_lengths_boundary="two",
                    nreal_full=3, nreal_full_3taps=2, nreal_boundary=2, ch_used_16=None, ch_cp_16=None,
                    ch_skip=(), hist_depth=4)
    return dict(F_all=8, F_full=6, Fp=10,
                big=[(16, cp, used) for cp in range(17) for used in range(2, 17, 2)] + [(64, 16, 52)] +
                    [(15, cp, used) for cp in (0, 4, 15) for used in (2, 8, 14)] +
                    [(64, 64, 64), (64, 0, 2), (63, 63, 62), (63, 16, 52), (128, 128, 128), (128, 32, 100),
                     (128, 0, 126), (127, 127, 126), (127, 9, 2)],
                ch_lengths_full="two", ch_lengths_boundary="two",
                nreal_full=2, nreal_full_3taps=1, nreal_boundary=2, ch_used_16=(2, 8, 14, 16),
                ch_cp_16=(0, 1, 8, 16), ch_skip=((64, 0, 2), (63, 16, 52), (128, 0, 126), (127, 9, 2)),
                hist_depth=3)


def configs(tier):
    """valid (fft, cp, used), simplest first"""
    p = tier_params(tier)
    out = []
    for fft in range(2, p["F_all"] + 1):
        for cp in range(fft + 1):
            for used in range(2, fft + 1, 2):
                out.append((fft, cp, used))
    seen = set(out)
    for c in p["big"]:
        if c not in seen:
            seen.add(c)
            out.append(c)
    return out


def channel_configs(tier):
    p = tier_params(tier)
    for cfg in configs(tier):
        if cfg[0] == 16 and p["ch_used_16"] is not None and (
                cfg[2] not in p["ch_used_16"] or cfg[1] not in p["ch_cp_16"]):
            continue
        if cfg in p["ch_skip"]:         # Part R only
            continue
        yield cfg


def lengths(used):
    """0 = empty input: legitimate (no OFDM symbol, empty output)"""
    return sorted({0, 1, used - 1, used, used + 1, 2 * used, 2 * used + 3} - {-1})


def channel_lengths(used, which):
    if which == "all":
        return [n for n in lengths(used) if n > 0]
    if which == "three":
        return [1, used + 1, 2 * used + 3]
    return [used + 1, 2 * used + 3]     # 2 symbols with padding; >= 3 symbols with padding


def _canonical_power_tuples(k):
    """all tuples of POWERS_DB^k that are not a common shift of another tuple of the set
    (the profile normalises the total power, so a common shift is the same channel)"""
    allt = list(itertools.product(POWERS_DB, repeat=k))
    sett = set(allt)
    out = []
    for t in allt:
        m = max(t)
        sh = tuple(v - m for v in t)
        if m != 0.0 and sh in sett:
            continue
        out.append(t)
    return out


NINF = float("-inf")              # a tap of exactly zero power: reported tap value 0
_POW_FULL = {k: _canonical_power_tuples(k) for k in (1, 2, 3)}          # 1 / 7 / 25 tuples
_POW_FULL[2] = _POW_FULL[2] + [(0.0, NINF), (NINF, 0.0)]               # + zero-power taps: 1 / 9 / 26
_POW_FULL[3] = _POW_FULL[3] + [(0.0, NINF, -3.0)]
_POW_BOUNDARY = {1: [(0.0,)],
                 2: [(0.0, 0.0), (0.0, -10.0), (-10.0, 0.0), (0.0, NINF), (NINF, 0.0)],
                 3: [(0.0, 0.0, 0.0), (0.0, -3.0, -10.0), (-10.0, -3.0, 0.0), (0.0, NINF, -3.0)]}
PROFILE_FORMS = ("raw", "profile_object", "discretized_profile")


def delay_sets(cp, full):
    base = list(range(cp + 1)) if full else sorted(
        d for d in {0, 1, cp // 2, cp - 1, cp} if 0 <= d <= cp)
    for k in (1, 2, 3):
        for c in itertools.combinations(base, k):
            yield c


# histories: triples chosen so that consecutive ones share one or two of the three numbers
H_TRIPLES = [(4, 1, 2), (8, 1, 2), (8, 1, 4), (4, 1, 4), (8, 3, 6), (7, 3, 2), (5, 0, 4), (16, 1, 2)]
H_ATTRS = ([("fft_size", v) for v in (4, 5, 7, 8, 16)] + [("cp_size", v) for v in (0, 1, 3)] +
           [("num_used_subcarriers", v) for v in (2, 4, 6)])
H_INVALID = ((8, 9, 4), (16, 0, 5))     # invalid cp; valid fft/cp with an odd used count
H_READS = ("idx", "mod", "demod", "tx")
H_CH_DELAYS = (0, 1)
H_CH_POWERS = (0.0, -3.0)
H_ROOTS = (0, 2, 4, 6)          # BFS roots: (4,1,2) (8,1,4) (8,3,6) (5,0,4); all triples are set-events
H_FREQ_SIZES = (8, 2, 16)
# several live objects used alternately (used == fft -> constructed with num_used_subcarriers=None)
M_TRIPLES = [(4, 1, 2), (8, 1, 4), (8, 3, 6), (5, 2, 2), (7, 3, 4), (6, 0, 4), (8, 8, 8), (16, 16, 16), (9, 9, 8)]


def units(tier):
    """deterministic list of work units, simplest first"""
    p = tier_params(tier)
    for fft in range(-1, p["Fp"] + 1):
        yield ("par", fft)
    for i in H_ROOTS:
        yield ("hist", (0, 0, 0), i)
    for i in range(len(M_TRIPLES)):
        for j in range(i + 1, len(M_TRIPLES)):
            yield ("pair", (0, 0, 0), i, j)
    for cfg in configs(tier):
        yield ("rt", cfg)
    for cfg in channel_configs(tier):
        full = cfg[0] <= p["F_full"]
        for ds in delay_sets(cfg[1], full):
            yield ("ch", cfg, ds, full)


def rs_seed(seed, r):
    return 1000 * int(seed) + r


# ----------------------------------------------------------------------
# reference model
# ----------------------------------------------------------------------
def syms(n, off):
    k = np.arange(n, dtype=float)
    return (1.0 + k / 8.0) * np.exp(1j * (0.7 * k + 2.0 * math.pi * off))


def make_input(form, n, off):
    """-> (array handed to the library, complex128 reference values)"""
    if form == "int64":
        x = np.arange(1, n + 1, dtype=np.int64)
        return x, x.astype(complex)
    if form == "float64":
        x = 1.0 + np.arange(n, dtype=float) / 8.0
        return x, x.astype(complex)
    v = syms(n, off)
    if form == "zeros":            # all-zero block
        v[:] = 0.0
    elif form == "zero_head":      # the first OFDM symbol(s) all zero, data only at the end
        v[:max(1, (2 * n) // 3)] = 0.0
    if form == "c64":
        x = v.astype(np.complex64)
        return x, x.astype(complex)
    return layout(v, form), v.copy()


def layout(v, form):
    """the same values in the memory layout of `form`"""
    if form == "strided":
        big = np.zeros(2 * v.size + 1, dtype=v.dtype)
        big[1::2] = v
        return big[1::2]
    if form == "reversed":
        return v[::-1].copy()[::-1]
    if form == "c64":
        return v.astype(np.complex64)
    return v.copy()


_W = {}


def dft_matrix(N):
    W = _W.get(N)
    if W is None:
        k = np.arange(N, dtype=np.int64)
        W = np.exp(-2j * np.pi * ((k[:, None] * k[None, :]) % N) / N)
        _W[N] = W
    return W


def ref_dft_rows(rows):
    """X[s, k] = sum_m rows[s, m] exp(-2 pi j k m / N): plain O(N^2) sums"""
    return rows @ dft_matrix(rows.shape[1]).T


def ref_used_bins(N, used):
    """the band is centred, DC skipped (all bins when used == N)"""
    if used == N:
        return list(range(N))
    h = used // 2
    return list(range(1, h + 1)) + list(range(N - h, N))


def ref_valid(fft, cp, used):
    u = fft if used is None else used
    return fft >= 2 and 0 <= cp <= fft and u % 2 == 0 and 2 <= u <= fft


def true_freq_response(idx, taps, N, bins, drop_beyond=None):
    """H_k = sum_i h_i exp(-2 pi j k d_i / N) of the static impulse response;
    drop_beyond=N mimics np.fft.fft(h, N) cropping the taps with d_i >= N"""
    H = np.zeros(len(bins), dtype=complex)
    kb = np.asarray(bins, dtype=np.int64)
    for d, h in zip(idx, taps):
        if drop_beyond is not None and d >= drop_beyond:
            continue
        H += h * np.exp(-2j * np.pi * ((kb * int(d)) % N) / N)
    return H


def same_content(a, saved):
    """argument array still holds the values it had (its shape may have been viewed differently)"""
    a = np.asarray(a)
    return a.dtype == saved.dtype and a.size == saved.size and np.array_equal(a.ravel(), saved.ravel())


# ----------------------------------------------------------------------
# Part P
# ----------------------------------------------------------------------
def reported_triple(o):
    """the (fft, cp, used) the object reports through its public attributes, and whether it is valid"""
    rep = (o.fft_size, o.cp_size, o.num_used_subcarriers)
    ok = all(isinstance(v, (int, np.integer)) and not isinstance(v, bool) for v in rep) and \
        ref_valid(int(rep[0]), int(rep[1]), int(rep[2]))
    return (tuple(int(v) for v in rep) if ok else rep), ok


def fresh_differential(chk, case, o, triple, off, ctx):
    """indexes / modulate / demodulate of `o` bit-equal to a fresh object built with `triple`"""
    from pyphysim.modulators.ofdm import OFDM
    fft, cp, used = triple
    fresh = OFDM(fft, cp, used)
    x = syms(used + 1, off)
    a, b = np.asarray(o.get_used_subcarrier_indexes()), np.asarray(fresh.get_used_subcarrier_indexes())
    if a.shape != b.shape or not np.array_equal(a, b):
        chk.fail(ctx + ("get_used_subcarrier_indexes", "differs_from_fresh_object"), case,
                 observed=a, expected=b)
    ta, tb = np.asarray(o.modulate(x.copy())), np.asarray(fresh.modulate(x.copy()))
    if ta.shape != tb.shape or not np.array_equal(ta, tb):
        chk.fail(ctx + ("modulate", "differs_from_fresh_object"), case, observed=ta[:6], expected=tb[:6])
    else:
        da, db = np.asarray(o.demodulate(tb.copy())), np.asarray(fresh.demodulate(tb.copy()))
        if da.shape != db.shape or not np.array_equal(da, db):
            chk.fail(ctx + ("demodulate", "differs_from_fresh_object"), case, observed=da[:6], expected=db[:6])


def coherent_after_invalid_call(chk, case, o, off, ctx):
    """INVALID_CALL_POLICY 2: the property quantifies over VALID triples only, so an invalid call may
    raise anything or be accepted.  Afterwards the object must be coherent: if the triple it REPORTS is
    valid, every relation holds for it and it equals a fresh object built with it; if the reported triple
    is invalid, the next valid set_parameters must fully restore correct behaviour."""
    rep, ok = reported_triple(o)
    if not ok:
        chk.outcome("after_invalid_call_reported", "invalid_triple")
        rep = (8, 2, 4)
        o.set_parameters(*rep)
        got, ok2 = reported_triple(o)
        if got != rep:
            chk.fail(ctx + ("valid_set_parameters_does_not_restore_attributes",), case, observed=got, expected=rep)
            return
    else:
        chk.outcome("after_invalid_call_reported", "valid_triple")
    fresh_differential(chk, case, o, rep, off, ctx)
    for nn in (rep[2] + 1, 2 * rep[2] + 3):
        roundtrip_relations(chk, case, o, rep, nn, off, "c128", ctx)


def check_params(chk, case):
    from pyphysim.modulators.ofdm import OFDM
    fft, cp, used, via = case["fft"], case["cp"], case["used"], case["via"]
    off = case.get("phase_offset", 0.0)
    with chk.guard(("ofdm_params",), case):
        chk.count("eval_params")
        valid = ref_valid(fft, cp, used)
        exc = None
        obj = None
        try:
            if via == "ctor":
                obj = OFDM(fft, cp, used)
            else:
                obj = OFDM(8, 2, 4)
                obj.set_parameters(fft, cp, used)
        except Exception as e:  # noqa
            exc = e
        chk.outcome("params", (valid, type(exc).__name__ if exc is not None else "accepted"))
        if valid:
            chk.nontriv(("par", fft, cp, used))
            if exc is not None:
                chk.fail(("ofdm_params", "valid_rejected", via), case,
                         observed="%s: %s" % (type(exc).__name__, exc), expected="accepted")
                return
            got = (obj.fft_size, obj.cp_size, obj.num_used_subcarriers)
            want = (fft, cp, fft if used is None else used)
            if got != want:
                chk.fail(("ofdm_params", "attributes_not_stored", via), case, observed=got, expected=want)
            return
    if valid:
        return
    # invalid triple: the call itself is free (outcome only); coherence afterwards is required
    chk.count("n_invalid_calls")
    why = "cp" if not (0 <= cp <= fft) else "used"
    how = "accepted" if exc is None else "raised:" + type(exc).__name__
    changed = "no_object" if obj is None else (
        "object_changed" if via == "set_parameters" and reported_triple(obj)[0] != (8, 2, 4)
        else ("object_unchanged" if via == "set_parameters" else "object_built"))
    chk.outcome("invalid_call", (via + ":" + why, how, changed))
    if obj is not None:
        ctx = ("after_invalid_call", via)
        with chk.guard(ctx, case):
            coherent_after_invalid_call(chk, case, obj, off, ctx)


def run_par_unit(chk, fft, off=0.0):
    for cp in range(-2, fft + 3):
        for used in [None] + list(range(-2, fft + 3)):
            for via in ("ctor", "set_parameters"):
                check_params(chk, {"kind": "params", "fft": fft, "cp": cp, "used": used, "via": via,
                                   "phase_offset": off})


# ----------------------------------------------------------------------
# Part R relations (on a given, possibly reused, object)
# ----------------------------------------------------------------------
def roundtrip_relations(chk, case, o, triple, n, off, form="c128", ctx=()):
    """relations (1)-(4) + argument hygiene for the parameters `triple` the object is
    supposed to have.  Returns (tx, d) or None when a relation already failed fatally."""
    fft, cp, used = triple
    x, xref = make_input(form, n, off)
    x0 = x.copy()
    nsym = -(-n // used)
    pad = nsym * used - n
    xpad = np.concatenate([xref, np.zeros(pad, dtype=complex)])
    tx = np.asarray(o.modulate(x))
    if not same_content(x, x0) or x.shape != x0.shape:
        chk.fail(ctx + ("modulate", "mutates_input"), case, observed=x, expected=x0)
    # (2) length
    if tx.shape != (nsym * (fft + cp),):
        chk.fail(ctx + ("modulate", "output_length"), case, observed=tx.shape,
                 expected=(nsym * (fft + cp),))
        return None
    if not np.all(np.isfinite(tx)):
        chk.fail(ctx + ("modulate", "non_finite_output"), case, observed=tx[:8], expected="finite")
        return None
    T = tx.reshape(nsym, fft + cp)
    # (3) prefix is an exact copy of the tail
    if cp:
        chk.count("n_prefix_samples", nsym * cp)
        if not np.array_equal(T[:, :cp], T[:, fft:fft + cp]):
            s = int(np.nonzero(np.any(T[:, :cp] != T[:, fft:fft + cp], axis=1))[0][0])
            chk.fail(ctx + ("modulate", "prefix_not_copy_of_symbol_tail"), case,
                     observed=T[s, :cp], expected=T[s, fft:fft + cp], msg="OFDM symbol %d" % s)
    # (4) no energy on DC / guard bins
    if used < fft:
        X = ref_dft_rows(np.ascontiguousarray(T[:, cp:]))
        ub = set(ref_used_bins(fft, used))
        guard = [k for k in range(1, fft) if k not in ub]
        sc = numerics.scale(X)
        chk.count("n_unused_bins", nsym * (1 + len(guard)))
        if not numerics.close(X[:, 0], np.zeros(nsym), kappa=fft, c=C_DFT, scale_=sc):
            chk.fail(ctx + ("modulate", "energy_on_unused_subcarrier", "DC"), case,
                     observed=float(np.max(np.abs(X[:, 0]))), expected="0 (scale %g)" % sc)
        if guard and not numerics.close(X[:, guard], np.zeros((nsym, len(guard))),
                                        kappa=fft, c=C_DFT, scale_=sc):
            kbad = guard[int(np.argmax(np.max(np.abs(X[:, guard]), axis=0)))]
            chk.fail(ctx + ("modulate", "energy_on_unused_subcarrier", "guard"), case,
                     observed="bin %d: %g" % (kbad, float(np.max(np.abs(X[:, kbad])))),
                     expected="0 (scale %g)" % sc)
    # (1) round trip; the received signal comes in the layout of `form`
    rx = layout(tx, form)
    rx0 = rx.copy()
    d = np.asarray(o.demodulate(rx))
    if not same_content(rx, rx0):
        chk.fail(ctx + ("demodulate", "mutates_input_values"), case, observed=np.asarray(rx).ravel()[:8],
                 expected=rx0.ravel()[:8])
    if d.shape != xpad.shape:
        chk.fail(ctx + ("demodulate", "output_length"), case, observed=d.shape, expected=xpad.shape)
        return None
    kap = 2.0 ** 29 if form == "c64" else 1.0
    if not numerics.close(d, xpad, kappa=kap, c=C_RT):
        bad = np.abs(d - xpad)
        bad[~np.isfinite(bad)] = np.inf
        i = int(np.argmax(bad))
        chk.fail(ctx + ("demodulate", "roundtrip_mismatch", "data" if i < n else "zero_padding"), case,
                 observed="position %d: %r" % (i, complex(d[i])), expected=complex(xpad[i]))
    return tx, d


def aliasing_relations(chk, case, o, triple, n, off, ctx=()):
    """the same argument array, modified in place by the caller between two calls, must be
    read again; results returned earlier must not change"""
    from pyphysim.modulators.ofdm import OFDM
    fft, cp, used = triple
    x = syms(n, off)
    tx1 = np.asarray(o.modulate(x))
    tx1c = tx1.copy()
    x *= -1j
    x[0] += 0.5
    tx2 = np.asarray(o.modulate(x))
    want = np.asarray(OFDM(fft, cp, used).modulate(x.copy()))
    if tx2.shape != want.shape or not np.array_equal(tx2, want):
        chk.fail(ctx + ("modulate", "stale_result_after_inplace_change_of_argument"), case,
                 observed=tx2[:6], expected=want[:6])
    if tx1.shape != tx1c.shape or not np.array_equal(tx1, tx1c):
        chk.fail(ctx + ("modulate", "earlier_result_changed_by_later_call"), case,
                 observed=tx1[:6], expected=tx1c[:6])
    rx = tx2.copy()
    d1 = np.asarray(o.demodulate(rx))
    d1c = d1.copy()
    rx *= 2.0
    rx.ravel()[-1] += 1.0
    d2 = np.asarray(o.demodulate(rx))
    wantd = np.asarray(OFDM(fft, cp, used).demodulate(rx.copy()))
    if d2.shape != wantd.shape or not np.array_equal(d2, wantd):
        chk.fail(ctx + ("demodulate", "stale_result_after_inplace_change_of_argument"), case,
                 observed=d2[:6], expected=wantd[:6])
    if d1.shape != d1c.shape or not np.array_equal(d1, d1c):
        chk.fail(ctx + ("demodulate", "earlier_result_changed_by_later_call"), case,
                 observed=d1[:6], expected=d1c[:6])


def check_roundtrip(chk, case):
    from pyphysim.modulators.ofdm import OFDM
    fft, cp, used, n, off = case["fft"], case["cp"], case["used"], case["n"], case["phase_offset"]
    form = case.get("form", "c128")
    with chk.guard(("ofdm_roundtrip",), case):
        chk.count("eval_roundtrip")
        nsym = -(-n // used)
        # enumeration-derived non-vacuity keys (recorded before the library is called)
        if n > 1:
            chk.nontriv(("rt", fft, cp, used, n, form))
        chk.outcome("nsym", nsym)
        chk.outcome("input_form", form)
        if nsym * used - n:
            chk.outcome("padding_configs", (fft, cp, used, n))
        if cp in (0, fft):
            chk.outcome("cp_edge_configs", (fft, cp))
        if used < fft:
            chk.outcome("guard_bins", fft - 1 - used)
        chk.outcome("ctor_used_arg", case.get("ctor", "explicit"))
        o = OFDM(fft, cp) if case.get("ctor") == "none" else OFDM(fft, cp, used)
        roundtrip_relations(chk, case, o, (fft, cp, used), n, off, form)
        if form == "c128" and n > 0:
            aliasing_relations(chk, case, OFDM(fft, cp, used), (fft, cp, used), n, off)


def run_rt_unit(chk, cfg, off):
    fft, cp, used = cfg
    for n in lengths(used):
        for form in FORMS:
            check_roundtrip(chk, {"kind": "roundtrip", "fft": fft, "cp": cp, "used": used, "n": n,
                                  "form": form, "phase_offset": off})
        if used == fft:      # alternative entry point: num_used_subcarriers omitted
            check_roundtrip(chk, {"kind": "roundtrip", "fft": fft, "cp": cp, "used": used, "n": n,
                                  "form": "c128", "ctor": "none", "phase_offset": off})


# ----------------------------------------------------------------------
# Part C relations
# ----------------------------------------------------------------------
def new_channel(delays, powers, seed, how="raw"):
    from pyphysim.channels.fading import TdlChannel, TdlChannelProfile
    from pyphysim.channels.fading_generators import JakesSampleGenerator
    jakes = JakesSampleGenerator(Fd=0.0, Ts=1.0, L=JAKES_L, RS=np.random.RandomState(int(seed)))
    pw, dl = np.array(powers, dtype=float), np.array(delays, dtype=float)
    if how == "raw":
        return TdlChannel(jakes, tap_powers_dB=pw, tap_delays=dl)
    prof = TdlChannelProfile(pw, dl, "c02")
    if how == "discretized_profile":
        prof = prof.get_discretize_profile(1.0)
    return TdlChannel(jakes, channel_profile=prof)


def equalize_relations(chk, case, o, eq, ch, triple, n, off, delays, ctx=(), pre_sizes=()):
    """(5) on the given (possibly reused) OFDM object / equaliser / channel.
    Returns the reported impulse-response object or None."""
    fft, cp, used = triple
    x = syms(n, off)
    nsym = -(-n // used)
    xpad = np.concatenate([x, np.zeros(nsym * used - n, dtype=complex)])
    tx = np.asarray(o.modulate(x.copy()))
    txc = tx.copy()
    rx = np.asarray(ch.corrupt_data(tx))
    if not same_content(tx, txc) or tx.shape != txc.shape:
        chk.fail(ctx + ("tdl_channel", "mutates_input"), case, observed=tx[:6], expected=txc[:6])
        tx = txc
    ir = ch.get_last_impulse_response()
    idx = np.asarray(ir.tap_indexes_sparse).astype(np.int64).ravel()
    tv = np.asarray(ir.tap_values_sparse)
    # premises the harness configured: static channel, memory <= cp
    if idx.tolist() != [int(d) for d in delays] or tv.shape != (len(delays), tx.size):
        chk.fail(ctx + ("premise", "reported_taps_differ_from_configured_profile"), case,
                 observed=(idx.tolist(), tv.shape), expected=(list(delays), (len(delays), tx.size)))
        return None
    if not np.all(tv == tv[:, :1]) or not np.all(np.isfinite(tv)):
        chk.fail(ctx + ("premise", "channel_not_static_with_Fd=0"), case, observed=tv[:, :3],
                 expected="constant in time")
        return None
    mem = int(idx.max())
    if mem > cp:
        chk.count("skipped_memory_exceeds_cp")
        return ir
    taps = tv[:, 0]
    ub = ref_used_bins(fft, used)
    H = true_freq_response(idx, taps, fft, ub)
    hmin, hmax = float(np.min(np.abs(H))), float(np.max(np.abs(H)))
    if hmin < NULL_THR:
        chk.count("excluded_spectral_null")
        chk.outcome("equalize_result", "excluded_spectral_null")
        return ir
    if rx.ndim != 1 or rx.size < tx.size:
        chk.fail(ctx + ("tdl_channel", "output_shorter_than_input"), case, observed=rx.shape,
                 expected=">= %d samples" % tx.size)
        return ir
    d = np.asarray(o.demodulate(np.array(rx[:tx.size])))
    dc = d.copy()
    for N in pre_sizes:        # the response is first asked for at other sizes than the OFDM's
        ir.get_freq_response(N)
    eqd = np.asarray(eq.equalize_data(d, ir))
    chk.count("n_equalized_symbols", int(xpad.size))
    if not same_content(d, dc):
        chk.fail(ctx + ("equalize", "mutates_input_values"), case, observed=d[:6], expected=dc[:6])
    if eqd.shape != xpad.shape:
        chk.fail(ctx + ("equalize", "output_shape"), case, observed=eqd.shape, expected=xpad.shape)
        return ir
    kappa = max(1.0, hmax) / hmin
    if numerics.close(eqd, xpad, kappa=kappa, c=C_EQ):
        chk.outcome("equalize_result", "recovered")
        return ir
    chk.outcome("equalize_result", "not_recovered")
    # diagnose WHAT is wrong (for the signature): the library's frequency response
    # against the direct sums with / without the taps at delay >= fft
    diag = "freq_response_correct"
    try:
        Hlib = np.asarray(ir.get_freq_response(fft))[:, 0]
        allb = list(range(fft))
        Ht = true_freq_response(idx, taps, fft, allb)
        Hc = true_freq_response(idx, taps, fft, allb, drop_beyond=fft)
        tol = 1e-9 * max(1.0, hmax)
        if Hlib.shape == Ht.shape and np.max(np.abs(Hlib - Ht)) <= tol:
            diag = "freq_response_correct"
        elif Hlib.shape == Hc.shape and np.max(np.abs(Hlib - Hc)) <= tol:
            diag = "get_freq_response_drops_taps_at_delay>=fft"
        else:
            diag = "freq_response_wrong"
    except Exception as e:  # noqa
        diag = "get_freq_response_raises_" + type(e).__name__
    cond = "memory=fft=cp" if mem == fft else "memory<fft"
    bad = np.abs(eqd - xpad)
    bad[~np.isfinite(bad)] = np.inf
    i = int(np.argmax(bad))
    chk.fail(ctx + ("equalize", "symbols_not_recovered", diag, cond), case,
             observed="position %d: %r (|err| %g, min|H| %.3g)" % (i, complex(eqd[i]), float(bad[i]), hmin),
             expected=complex(xpad[i]),
             msg="channel memory %d, cp %d, fft %d; reported taps at delays %s" % (mem, cp, fft, idx.tolist()))
    return ir


def equalize_aliasing(chk, case, o, eq, ir, triple, n, off, ctx=()):
    """equalize_data called twice with the same data array changed in place in between"""
    from pyphysim.modulators.ofdm import OFDM, OfdmOneTapEqualizer
    fft, cp, used = triple
    nsym = -(-n // used)
    if ir.num_samples != nsym * (fft + cp):
        return
    d = syms(nsym * used, off)
    e1 = np.asarray(eq.equalize_data(d, ir))
    e1c = e1.copy()
    d *= 1j
    d[-1] -= 2.0
    e2 = np.asarray(eq.equalize_data(d, ir))
    want = np.asarray(OfdmOneTapEqualizer(OFDM(fft, cp, used)).equalize_data(d.copy(), ir))
    if e2.shape != want.shape or not np.array_equal(e2, want):
        chk.fail(ctx + ("equalize", "stale_result_after_inplace_change_of_argument"), case,
                 observed=e2[:6], expected=want[:6])
    if e1.shape != e1c.shape or not np.array_equal(e1, e1c):
        chk.fail(ctx + ("equalize", "earlier_result_changed_by_later_call"), case,
                 observed=e1[:6], expected=e1c[:6])


def freq_response_relations(chk, case, ir, sizes, ctx=()):
    """get_freq_response of ONE reported impulse-response object at several fft sizes in a row
    (also after the dense tap view has been read) against the direct sum"""
    idx = np.asarray(ir.tap_indexes_sparse).astype(np.int64).ravel()
    tv = np.asarray(ir.tap_values_sparse)
    for j, N in enumerate(sizes):
        if j == 1:
            _ = ir.tap_values       # populates the dense-view cache of the object
        Hl = np.asarray(ir.get_freq_response(N))
        chk.count("n_freq_responses")
        if Hl.shape != (N, tv.shape[-1]):
            chk.fail(ctx + ("get_freq_response", "shape"), dict(case, fft_sizes=list(sizes), failing_size=N),
                     observed=Hl.shape, expected=(N, tv.shape[-1]))
            return
        Ht = true_freq_response(idx, tv[:, 0], N, list(range(N)))
        if not numerics.close(Hl, np.repeat(Ht[:, None], Hl.shape[1], axis=1), kappa=float(len(idx)), c=C_RT):
            chk.fail(ctx + ("get_freq_response", "differs_from_direct_sum"),
                     dict(case, fft_sizes=list(sizes), failing_size=N),
                     observed=Hl[:6, 0], expected=Ht[:6])
            return


def check_channel(chk, case):
    from pyphysim.modulators.ofdm import OFDM, OfdmOneTapEqualizer
    fft, cp, used, n, off = case["fft"], case["cp"], case["used"], case["n"], case["phase_offset"]
    delays, powers, seed = list(case["delays"]), list(case["powers_dB"]), int(case["rs_seed"])
    with chk.guard(("ofdm_tdl_equalize",), case):
        chk.count("eval_channel")
        if len(delays) > 1 or delays[0] > 0:
            chk.nontriv(("ch", fft, cp, used, tuple(delays)))
        chk.outcome("ntaps", len(delays))
        if max(delays) == cp:
            chk.outcome("memory_eq_cp", (fft, cp, used))
        if cp in (0, fft):
            chk.outcome("cp_edge_channel_configs", (fft, cp))
        o = OFDM(fft, cp, used)
        eq = OfdmOneTapEqualizer(o)
        how = case.get("profile_form", "raw")
        chk.outcome("profile_form", how)
        if any(pw == NINF for pw in powers):
            chk.outcome("zero_power_tap", tuple(i for i, pw in enumerate(powers) if pw == NINF))
        ch = new_channel(delays, powers, seed, how)
        pre = (fft + 1, max(1, fft // 2), 2 * fft) if case.get("aliasing") else ()
        ir = equalize_relations(chk, case, o, eq, ch, (fft, cp, used), n, off, delays, pre_sizes=pre)
        if ir is not None and case.get("aliasing"):
            equalize_aliasing(chk, case, o, eq, ir, (fft, cp, used), n, off)


def run_ch_unit(chk, cfg, ds, full, off, seed, p):
    fft, cp, used = cfg
    pw = (_POW_FULL if full else _POW_BOUNDARY)[len(ds)]
    which = p["ch_lengths_full"] if full else p["ch_lengths_boundary"]
    nreal = (p["nreal_full_3taps"] if len(ds) == 3 else p["nreal_full"]) if full else p["nreal_boundary"]
    if chk.tier == "thorough" and fft > 16:
        nreal = 1                   # large sizes: one realisation per profile (cost)
    for ip, pt in enumerate(pw):
        for r in range(nreal):
            first = ip == 0 and r == 0
            ns = channel_lengths(used, which)
            for n in ([1] if first and 1 not in ns else []) + ns:
                case = {"kind": "channel", "fft": fft, "cp": cp, "used": used, "n": n,
                        "delays": list(ds), "powers_dB": list(pt),
                        "rs_seed": rs_seed(seed, r), "phase_offset": off}
                if first:
                    case["aliasing"] = True
                check_channel(chk, case)
                if first and n == used + 1:      # alternative entry points for the profile
                    for how in PROFILE_FORMS[1:]:
                        check_channel(chk, dict(case, profile_form=how))


# ----------------------------------------------------------------------
# Part M: several live objects used alternately
# ----------------------------------------------------------------------
def m_delays(triple):
    fft, cp, used = triple
    if cp == 0:
        return (0,)
    if cp == fft:
        return (0, 1, fft)          # far end: taps at 0 and fft together with a third tap
    return (0, 1, 3) if cp >= 3 else (0, 1)


def equalized_ok(eqd, xpad, ir, fft, used):
    """-> None (excluded: spectral null) / True / False for equalised data against x ++ zeros"""
    idx = np.asarray(ir.tap_indexes_sparse).astype(np.int64).ravel()
    H = true_freq_response(idx, np.asarray(ir.tap_values_sparse)[:, 0], fft, ref_used_bins(fft, used))
    hmin, hmax = float(np.min(np.abs(H))), float(np.max(np.abs(H)))
    if hmin < NULL_THR:
        return None
    eqd = np.asarray(eqd)
    return eqd.shape == xpad.shape and numerics.close(eqd, xpad, kappa=max(1.0, hmax) / hmin, c=C_EQ)


def check_pair(chk, case):
    from pyphysim.modulators.ofdm import OFDM, OfdmOneTapEqualizer
    off, seed = case["phase_offset"], int(case["rs_seed"])
    ctx = ("multi_object",)
    with chk.guard(ctx, case):
        chk.count("eval_object_pairs")
        chk.nontriv(("pair",) + tuple(case["A"]) + tuple(case["B"]))
        L = {}
        for k, tag in enumerate(("A", "B")):
            t = tuple(case[tag])
            o = OFDM(t[0], t[1]) if t[2] == t[0] else OFDM(*t)
            pw = (0.0, -3.0, NINF, -10.0)[:len(m_delays(t))] if tag == "B" else (0.0, -3.0, -10.0)[:len(m_delays(t))]
            L[tag] = dict(t=t, o=o, eq=OfdmOneTapEqualizer(o), dl=m_delays(t),
                          ch=new_channel(m_delays(t), pw, seed + k, PROFILE_FORMS[k]))
        chk.outcome("pair_has_odd_fft", (L["A"]["t"][0] % 2, L["B"]["t"][0] % 2))
        # 1) first transmission of each object; its impulse-response OBJECT is kept
        for tag in ("A", "B"):
            e = L[tag]
            fft, cp, used = e["t"]
            e["x1"] = syms(used + 1, off)
            e["tx1"] = np.asarray(e["o"].modulate(e["x1"].copy()))
            e["rx1"] = np.asarray(e["ch"].corrupt_data(e["tx1"].copy()))
            e["ir1"] = e["ch"].get_last_impulse_response()
        # 2) alternate use: all relations on each object while the other one is alive and used
        for tag in ("B", "A", "A", "B", "A"):
            e = L[tag]
            fft, cp, used = e["t"]
            for nn in (1, 2 * used + 3):
                roundtrip_relations(chk, case, e["o"], e["t"], nn, off, "c128", ctx)
            e["x2"] = syms(2 * used + 3, off)
            e["tx2"] = np.asarray(e["o"].modulate(e["x2"].copy()))
            e["rx2"] = np.asarray(e["ch"].corrupt_data(e["tx2"].copy()))
        # 3) alternative entry points after several transmissions of both channels
        for tag in ("A", "B"):
            e, other = L[tag], L["B" if tag == "A" else "A"]
            fft, cp, used = e["t"]
            ir_last = e["ch"].get_last_impulse_response()
            if ir_last is e["ir1"] or ir_last is other["ch"].get_last_impulse_response() or \
                    ir_last.num_samples != e["tx2"].size or e["ir1"].num_samples != e["tx1"].size or \
                    np.asarray(ir_last.tap_indexes_sparse).tolist() != list(e["dl"]):
                chk.fail(ctx + ("get_last_impulse_response", "not_the_response_of_this_channels_last_transmission"),
                         case, observed=(ir_last.num_samples, np.asarray(ir_last.tap_indexes_sparse).tolist()),
                         expected=(e["tx2"].size, list(e["dl"])))
                continue
            for which, x, tx, rx, ir in (("late_fetched_last_response", e["x2"], e["tx2"], e["rx2"], ir_last),
                                         ("saved_response_of_earlier_transmission", e["x1"], e["tx1"], e["rx1"],
                                          e["ir1"])):
                nsym = -(-x.size // used)
                xpad = np.concatenate([x, np.zeros(nsym * used - x.size, dtype=complex)])
                ir.get_freq_response(other["t"][0])          # asked at the OTHER object's size first
                d = np.asarray(e["o"].demodulate(np.array(rx[:tx.size])))
                ok = equalized_ok(e["eq"].equalize_data(d, ir), xpad, ir, fft, used)
                chk.count("n_pair_equalizations")
                if ok is None:
                    chk.count("excluded_spectral_null")
                elif not ok:
                    chk.fail(ctx + ("equalize", "symbols_not_recovered", which), case,
                             observed=np.asarray(e["eq"].equalize_data(d, ir))[:4], expected=xpad[:4])
            # differential against a lone fresh object
            lone = np.asarray((OFDM(fft, cp, used)).modulate(e["x2"].copy()))
            if lone.shape != e["tx2"].shape or not np.array_equal(lone, e["tx2"]):
                chk.fail(ctx + ("modulate", "differs_from_lone_fresh_object"), case,
                         observed=e["tx2"][:4], expected=lone[:4])


def run_pair_unit(chk, i, j, off):
    check_pair(chk, {"kind": "pair", "A": list(M_TRIPLES[i]), "B": list(M_TRIPLES[j]),
                     "phase_offset": off, "rs_seed": rs_seed(chk.seed, 0)})
    check_pair(chk, {"kind": "pair", "A": list(M_TRIPLES[j]), "B": list(M_TRIPLES[i]),
                     "phase_offset": off, "rs_seed": rs_seed(chk.seed, 0)})


# ----------------------------------------------------------------------
# Part H: histories on one reused object
# ----------------------------------------------------------------------
class HState:
    """one OFDM object, the equaliser bound to it at creation, one TdlChannel, the
    impulse-response object reported by the last 'tx' event; `model` = the triple the reference
    interpreter holds (re-synchronised from the REPORTED attributes after an invalid call)"""
    def __init__(self):
        self.o = None
        self.eq = None
        self.ch = None
        self.ir = None
        self.error = None
        self.model = None
        self.model_valid = True
        self.prev_model = None
        self.invalid_calls = []       # (event, "raised:<Type>"|"accepted", "object_changed"|"object_unchanged")


def _is_invalid_set(ev):
    return ev[0] == "set" and not ref_valid(ev[1], ev[2], ev[3])


def h_enabled(triple, triple_valid=True):
    evs = [("set",) + t for t in H_TRIPLES if t != triple]
    if not triple_valid:
        return evs                    # only a valid set_parameters is required to work from here
    evs.extend(("set",) + t for t in H_INVALID)
    for name, v in H_ATTRS:
        i = ("fft_size", "cp_size", "num_used_subcarriers").index(name)
        t = tuple(v if j == i else triple[j] for j in range(3))
        if t != triple and ref_valid(*t):
            evs.append(("attr", name, v))
    evs.extend((r,) for r in H_READS)
    return evs


def h_build(hist, off, seed):
    from pyphysim.modulators.ofdm import OFDM, OfdmOneTapEqualizer
    st = HState()
    ev = None
    try:
        for ev in hist:
            t = st.model
            st.prev_model = t
            if ev[0] == "new":
                st.o = OFDM(ev[1], ev[2], ev[3])
                st.eq = OfdmOneTapEqualizer(st.o)
                st.ch = new_channel(H_CH_DELAYS, H_CH_POWERS, seed)
                st.model = (ev[1], ev[2], ev[3])
            elif ev[0] == "set":
                if ref_valid(ev[1], ev[2], ev[3]):
                    st.o.set_parameters(ev[1], ev[2], ev[3])
                    st.model, st.model_valid = (ev[1], ev[2], ev[3]), True
                else:
                    # the invalid call is free; the model follows what the object REPORTS afterwards
                    try:
                        st.o.set_parameters(ev[1], ev[2], ev[3])
                        how = "accepted"
                    except Exception as e:  # noqa
                        how = "raised:" + type(e).__name__
                    st.model, st.model_valid = reported_triple(st.o)
                    st.invalid_calls.append((ev, how, "object_unchanged" if st.model == t else "object_changed"))
            elif ev[0] == "attr":
                setattr(st.o, ev[1], ev[2])
                i = ("fft_size", "cp_size", "num_used_subcarriers").index(ev[1])
                st.model = tuple(ev[2] if j == i else t[j] for j in range(3))
            elif ev[0] == "idx":
                st.o.get_used_subcarrier_indexes()
            elif ev[0] == "mod":
                st.o.modulate(syms(t[2] + 1, off))
            elif ev[0] == "demod":
                st.o.demodulate(st.o.modulate(syms(t[2] + 1, off)))
            elif ev[0] == "tx":
                st.ch.corrupt_data(st.o.modulate(syms(t[2] + 1, off)))
                st.ir = st.ch.get_last_impulse_response()
            else:
                raise Broken("unknown history event %r" % (ev,))
    except Broken:
        raise
    except Exception as e:  # noqa
        st.error = (ev, "exception", e)
    return st


def h_invariant(chk, hist, st, off):
    case = {"kind": "history", "history": [list(e) for e in hist], "phase_offset": off,
            "rs_seed": rs_seed(chk.seed, 0)}
    after_invalid = any(_is_invalid_set(e) for e in hist)
    ctx = ("after_invalid_call", "set_parameters") if after_invalid else ("history",)
    chk.count("eval_history_states")
    triple = st.model
    if len(hist) > 1:
        chk.nontriv(("hist",) + tuple(hist))
    chk.outcome("history_last_event", hist[-1][0])
    for ev, how, changed in st.invalid_calls:
        chk.outcome("invalid_call", ("history_set_parameters:" + ("cp" if ev[2] > ev[1] else "used"), how, changed))
    if st.error is not None:
        ev, what, exc = st.error
        chk.fail(ctx + ("event_raises", ev[0], type(exc).__name__), case,
                 observed="%s: %s" % (type(exc).__name__, exc), expected="no exception",
                 msg="event %r of the history" % (ev,))
        return
    if not st.model_valid:
        # the object reports an invalid triple after an accepted invalid call: nothing is required
        # of it until the next VALID set_parameters (the only events enabled from here)
        chk.outcome("after_invalid_call_reported", "invalid_triple")
        return
    chk.outcome("history_params", triple)
    if len(hist) > 1 and hist[-1][0] in ("set", "attr") and not _is_invalid_set(hist[-1]) and \
            st.prev_model is not None and len(st.prev_model) == 3:
        chk.outcome("history_reconfiguration", tuple(a == b for a, b in zip(st.prev_model, triple)))
    with chk.guard(ctx, case):
        fft, cp, used = triple
        o = st.o
        got = reported_triple(o)[0]
        if got != triple:
            chk.fail(ctx + ("parameters_differ_from_last_valid_setting",), case,
                     observed=got, expected=triple)
            return
        n = used + 1
        # differential against a fresh object (bit-exact: same arithmetic)
        fresh_differential(chk, case, o, triple, off, ctx)
        # all Part-R relations on the live object for the current parameters
        for nn in (used + 1, 2 * used + 3):
            roundtrip_relations(chk, case, o, triple, nn, off, "c128", ctx)
        aliasing_relations(chk, case, o, triple, n, off, ctx)
        # the impulse-response object reported by an earlier transmission, at several sizes
        if st.ir is not None:
            freq_response_relations(chk, case, st.ir, (fft,) + H_FREQ_SIZES + (fft,), ctx)
        # transmission through the reused channel, equalised by the equaliser bound at creation
        ir = equalize_relations(chk, case, o, st.eq, st.ch, triple, n, off, H_CH_DELAYS, ctx)
        if ir is not None:
            freq_response_relations(chk, case, ir, (fft,) + H_FREQ_SIZES, ctx)
            if max(H_CH_DELAYS) <= cp:
                equalize_aliasing(chk, case, o, st.eq, ir, triple, n, off, ctx)


def h_canon(hist, st):
    if st.error is not None:
        return ("error",) + tuple(hist)
    # every history up to one event after creation is a state of its own; beyond that
    # two histories merge only if the real objects are field-for-field identical
    return (tuple(hist) if len(hist) <= 2 else None, bfs.digest((st.o, st.ch, st.ir), 12))


def run_hist_unit(chk, init_index, off, depth):
    seed = rs_seed(chk.seed, 0)
    init = (("new",) + H_TRIPLES[init_index],)
    b = bfs.BFS(chk,
                build=lambda h: h_build(h, off, seed),
                enabled=lambda h, st: [] if st.error is not None else h_enabled(st.model, st.model_valid),
                invariant=lambda h, st: h_invariant(chk, h, st, off),
                canon=h_canon, max_depth=depth, label="ofdm_reuse_%d" % init_index)
    b.run([init])
    chk.outcome("history_depth", b.depth_reached)


def replay_history(case, chk):
    hist = tuple(tuple(e) for e in case["history"])
    st = h_build(hist, case["phase_offset"], int(case["rs_seed"]))
    h_invariant(chk, hist, st, case["phase_offset"])


# ----------------------------------------------------------------------
def run_unit(chk, u, off, p):
    if u[0] == "par":
        run_par_unit(chk, u[1], off)
    elif u[0] == "rt":
        run_rt_unit(chk, u[1], off)
    elif u[0] == "hist":
        run_hist_unit(chk, u[2], off, p["hist_depth"])
    elif u[0] == "pair":
        run_pair_unit(chk, u[2], u[3], off)
    else:
        _, cfg, ds, full = u
        run_ch_unit(chk, cfg, ds, full, off, chk.seed, p)


def _is_prepass(u):
    return u[0] in ("rt", "ch") and u[1][0] <= PREPASS_MAX_FFT


def main(chk: Check):
    tier = chk.tier
    p = tier_params(tier)
    off = common.seed_offset(2)
    chk.assume("time-invariant channels are real TdlChannel objects driven by JakesSampleGenerator(Fd=0, "
               "Ts=1, L=8, RS=RandomState(recorded seed)); the check verifies on every case that the "
               "reported taps are constant in time and sit at the configured delays")
    chk.assume("channel memory = largest reported tap delay; only delays inside 0..cp are enumerated")
    chk.assume("realisations whose true frequency response has min|H_k| < %g on a used bin are excluded "
               "(counted in excluded_spectral_null)" % NULL_THR)
    chk.assume("prefix == tail is compared with == per sample (0.0 and -0.0 count as equal)")
    chk.assume("for fft > F_full the tap-delay sets are all 1..3-subsets of the boundary delays "
               "{0,1,cp//2,cp-1,cp} and the power tuples a fixed list of 1/4/4, not the full product")
    chk.assume("'inputs not modified' means the VALUES of the argument arrays; demodulate re-shapes the "
               "caller's array object in place (shape only), which the property does not forbid")
    chk.assume("an empty input (0 symbols -> empty output), an all-zero input and a tap of exactly zero power "
               "(-inf dB, reported tap value 0, still counted for the channel memory) are inside the domain")
    chk.assume("invalid (fft, cp, used) are outside the property's quantifier: what the call does is recorded "
               "as an outcome; required is only that the object stays coherent for the triple it reports "
               "(or is fully restored by the next valid set_parameters)")
    chk.assume("histories: attribute assignments are enabled only when the resulting triple is valid; "
               "histories merge (beyond depth 1) when OFDM object, channel and reported impulse response "
               "have identical whole-object digests")
    chk.extra.update(tolerance_c_roundtrip=C_RT, tolerance_c_ref_dft_times_N=C_DFT,
                     tolerance_c_equalizer_times_cond=C_EQ, spectral_null_threshold=NULL_THR,
                     F_all=p["F_all"], F_full=p["F_full"], Fp=p["Fp"],
                     extra_configs=len(p["big"]), configs=len(configs(tier)),
                     channel_configs=len(list(channel_configs(tier))),
                     realisations_per_profile_full_full3taps_boundary=[p["nreal_full"], p["nreal_full_3taps"],
                                                                       p["nreal_boundary"]],
                     realisations_per_profile_fft_above_16_thorough=1,
                     channel_lengths_full_alphabet=p["ch_lengths_full"],
                     channel_lengths_boundary_alphabet=p["ch_lengths_boundary"],
                     power_tuples_full=[len(_POW_FULL[k]) for k in (1, 2, 3)],
                     power_tuples_boundary=[len(_POW_BOUNDARY[k]) for k in (1, 2, 3)],
                     input_forms=list(FORMS), profile_forms=list(PROFILE_FORMS),
                     multi_object_triples=[list(t) for t in M_TRIPLES], history_depth=p["hist_depth"],
                     history_triples=[list(t) for t in H_TRIPLES],
                     history_events_per_state=len(h_enabled(H_TRIPLES[0])))
    # smallest configurations first, serially, so that the stored witness of every
    # signature is the smallest one
    for u in units(tier):
        if _is_prepass(u):
            run_unit(chk, u, off, p)

    def worker(i, n, c):
        for u in shard((v for v in units(tier) if not _is_prepass(v)), i, n):
            run_unit(c, u, off, p)

    run_shards(chk, worker, common.ncores())
    chk.sample({"kind": "roundtrip", "fft": 8, "cp": 3, "used": 6, "n": 7, "form": "strided",
                "phase_offset": off})
    chk.sample({"kind": "channel", "fft": 8, "cp": 3, "used": 6, "n": 7, "delays": [0, 3],
                "powers_dB": [0.0, -3.0], "rs_seed": rs_seed(chk.seed, 0), "phase_offset": off})
    chk.sample({"kind": "params", "fft": 8, "cp": 9, "used": 4, "via": "ctor"})
    chk.sample({"kind": "history", "history": [["new", 4, 1, 2], ["mod"], ["set", 8, 1, 2]],
                "phase_offset": off, "rs_seed": rs_seed(chk.seed, 0)})
    chk.require_outcomes("padding_configs", 20)
    chk.require_outcomes("cp_edge_configs", 6)
    chk.require_outcomes("cp_edge_channel_configs", 6)
    chk.require_outcomes("memory_eq_cp", 20)
    chk.require_outcomes("nsym", 3)
    chk.require_outcomes("ntaps", 3)
    chk.require_outcomes("guard_bins", 3)
    chk.require_outcomes("params", 2)
    chk.require_outcomes("invalid_call", 2)
    chk.require_outcomes("input_form", len(FORMS))
    chk.require_outcomes("profile_form", 3)
    chk.require_outcomes("zero_power_tap", 2)
    chk.require_outcomes("ctor_used_arg", 2)
    chk.require_outcomes("pair_has_odd_fft", 4)
    chk.require_outcomes("history_params", 12)
    chk.require_outcomes("history_last_event", 6)
    chk.require_outcomes("history_reconfiguration", 4)
    if "recovered" not in chk.outcomes.get("equalize_result", ()) and not chk.violations:
        raise Broken("vacuous: no channel case reached the comparison of the equalised symbols")


def replay(case, chk: Check):
    kind = case.get("kind")
    if kind == "params":
        check_params(chk, case)
    elif kind == "roundtrip":
        check_roundtrip(chk, case)
    elif kind == "channel":
        check_channel(chk, case)
    elif kind == "history":
        replay_history(case, chk)
    elif kind == "pair":
        check_pair(chk, case)
    else:
        raise ValueError("unknown case kind %r" % (kind,))
