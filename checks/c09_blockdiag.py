"""C09 - block diagonalisation nulls inter-user interference within the power budget.

E1, exhaustive product.

Part A (BlockDiagonalizer.block_diagonalize / block_diagonalize_no_waterfilling,
module functions block_diagonalize / calc_receive_filter) on the big channel of a
MultiUserChannelMatrix initialised with init_from_channel_matrix:
  layouts (K, n) in {2,3} x {1,2,3}  x  channel families (generic G_s, one weak
  user, one weak receive antenna, singular values spanning 1e3)  x  iPu  x  noise.
  A1 newH == H Ms and every off-diagonal block of H Ms vanishes
  A2 per-user column-block power <= iPu, max == iPu (water-filling) / all == iPu
  A3 calc_receive_filter(newH) newH == diag(stream has power)
  A4 the stream powers are the global water-filling (total K iPu, noise) over the
     singular values of H_k N(H~_k) -- recomputed here from a QR null space and a
     reference water-filling -- scaled so that the strongest transmitter has iPu
Part B (EnhancedBD with metric None / naive / fixed / capacity /
effective_throughput, WhiteningBD) on a MultiUserChannelMatrixExtInt:
  layouts x families x interference rank x pe x noise (incl. None) x iPu x metric
  x num_streams.
  B1 Ns[k] == Ms_k.shape[1] == W_k.shape[0] (== num_streams / n where fixed)
  B2 H_l Ms_k == 0 for l != k
  B3 ||Ms_k||_F^2 == iPu
  B4 W_k H_k Ms_k == I
  B5 W_k R_ext,k W_k^H == 0 whenever the interference-aware reduction kept
     Ns_k <= n - rank(R_ext,k) streams
  B6 capacity / effective_throughput: the kept number of streams is no worse
     (metric recomputed here from first-principle SINRs) than every fixed choice
Part H (object re-use histories): ONE EnhancedBD / WhiteningBD / BlockDiagonalizer
object; every event sequence of length <= 3 (thorough 4) ending in a run, from every
initially configured metric, over the events set_ext_int_handling_metric(None |
naive,1|2 | fixed,1|2 | capacity | effective_throughput), iPu = v, noise_var = v,
pe = v, run on channel A (K=2,n=2,rank 1) | channel B (K=2,n=3,rank 2).  After the
last run: all B- (resp. A-) relations for the CURRENT configuration (model: last
assignment wins) and bit-for-bit equality with a freshly constructed object.
The caller keeps ONE channel ndarray (BlockDiagonalizer) / ONE channel object
(ext-int classes) per layout for the whole history; the event refresh(A|B)
overwrites that SAME buffer in place (H[:] = next member) / re-initialises that
SAME channel object; after the last run the inputs must be bit-identical and a
second call on the same objects must return the same.
Part L (several live objects): two (three) objects of one class are alive at once,
configured differently (EnhancedBD: None, naive/1, naive/2, fixed/1, fixed/2, capacity,
effective_throughput, and variants with other iPu / pe / noise_var; WhiteningBD and
BlockDiagonalizer: other iPu / pe / noise_var / entry point): every ordered pair x
{configure right after each construction | construct both, configure in order |
construct both, configure in reverse order} x run order {A,B,A | B,A,B}; ordered
triples with runs A,B,C,A.  Every run must be bit-identical to ONE fresh object of
that configuration (whose relations are checked); on a difference the B-/A-relations
are evaluated on the deviating result.
Part E (invalid calls, tools/INVALID_CALL_POLICY.md): unknown metric name, naive /
fixed / effective_throughput without their arguments, num_streams 0 / 4, a channel
whose row count is not a multiple of the users, a 1-D channel.  What the call itself
does (raise / accept, attributes changed or not) is recorded as an OUTCOME only.
Required afterwards: a run with the configuration the object REPORTS (iPu, noise_var,
pe, metric_name and its stored arguments) works, is bit-identical to a fresh object
put into that configuration through valid calls (B-relations evaluated on a
difference); an object that reports a metric must not make a run raise; the next
VALID configuration restores exactly the behaviour of a fresh object.
Scaled histories (pairwise: global scale x what happens between two runs on ONE object): at
every scale 1e-12, 1e-9, 1e-6, 1e6, 1e12 (noise x scale^2), for every class / entry point /
metric: run, {other member of the same shape and scale in place | nothing | scaled copy x2 |
run on the other layout | refresh + iPu change}, run -- judged like every history.
Re-layout histories: ONE object, run on a 6x6 (4x4) channel under one layout, then
obj.num_users reassigned (alone | + iPu | + noise_var, pe), then the SAME channel content
again | another content under another layout (6x6: 2x3, 3x2, 6x1; 4x4: 2x2, 4x1; every ordered
pair) for both BlockDiagonalizer entry points, EnhancedBD None / naive / fixed / capacity and
WhiteningBD; relations of the CURRENT layout + fresh-object differential.
Zero external interference (pairwise: ext-int level x metric): pe in {0 (int), 0.0, 1e-12, 1}
and an ext_int_pathloss that is exactly 0 for ONE user (first / last), x every metric x
rank x layout; all B relations with the per-user interference rank.
Scale families (A and B): every coefficient x c, c in {1e-12,1e-9,1e-6,1e6}, with
noise x c^2 (and pe x c^2 where only the users' channel is scaled) and one
independently scaled noise; every tolerance is relative to the scale of the case.
A0/B0: the channel array / channel object handed in is bit-identical after the
call; (A) a second call with the same objects returns the same.
"""
import math

import numpy as np

from vmc import bfs
from vmc import families
from vmc.numerics import EPS
from vmc.parallel import run_shards, shard

PID = "C09"
LEVEL = "exploration"
ENGINE = "E1 exhaustive product enumerator + E3-style exhaustive event histories on one re-used object"
RULE = ("A: (K,n) in {2,3}x{1,2,3} x {generic G_s, weak user, weak antenna, kappa=1e3} x iPu{1,0.5,2.5} "
        "x noise{1,1e-3,0.1,10} through block_diagonalize and block_diagonalize_no_waterfilling; "
        "B: same layouts x {generic, weak user} x ext-int rank{1,2} x pe{1,0.1,10} x noise{None,1e-3,0.1,1,10} "
        "x iPu x {EnhancedBD None, naive(ns=1..n), fixed(ns=1..n), capacity, effective_throughput(PSK4,60), "
        "WhiteningBD(noise>0)}. Oracle: nulling / power / inversion identities on the returned matrices "
        "against the literal channel matrix, a reference global water-filling over independently computed "
        "stream gains, interference removal W R_ext W^H = 0, metric-optimal stream count. Every case is "
        "non-trivial (all users interfere: no zero block in any family member); distinct = (part, layout, "
        "family member, iPu, noise, rank, pe, variant). H: one re-used EnhancedBD/WhiteningBD/"
        "BlockDiagonalizer object x every event sequence <= depth 3 (thorough 4) ending in a run over "
        "{set metric x7, iPu x2, pe x2, noise_var, run A|B}; result of the last run checked against the "
        "relations for the current configuration and bit-for-bit against a fresh object; distinct = history. "
        "Histories include refresh-in-place of the caller's one channel buffer / channel object; inputs "
        "bit-identical after every checked call; repeated call identical. Scale families: A and B with all "
        "coefficients x{1e-12,1e-9,1e-6,1e6}, noise (pe) x c^2 and one independent noise. L: every ordered "
        "pair (and triple) of differently configured LIVE objects of one class x 3 construction/configuration "
        "orders x 2 run orders, every run bit-identical to one fresh object. Scaled histories: run / {other member, same, x2 copy, other layout, "
        "refresh+iPu} / run at scales {1e-12,1e-9,1e-6,1e6,1e12} for every class, entry point and metric. Zero "
        "ext-int: pe {0,0.0,1e-12,1} and ext_int_pathloss 0 for one user x every metric. E: every invalid call x every "
        "configuration: outcome recorded; afterwards the object is coherent with the configuration it reports "
        "and a valid re-configuration restores fresh behaviour")

LAYOUTS = ((2, 1), (2, 2), (3, 1), (2, 3), (3, 2), (3, 3))
IPUS = (1.0, 0.5, 2.5)
NOISES = (1.0, 1e-3, 0.1, 10.0)
PES = (1.0, 0.1, 10.0)
KAPPA_MAX = 1e6          # conditioning bound of the property ("full rank"); beyond: excluded + counted
C_NULL = 1e3             # ||H_l Ms_k|| <= C_NULL*eps*kappa*||H||*||Ms_k||
C_POW = 1e3
C_INV = 1e3
C_WF = 1e4
C_REM = 1e4


def fro(a):
    return float(np.linalg.norm(a))


def two(a):
    a = np.atleast_2d(a)
    if a.size == 0:
        return 0.0
    return float(np.linalg.norm(a, 2))


# ----------------------------------------------------------------------
# families
# ----------------------------------------------------------------------
def channel_members(K, n, tier, part):
    """(family, s, H) -- H is (K n) x (K n); deterministic, seed only rotates offsets"""
    N = K * n
    S = (40 if tier == "thorough" else 6) if part == "A" else (12 if tier == "thorough" else 3)
    for s in range(S):
        yield "generic", s, families.generic(s, (N, N), True, tag=9)
    W = (8 if tier == "thorough" else 3) if part == "A" else (4 if tier == "thorough" else 1)
    for s in range(W):
        H = families.generic(100 + s, (N, N), True, tag=9)
        u = s % K
        H = H.copy()
        H[u * n:(u + 1) * n, :] *= 1e-3
        yield "weak_user", s, H
    if part == "A":
        for s in range(W):
            H = families.generic(200 + s, (N, N), True, tag=9).copy()
            H[(s * 5 + 1) % N, :] *= 1e-3
            yield "weak_antenna", s, H
        for s in range(W):
            yield "kappa1e3", s, families.nearly_dependent(s, (N, N), 1e3, tag=9)


def ext_channel(K, n, r, s):
    return families.generic(500 + s, (K * n, r), True, tag=9)


# ----------------------------------------------------------------------
# reference model pieces
# ----------------------------------------------------------------------
def ref_waterfilling(g, Pt, N):
    """(P, level).  Powers are computed without forming level - threshold
    (P_i = (Pt + sum_j (t_j - t_i)) / k over the k active channels), so they stay
    relatively accurate when the thresholds dwarf Pt."""
    t = [N / gi for gi in g]
    order = sorted(range(len(t)), key=lambda i: t[i])
    ts = [t[i] for i in order]
    for k in range(len(ts), 0, -1):
        if k == 1 or math.fsum([Pt] + [tj - ts[k - 1] for tj in ts[:k]]) >= 0.0:
            break
    level = math.fsum([Pt] + ts[:k]) / k
    P = [0.0] * len(t)
    for r in range(k):
        P[order[r]] = max(0.0, math.fsum([Pt] + [tj - ts[r] for tj in ts[:k]]) / k)
    return P, level


def stream_gains(H, K, n):
    """singular values of H_k restricted to the null space of the other users'
    stacked channel (QR null space: a primitive the implementation does not use)"""
    N = K * n
    out = []
    for k in range(K):
        rows = [i for i in range(N) if not (k * n <= i < (k + 1) * n)]
        Ht = H[rows, :]
        Q, _ = np.linalg.qr(Ht.conj().T, mode="complete")
        N0 = Q[:, Ht.shape[0]:]
        sv = np.linalg.svd(H[k * n:(k + 1) * n, :] @ N0, compute_uv=False)
        out.append(np.sort(sv)[::-1])
    return out


def block(M, k, n, axis):
    return M[k * n:(k + 1) * n, :] if axis == 0 else M[:, k * n:(k + 1) * n]


# ----------------------------------------------------------------------
# Part A
# ----------------------------------------------------------------------
def check_plain(chk, H, K, n, iPu, noise, method, newH, Ms, W, case, kappaH, normH, tag=""):
    N = K * n
    name = "BlockDiagonalizer." + method + tag
    newH = np.asarray(newH)
    Ms = np.asarray(Ms)
    if newH.shape != (N, N) or Ms.shape != (N, N) or not np.all(np.isfinite(newH)) \
            or not np.all(np.isfinite(Ms)):
        chk.fail((name, "malformed_result"), case,
                 observed="newH %r Ms %r finite=%r" % (newH.shape, Ms.shape,
                                                       bool(np.all(np.isfinite(Ms)))),
                 expected="(%d,%d) finite" % (N, N))
        return
    normMs = two(Ms)
    eff = H @ Ms
    # A1
    if fro(newH - eff) > C_NULL * EPS * normH * normMs:
        chk.fail((name, "newH_ne_H_Ms"), case, observed=fro(newH - eff), expected=0)
    worst = 0.0
    for k in range(K):
        for l in range(K):
            if k != l:
                worst = max(worst, fro(eff[k * n:(k + 1) * n, l * n:(l + 1) * n]))
    if worst > C_NULL * EPS * kappaH * normH * normMs:
        chk.fail((name, "interference_not_nulled"), case, observed=worst,
                 expected="<= %g" % (C_NULL * EPS * kappaH * normH * normMs))
    # A2
    colp = np.sum(np.abs(Ms) ** 2, axis=0)
    up = np.array([float(np.sum(colp[k * n:(k + 1) * n])) for k in range(K)])
    tolp = C_POW * EPS * iPu
    if np.any(up > iPu + tolp):
        chk.fail((name, "transmitter_power_exceeds_iPu"), case, observed=up, expected=iPu)
    if method == "block_diagonalize":
        if abs(float(np.max(up)) - iPu) > tolp:
            chk.fail((name, "no_transmitter_at_full_power"), case, observed=up, expected=iPu)
    else:
        if float(np.max(np.abs(up - iPu))) > tolp:
            chk.fail((name, "transmitter_power_ne_iPu"), case, observed=up, expected=iPu)
    # A3
    powered = colp > 0
    noff = int(np.sum(~powered))
    chk.outcome("switched_off_streams", (method, K, n, noff))
    if noff:
        chk.count("cases_with_switched_off_stream")
    W = np.asarray(W)
    if W.shape != (N, N):
        chk.fail((name, "receive_filter", "shape"), case, observed=W.shape, expected=(N, N))
    elif np.any(powered):
        sv = np.linalg.svd(newH[:, powered], compute_uv=False)
        kap = float(sv[0] / sv[-1]) if sv[-1] > 0 else math.inf
        if kap > KAPPA_MAX:
            chk.count("excluded_effective_channel_cond>1e6")
        else:
            D = np.diag(powered.astype(float))
            e = float(np.max(np.abs(W @ newH - D)))
            if e > C_INV * EPS * kap * N:
                chk.fail((name, "receive_filter", "not_inverse_on_powered_streams"), case,
                         observed=e, expected="<= %g" % (C_INV * EPS * kap * N))
    # A4
    if method == "block_diagonalize":
        gains = stream_gains(H, K, n)
        g = np.concatenate(gains) ** 2
        Pt = K * iPu
        P, level = ref_waterfilling(g.tolist(), Pt, noise)
        P = np.array(P).reshape(K, n)
        users = P.sum(axis=1)
        P = P * (iPu / float(np.max(users)))
        tol = C_WF * EPS * kappaH ** 2 * max(level, Pt) * (iPu / float(np.max(users)))
        obs = np.array([np.sort(colp[k * n:(k + 1) * n])[::-1] for k in range(K)])
        ref = np.array([np.sort(P[k])[::-1] for k in range(K)])
        if float(np.max(np.abs(obs - ref))) > tol:
            chk.fail((name, "stream_powers_differ_from_global_waterfilling"), case,
                     observed=obs, expected=ref)
        # the powered columns carry the gains the allocation was computed for
        for k in range(K):
            Hk = H[k * n:(k + 1) * n, :]
            got = []
            for i in range(k * n, (k + 1) * n):
                if colp[i] > 0:
                    got.append(fro(Hk @ Ms[:, i]) / math.sqrt(colp[i]))
            got = np.sort(np.array(got))[::-1]
            want = gains[k][:len(got)]
            if got.size and float(np.max(np.abs(got - want))) > C_WF * EPS * kappaH * normH:
                chk.fail((name, "powered_streams_not_on_strongest_singular_directions"), case,
                         observed=got, expected=want)


def eval_plain(chk, H, K, n, iPu, noise, case):
    from pyphysim.channels import multiuser
    from pyphysim.comm import blockdiagonalization as bdm
    N = K * n
    sv = np.linalg.svd(H, compute_uv=False)
    kappaH = float(sv[0] / sv[-1]) if sv[-1] > 0 else math.inf
    if kappaH > KAPPA_MAX:
        chk.count("excluded_channel_cond>1e6")
        return
    mc = multiuser.MultiUserChannelMatrix()
    mc.init_from_channel_matrix(H.copy(), np.full(K, n), np.full(K, n), K)
    bigH = mc.big_H
    if bigH.shape != H.shape or not np.array_equal(bigH, H):
        chk.fail(("MultiUserChannelMatrix", "big_H_ne_init_matrix"), case, observed=bigH, expected=H)
        return
    # non-vacuity from the oracle side: how many streams the reference water-filling switches off
    gref = np.concatenate(stream_gains(H, K, n)) ** 2
    Pref, _ = ref_waterfilling(gref.tolist(), K * iPu, noise)
    chk.outcome("ref_switched_off_streams", (K, n, sum(1 for v in Pref if v == 0.0)))
    for method in ("block_diagonalize", "block_diagonalize_no_waterfilling"):
        with chk.guard(("BlockDiagonalizer." + method,), dict(case, method=method)):
            chk.count("eval_plain_bd")
            bd = bdm.BlockDiagonalizer(K, iPu, noise)
            newH, Ms = getattr(bd, method)(bigH)
            W = bd.calc_receive_filter(newH)
            check_plain(chk, H, K, n, iPu, noise, method, newH, Ms, W, dict(case, method=method),
                        kappaH, float(sv[0]))
            if not np.array_equal(bigH, H):
                chk.fail(("BlockDiagonalizer." + method, "input_channel_modified"),
                         dict(case, method=method), observed=bigH, expected=H)
            keepH, keepMs = np.array(newH), np.array(Ms)
            newH_b, Ms_b = getattr(bd, method)(bigH)
            chk.count("eval_plain_bd")
            if not (np.array_equal(newH_b, keepH) and np.array_equal(Ms_b, keepMs)
                    and np.array_equal(newH, keepH) and np.array_equal(Ms, keepMs)):
                chk.fail(("BlockDiagonalizer." + method, "second_call_same_objects_differs"),
                         dict(case, method=method), observed=Ms_b, expected=keepMs)
            if method == "block_diagonalize":
                newH2, Ms2 = bdm.block_diagonalize(bigH, K, iPu, noise)
                W2 = bdm.calc_receive_filter(newH2)
                if not (np.array_equal(newH2, newH) and np.array_equal(Ms2, Ms)
                        and np.array_equal(W2, W)):
                    chk.fail(("module_functions", "differ_from_BlockDiagonalizer_methods"),
                             dict(case, method=method), observed=Ms2, expected=Ms)
    chk.nontriv(("A", K, n, case["family"], case["s"], iPu, noise))


# ----------------------------------------------------------------------
# Part B
# ----------------------------------------------------------------------
def variants(n):
    yield ("enhanced", None, None)
    for ns in range(1, n + 1):
        yield ("enhanced", "naive", ns)
    for ns in range(1, n + 1):
        yield ("enhanced", "fixed", ns)
    yield ("enhanced", "capacity", None)
    yield ("enhanced", "effective_throughput", None)
    yield ("whitening", None, None)


def make_ext_channel(Hfull, K, n, r, noise, ext_pl=None):
    from pyphysim.channels import multiuser
    mc = multiuser.MultiUserChannelMatrixExtInt()
    mc.init_from_channel_matrix(Hfull.copy(), np.full(K, n), np.full(K, n), K, r)
    if noise is not None:
        mc.noise_var = noise
    if ext_pl is not None:
        # unit path loss between the users, `ext_pl[k]` from the interference source to receiver k
        mc.set_pathloss(np.ones((K, K)), np.array(ext_pl, dtype=float).reshape(K, 1))
    return mc


def effective_channel(Hfull, K, n, ext_pl):
    """the literal channel the property speaks about: path loss is a power relation, the
    external-interference columns of receiver k are multiplied by sqrt(ext_pl[k])"""
    if ext_pl is None:
        return Hfull
    Heff = np.array(Hfull, dtype=complex)
    for k in range(K):
        Heff[k * n:(k + 1) * n, K * n:] *= math.sqrt(float(ext_pl[k]))
    return Heff


def apply_metric(obj, metric, ns):
    from pyphysim.modulators import fundamental
    if metric in ("naive", "fixed"):
        obj.set_ext_int_handling_metric(metric, {"num_streams": ns})
    elif metric == "effective_throughput":
        obj.set_ext_int_handling_metric(metric, {"modulator": fundamental.PSK(4), "packet_length": 60})
    else:
        obj.set_ext_int_handling_metric(metric)


def run_variant(Hfull, K, n, r, noise, pe, iPu, variant, chk=None, case=None, ext_pl=None):
    """fresh channel + fresh BD object; returns (Ms_all, W_all, Ns_all)"""
    from pyphysim.comm import blockdiagonalization as bdm
    from pyphysim.modulators import fundamental
    mc = make_ext_channel(Hfull, K, n, r, noise, ext_pl)
    snapshot = np.array(mc.big_H)
    kind, metric, ns = variant
    nv = 0.0 if noise is None else noise
    if kind == "whitening":
        obj = bdm.WhiteningBD(K, iPu, nv, pe)
    else:
        obj = bdm.EnhancedBD(K, iPu, nv, pe)
        if metric in ("naive", "fixed"):
            obj.set_ext_int_handling_metric(metric, {"num_streams": ns})
        elif metric == "effective_throughput":
            obj.set_ext_int_handling_metric(metric, {"modulator": fundamental.PSK(4),
                                                     "packet_length": 60})
        else:
            obj.set_ext_int_handling_metric(metric)
    res = obj.block_diagonalize_no_waterfilling(mc)
    if chk is not None:
        check_channel_untouched(chk, mc, snapshot, K, n, noise, ("WhiteningBD" if kind == "whitening"
                                                               else "EnhancedBD", str(metric)), case)
    return res


def check_channel_untouched(chk, mc, Hfull, K, n, noise, name, case):
    """the channel object handed to the BD object is bit-identical after the call"""
    ok = (np.array_equal(mc.big_H, Hfull) and mc.noise_var == noise and mc.K == K
          and np.array_equal(mc.Nr, np.full(K, n)) and np.array_equal(mc.Nt, np.full(K, n)))
    if not ok:
        chk.fail(tuple(name) + ("input_channel_object_modified",), case,
                 observed="big_H equal=%r noise_var=%r Nt=%r" % (bool(np.array_equal(mc.big_H, Hfull)),
                                                                  mc.noise_var, mc.Nt),
                 expected="unchanged channel object")


def first_principles_metric(metric, Wk, Hk, Msk, Re_k):
    A = Wk @ Hk @ Msk
    d = np.abs(np.diagonal(A)) ** 2
    interf = np.sum(np.abs(A) ** 2, axis=1) - d
    nz = np.real(np.diagonal(Wk @ Re_k @ Wk.conj().T))
    sinr = d / (interf + np.abs(nz))
    if metric == "capacity":
        return float(np.sum(np.log2(1.0 + sinr)))
    from pyphysim.modulators import fundamental
    se = fundamental.PSK(4).calcTheoreticalSpectralEfficiency(10.0 * np.log10(sinr), 60)
    return float(np.sum(se))


def own_kappa(kind, metric, nsk, n, A, Re_k):
    """condition number of the matrix the receive filter has to invert, computed
    here (never from the returned filter): A = H_k Ms_k, projected on the kept
    receive subspace where the variant projects.  None when that subspace is not
    unique (degenerate eigenvalues of R_e at the cut)."""
    if kind == "whitening" or metric is None or nsk == n:
        B = A
    elif metric == "naive":
        B = A[:nsk, :]
    else:
        lam, V = np.linalg.eigh((Re_k + Re_k.conj().T) / 2.0)
        gap = lam[nsk] - lam[nsk - 1]
        if gap <= 1e-6 * max(abs(lam[-1]), 1e-300):
            return None
        B = V[:, :nsk].conj().T @ A
    sv = np.linalg.svd(B, compute_uv=False)
    return float(sv[0] / sv[-1]) if sv[-1] > 0 else math.inf


def check_ext(chk, Hfull, K, n, r, noise, pe, iPu, variant, res, case, tag=()):
    kind, metric, ns = variant
    name = ("WhiteningBD" if kind == "whitening" else "EnhancedBD", str(metric)) + tuple(tag)
    N = K * n
    H = Hfull[:, :N]
    He = Hfull[:, N:]
    normH = two(H)
    svH = np.linalg.svd(H, compute_uv=False)
    kappaH = float(svH[0] / svH[-1])
    Ms_all, W_all, Ns_all = res
    if len(Ms_all) != K or len(W_all) != K or len(Ns_all) != K:
        chk.fail(name + ("malformed_result",), case,
                 observed=(len(Ms_all), len(W_all), len(Ns_all)), expected=K)
        return
    sig2 = 0.0 if noise is None else noise
    Rext = [pe * (He[k * n:(k + 1) * n] @ He[k * n:(k + 1) * n].conj().T) for k in range(K)]
    Re = [Rext[k] + sig2 * np.eye(n) for k in range(K)]
    kapw = 1.0
    if kind == "whitening":
        kapw = max(math.sqrt(float(np.linalg.cond(Re[k]))) for k in range(K))
    kap_whole = None
    if kind == "whitening":
        # WhiteningBD inverts the WHOLE whitened effective channel blockdiag(R_k^-1/2 H_k Ms_k)
        # with one pinv: its conditioning is max over users / min over users
        try:
            smax, smin = 0.0, math.inf
            for k in range(K):
                lam, V = np.linalg.eigh((Re[k] + Re[k].conj().T) / 2.0)
                Rmh = (V / np.sqrt(lam)) @ V.conj().T
                sv = np.linalg.svd(Rmh @ H[k * n:(k + 1) * n, :] @ np.asarray(Ms_all[k]),
                                   compute_uv=False)
                smax, smin = max(smax, float(sv[0])), min(smin, float(sv[-1]))
            kap_whole = smax / smin if smin > 0 else math.inf
        except Exception:  # malformed precoders are reported by B1 below
            kap_whole = None
    for k in range(K):
        Msk = np.asarray(Ms_all[k])
        Wk = np.asarray(W_all[k])
        nsk = int(Ns_all[k])
        Hk = H[k * n:(k + 1) * n, :]
        # B1
        want_ns = ns if metric in ("naive", "fixed") else (n if (kind == "whitening" or metric is None) else None)
        if Msk.ndim != 2 or Wk.ndim != 2 or Msk.shape != (N, nsk) or Wk.shape != (nsk, n) \
                or not (1 <= nsk <= n) or (want_ns is not None and nsk != want_ns):
            chk.fail(name + ("stream_count_mismatch",), case,
                     observed="Ns=%r Ms %r W %r" % (nsk, Msk.shape, Wk.shape),
                     expected="Ns=%s, Ms (%d,Ns), W (Ns,%d)" % (want_ns if want_ns else "1..n", N, n))
            continue
        if not (np.all(np.isfinite(Msk)) and np.all(np.isfinite(Wk))):
            chk.fail(name + ("non_finite_result",), case, observed="nan/inf in precoder or filter",
                     expected="finite")
            continue
        # B2
        worst = 0.0
        for l in range(K):
            if l != k:
                worst = max(worst, fro(H[l * n:(l + 1) * n, :] @ Msk))
        tol = C_NULL * EPS * kappaH * kapw * normH * max(two(Msk), 1e-300)
        if worst > tol:
            chk.fail(name + ("interference_not_nulled",), case, observed=worst, expected="<= %g" % tol)
        # B3
        p = fro(Msk) ** 2
        if abs(p - iPu) > C_POW * EPS * iPu:
            chk.fail(name + ("user_power_ne_iPu",), case, observed=p, expected=iPu)
        # B4
        A = Hk @ Msk
        kap = own_kappa(kind, metric, nsk, n, A, Re[k])
        if kind == "whitening" and kap_whole is not None:
            kap = max(kap, kap_whole)
        if kap is None:
            # degenerate eigen-subspace of R_e: the kept subspace is not unique, its
            # conditioning can only be read off the returned filter
            chk.count("kappa_from_returned_filter")
            kap = two(Wk) * two(A)
        if not (kap <= KAPPA_MAX):
            chk.count("excluded_equivalent_channel_cond>1e6")
        else:
            e = float(np.max(np.abs(Wk @ A - np.eye(nsk))))
            if e > C_INV * EPS * max(kap, 1.0) * kapw * n:
                chk.fail(name + ("receive_filter_not_inverse",), case, observed=e,
                         expected="<= %g" % (C_INV * EPS * max(kap, 1.0) * kapw * n))
        # B5
        reff = min(n, r) if np.any(Rext[k]) else 0        # no interference reaches this user at all
        aware = (metric == "fixed") or (metric in ("capacity", "effective_throughput") and nsk < n)
        if aware and nsk <= n - reff:
            chk.count("eval_interference_removal")
            chk.outcome("interference_removed", (str(metric), n, r, nsk))
            resid = two(Wk @ Rext[k] @ Wk.conj().T)
            tolr = C_REM * EPS * two(Wk) ** 2 * two(Re[k])
            if resid > tolr:
                chk.fail(name + ("external_interference_not_removed",), case, observed=resid,
                         expected="<= %g" % tolr)
    if metric in ("capacity", "effective_throughput"):
        chk.outcome("chosen_streams", (metric, n, tuple(int(v) for v in Ns_all)))
        if noise is None:
            chk.count("excluded_selection_optimality_without_noise")
        else:
            # B6: metric of the returned solution vs every fixed number of streams
            alts = {}
            for a in range(1, n + 1):
                alts[a] = run_variant(Hfull, K, n, r, noise, pe, iPu,
                                      ("enhanced", "fixed" if a < n else "naive", a))
                chk.count("eval_selection_competitors")
            for k in range(K):
                Hk = H[k * n:(k + 1) * n, :]
                got = first_principles_metric(metric, np.asarray(W_all[k]), Hk,
                                              np.asarray(Ms_all[k]), Re[k])
                vals = {a: first_principles_metric(metric, np.asarray(alts[a][1][k]), Hk,
                                                   np.asarray(alts[a][0][k]), Re[k])
                        for a in alts}
                best = max(vals.values())
                if not (got >= best - 1e-9 * (1.0 + abs(best))):
                    chk.fail(name + ("kept_stream_count_not_metric_optimal",), case,
                             observed="user %d keeps %d streams, metric %r" % (k, int(Ns_all[k]), got),
                             expected="metric per stream count %r" % (vals,))


def eval_ext(chk, Hfull, K, n, r, noise, pe, iPu, variant, case, ext_pl=None):
    kind, metric, ns = variant
    name = ("WhiteningBD" if kind == "whitening" else "EnhancedBD", str(metric))
    # non-vacuity from the oracle side, before the library runs
    chk.outcome("metric_x_rank", (kind, str(metric), r))
    if metric == "fixed" and ns <= n - min(n, r):
        chk.outcome("removal_required", (n, r, ns))
    with chk.guard(name, case):
        chk.count("eval_extint_bd")
        res = run_variant(Hfull, K, n, r, noise, pe, iPu, variant, chk, case, ext_pl)
        check_ext(chk, effective_channel(Hfull, K, n, ext_pl), K, n, r, noise, pe, iPu, variant, res, case)
    chk.nontriv(("B", K, n, case["family"], case["s"], r, noise, pe, iPu, kind, str(metric), ns))


# ----------------------------------------------------------------------
# Part H: ONE BD object re-configured and re-used (explicit-state exploration
# of event histories, every history executed on the implementation)
# ----------------------------------------------------------------------
H_METRICS = ((None, None), ("naive", 1), ("naive", 2), ("fixed", 1), ("fixed", 2),
             ("capacity", None), ("effective_throughput", None))
H_CHANNELS = {"A": (2, 2, 1, 0.1), "B": (2, 3, 2, 1.0)}      # K, n, ext-int rank, channel noise
H_INIT = {"iPu": 1.0, "noise_var": 1.0, "pe": 1.0}


def hist_channels():
    """three members per layout: the buffer / channel object is refreshed IN PLACE with the next one"""
    out = {}
    for name, (K, n, r, noise) in H_CHANNELS.items():
        out[name] = [np.hstack([families.generic(700 + 10 * m + n, (K * n, K * n), True, tag=9),
                                ext_channel(K, n, r, 700 + 10 * m + n)]) for m in range(3)]
    return out


def hist_events(cls, tier="quick"):
    if tier == "thorough":
        attrs = [("iPu", 0.5), ("iPu", 2.5), ("pe", 0.1), ("pe", 10.0)]
    else:
        attrs = [("iPu", 2.5), ("pe", 10.0)]
    refresh = [("refresh", "A"), ("refresh", "B")]
    if cls == "EnhancedBD":
        return ([("metric", m, ns) for m, ns in H_METRICS] + attrs + [("noise_var", 0.1)] + refresh
                + [("run", "A"), ("run", "B")])
    if cls == "WhiteningBD":
        return attrs + [("noise_var", 0.1)] + refresh + [("run", "A"), ("run", "B")]
    return [("iPu", 0.5), ("iPu", 2.5), ("noise_var", 1e-2), ("noise_var", 10.0)] + refresh + \
           [("run_wf", "A"), ("run_wf", "B"), ("run_nowf", "A"), ("run_nowf", "B")]


def hist_sequences(tier):
    """every event sequence of length <= D that ends in a run, for every class and
    every initially configured metric (EnhancedBD)"""
    import itertools
    D = 4 if tier == "thorough" else 3
    for cls in ("EnhancedBD", "WhiteningBD", "BlockDiagonalizer"):
        evs = hist_events(cls, tier)
        runs = [e for e in evs if e[0].startswith("run")]
        inits = [(("metric", m, ns),) for m, ns in H_METRICS] if cls == "EnhancedBD" else [()]
        for init in inits:
            for L in range(1, D + 1):
                for pre in itertools.product(evs, repeat=L - 1):
                    for last in runs:
                        yield cls, init, tuple(pre) + (last,)


def _parts(x):
    """a result element is either one ndarray or a sequence / object array of ndarrays"""
    if isinstance(x, (list, tuple)) or (isinstance(x, np.ndarray) and x.dtype == object):
        return [np.asarray(u) for u in x]
    return [np.asarray(x)]


def _same_result(a, b):
    if len(a) != len(b):
        return False
    for x, y in zip(a, b):
        px, py = _parts(x), _parts(y)
        if len(px) != len(py) or not all(u.shape == v.shape and np.array_equal(u, v)
                                         for u, v in zip(px, py)):
            return False
    return True


def _copy_result(res):
    return [[np.array(u) for u in _parts(x)] for x in res]


def run_history(chk, cls, init, seq, chans, case, scale=1.0):
    """execute the history on ONE BD object, with ONE caller-owned channel buffer
    (BlockDiagonalizer) / ONE channel object (ext-int classes) per layout that is
    refreshed in place; check the LAST run: relations for the current configuration
    and current channel content, inputs bit-identical after the call, bit-for-bit
    equal to a fresh object on fresh inputs, and a second call gives the same."""
    from pyphysim.comm import blockdiagonalization as bdm
    from vmc import bfs
    # `chans` are already multiplied by `scale`; every noise variance scales with scale^2
    # so that the scaled history is the same problem in other units
    n2 = float(scale) * float(scale)
    cfg = dict(H_INIT, metric=None, ns=None)
    cfg["noise_var"] = H_INIT["noise_var"] * n2
    K = 2
    if cls == "EnhancedBD":
        obj = bdm.EnhancedBD(K, cfg["iPu"], cfg["noise_var"], cfg["pe"])
    elif cls == "WhiteningBD":
        obj = bdm.WhiteningBD(K, cfg["iPu"], cfg["noise_var"], cfg["pe"])
    else:
        obj = bdm.BlockDiagonalizer(K, cfg["iPu"], cfg["noise_var"])
    plain = cls == "BlockDiagonalizer"
    member = {"A": 0, "B": 0}
    factor = {"A": 1.0, "B": 1.0}
    hch = {nm: (v[0], v[1], v[2], v[3] * n2) for nm, v in H_CHANNELS.items()}
    bufs = {}      # name -> the caller's ndarray, the SAME object for every call
    mcs = {}       # name -> the caller's channel object, the SAME object for every call
    res = None
    last = None
    changed = set()

    def current(name):
        Kc, n, r, cnoise = hch[name]
        M = np.asarray(chans[name][member[name]]) * factor[name]
        return M[:, :Kc * n] if plain else M

    def call(ev):
        name = ev[1]
        Kc, n, r, cnoise = hch[name]
        if plain:
            if name not in bufs:
                bufs[name] = np.array(current(name))
            method = "block_diagonalize" if ev[0] == "run_wf" else "block_diagonalize_no_waterfilling"
            return getattr(obj, method)(bufs[name])
        if name not in mcs:
            mcs[name] = make_ext_channel(current(name), Kc, n, r, cnoise)
        return obj.block_diagonalize_no_waterfilling(mcs[name])

    prev = (bfs.digest(bfs.state_of(obj)), 0, 0, 1.0, 1.0, scale)
    chk.outcome("history_states", (cls,) + prev)
    for ev in tuple(init) + tuple(seq):
        if ev[0] == "metric":
            apply_metric(obj, ev[1], ev[2])
            cfg["metric"], cfg["ns"] = ev[1], ev[2]
            changed.add("metric")
        elif ev[0] in ("iPu", "noise_var", "pe"):
            val = ev[1] * n2 if ev[0] == "noise_var" else ev[1]
            setattr(obj, ev[0], val)
            cfg[ev[0]] = val
            changed.add(ev[0])
        elif ev[0] in ("refresh", "rescale"):
            name = ev[1]
            Kc, n, r, cnoise = hch[name]
            if ev[0] == "refresh":      # another family member of the same shape and scale
                member[name] = (member[name] + 1) % len(chans[name])
            else:                       # a scaled copy (x2) of the same member
                factor[name] *= 2.0
            if plain and name in bufs:
                bufs[name][:] = current(name)                     # H[:] = new_H
            elif not plain and name in mcs:
                mcs[name].init_from_channel_matrix(np.array(current(name)), np.full(Kc, n),
                                                   np.full(Kc, n), Kc, r)
                mcs[name].noise_var = cnoise
            changed.add("refresh_in_place" if ev[0] == "refresh" else "rescale_in_place")
        else:
            res = call(ev)
            last = (ev, tuple(sorted(changed)))
            changed = set()
        chk.count("eval_history_events")
        cur = (bfs.digest(bfs.state_of(obj)), member["A"], member["B"], factor["A"], factor["B"], scale)
        chk.outcome("history_states", (cls,) + cur)
        chk.outcome("history_transitions", (cls,) + prev + (repr(ev),))
        prev = cur
    ev, since = last
    how = "after_" + ("+".join(since) if since else "rerun")
    name = ev[1]
    Kc, n, r, cnoise = hch[name]
    Hcur = np.array(current(name))
    chk.count("eval_history_runs_checked")
    saved = _copy_result(res)
    if plain:
        method = "block_diagonalize" if ev[0] == "run_wf" else "block_diagonalize_no_waterfilling"
        sname = ("BlockDiagonalizer." + method,)
        if not np.array_equal(bufs[name], Hcur):
            chk.fail(sname + ("reused_object", "input_channel_modified"), case,
                     observed=bufs[name], expected=Hcur)
        newH, Ms = res
        sv = np.linalg.svd(Hcur, compute_uv=False)
        W = obj.calc_receive_filter(newH)
        check_plain(chk, Hcur, Kc, n, cfg["iPu"], cfg["noise_var"], method, newH, Ms, W, case,
                    float(sv[0] / sv[-1]), float(sv[0]), tag="[reused_object]")
        fresh = getattr(bdm.BlockDiagonalizer(K, cfg["iPu"], cfg["noise_var"]), method)(np.array(Hcur))
    else:
        kind = "whitening" if cls == "WhiteningBD" else "enhanced"
        variant = (kind, cfg["metric"], cfg["ns"])
        sname = (cls, str(cfg["metric"]))
        check_channel_untouched(chk, mcs[name], Hcur, Kc, n, cnoise, sname + ("reused_object",), case)
        check_ext(chk, Hcur, Kc, n, r, cnoise, cfg["pe"], cfg["iPu"], variant, res, case,
                  tag=("reused_object",))
        if cls == "WhiteningBD":
            fo = bdm.WhiteningBD(K, cfg["iPu"], cfg["noise_var"], cfg["pe"])
        else:
            fo = bdm.EnhancedBD(K, cfg["iPu"], cfg["noise_var"], cfg["pe"])
            apply_metric(fo, cfg["metric"], cfg["ns"])
        fresh = fo.block_diagonalize_no_waterfilling(make_ext_channel(Hcur, Kc, n, r, cnoise))
    if not _same_result(saved, fresh):
        chk.fail((cls, "reused_object", "differs_from_fresh_object", how), case,
                 observed="power per user %r" % ([float(np.linalg.norm(m) ** 2) for m in saved[0]]
                                                  if not plain else "Ms differs"),
                 expected="identical to a freshly constructed object on fresh inputs with %r" % (cfg,))
    # the same call once more on the same objects
    again = call(ev)
    chk.count("eval_history_events")
    if not (_same_result(again, saved) and _same_result(res, saved)):
        chk.fail((cls, "reused_object", "second_call_same_objects_differs", how), case,
                 observed="result of the repeated call (or the first result object) changed",
                 expected="bit-identical results")
    chk.nontriv(("H", cls, tuple(init), tuple(seq), scale))


def eval_history(chk, cls, init, seq, chans, scale=1.0):
    """`chans` unscaled; the history runs on chans*scale with every noise x scale^2"""
    sch = chans if scale == 1.0 else {nm: [np.asarray(M) * scale for M in chans[nm]] for nm in chans}
    case = {"part": "H", "cls": cls, "init": [list(e) for e in init], "history": [list(e) for e in seq],
            "HA": chans["A"], "HB": chans["B"], "scale": scale}
    if scale != 1.0:
        chk.outcome("history_x_scale", (cls, scale, tuple(e[0] for e in seq)))
    with chk.guard((cls, "reused_object"), case):
        run_history(chk, cls, init, seq, sch, case, scale)


H_SCALES = (1e-12, 1e-9, 1e-6, 1e6, 1e12)

# ---- re-layout histories: num_users (and other public attributes) reassigned BETWEEN two runs,
# ---- on channels whose size admits several layouts, with the SAME content again or another one
RELAYOUTS = {6: ((2, 3), (3, 2), (6, 1)), 4: ((2, 2), (4, 1))}
RELAYOUT_VARIANTS = (("BlockDiagonalizer", "block_diagonalize", None), ("BlockDiagonalizer", "block_diagonalize_no_waterfilling", None),
                     ("EnhancedBD", None, None), ("EnhancedBD", "naive", 1), ("EnhancedBD", "fixed", 1),
                     ("EnhancedBD", "capacity", None), ("WhiteningBD", None, None))
RELAYOUT_BETWEEN = ((), (("iPu", 2.5),), (("noise_var", 0.1), ("pe", 10.0)))


def relayout_cases(tier):
    for size, lays in RELAYOUTS.items():
        for l1 in lays:
            for l2 in lays:
                if l1 == l2:
                    continue
                for same in (True, False):
                    for bi in range(len(RELAYOUT_BETWEEN)):
                        for vi in range(len(RELAYOUT_VARIANTS)):
                            yield size, l1, l2, same, bi, vi


def run_relayout(chk, size, l1, l2, same, bi, vi, case):
    from pyphysim.comm import blockdiagonalization as bdm
    cls, metric, ns = RELAYOUT_VARIANTS[vi]
    between = RELAYOUT_BETWEEN[bi]
    plain = cls == "BlockDiagonalizer"
    cnoise = 0.1
    contents = [np.hstack([families.generic(900 + size + 7 * m, (size, size), True, tag=9),
                           families.generic(950 + size + 7 * m, (size, 1), True, tag=9)]) for m in (0, 1)]
    cfg = dict(H_INIT)
    (K1, n1), (K2, n2) = l1, l2
    chk.outcome("relayout", (size, l1, l2, same, bi, cls, str(metric)))      # oracle side, before any call
    if plain:
        obj = bdm.BlockDiagonalizer(K1, cfg["iPu"], cfg["noise_var"])
    elif cls == "WhiteningBD":
        obj = bdm.WhiteningBD(K1, cfg["iPu"], cfg["noise_var"], cfg["pe"])
    else:
        obj = bdm.EnhancedBD(K1, cfg["iPu"], cfg["noise_var"], cfg["pe"])
        apply_metric(obj, metric, ns)

    def call(o, content, K, n):
        if plain:
            return getattr(o, metric)(content[:, :size])
        return o.block_diagonalize_no_waterfilling(make_ext_channel(content, K, n, 1, cnoise))

    buf = np.array(contents[0])
    call(obj, buf, K1, n1)
    chk.count("eval_relayout_events", 2 + len(between))
    obj.num_users = K2                                   # public, settable attribute on HEAD
    for a, v in between:
        if plain and a == "pe":
            continue
        setattr(obj, a, v)
        cfg[a] = v
    if not same:
        buf[:] = contents[1]                             # another channel in the caller's same buffer
    cur = np.array(buf)
    res = call(obj, buf, K2, n2)
    saved = _copy_result(res)
    how = "after_num_users" + "".join("+" + a for a, _ in between) + ("+same_channel" if same else "+other_channel")
    if plain:
        Hp = cur[:, :size]
        sv = np.linalg.svd(Hp, compute_uv=False)
        newH, Ms = res
        check_plain(chk, Hp, K2, n2, cfg["iPu"], cfg["noise_var"], metric, newH, Ms,
                    obj.calc_receive_filter(newH), case, float(sv[0] / sv[-1]), float(sv[0]),
                    tag="[reused_object]")
        fresh = getattr(bdm.BlockDiagonalizer(K2, cfg["iPu"], cfg["noise_var"]), metric)(np.array(Hp))
    else:
        kind = "whitening" if cls == "WhiteningBD" else "enhanced"
        check_ext(chk, cur, K2, n2, 1, cnoise, cfg["pe"], cfg["iPu"], (kind, metric, ns), res, case,
                  tag=("reused_object",))
        if cls == "WhiteningBD":
            fo = bdm.WhiteningBD(K2, cfg["iPu"], cfg["noise_var"], cfg["pe"])
        else:
            fo = bdm.EnhancedBD(K2, cfg["iPu"], cfg["noise_var"], cfg["pe"])
            apply_metric(fo, metric, ns)
        fresh = call(fo, np.array(cur), K2, n2)
    if not _same_result(saved, fresh):
        chk.fail((cls, "reused_object", "differs_from_fresh_object", how), case,
                 observed="result differs", expected="bit-identical to a fresh object with num_users=%d and %r"
                 % (K2, cfg))
    chk.count("eval_relayout_runs_checked")
    chk.nontriv(("R", size, l1, l2, same, bi, vi))


def eval_relayout(chk, size, l1, l2, same, bi, vi):
    case = {"part": "R", "size": size, "l1": list(l1), "l2": list(l2), "same": same, "between": bi, "variant": vi}
    cls = RELAYOUT_VARIANTS[vi][0]
    with chk.guard((cls, "reused_object", "relayout"), case):
        run_relayout(chk, size, l1, l2, same, bi, vi, case)


def scaled_hist_sequences(tier):
    """pairwise covering of {global channel scale} x {what happens between two runs on ONE object}:
    another member of the same shape and scale, the same member again, a scaled copy, another
    layout in between, a configuration change -- for every class / entry point / metric"""
    for cls in ("EnhancedBD", "WhiteningBD", "BlockDiagonalizer"):
        runs = ([("run_wf",), ("run_nowf",)] if cls == "BlockDiagonalizer" else [("run",)])
        inits = [(("metric", m, ns),) for m, ns in H_METRICS] if cls == "EnhancedBD" else [()]
        for scale in H_SCALES:
            for init in inits:
                for (rk,) in runs:
                    for nm, other in (("A", "B"), ("B", "A")):
                        between = [(("refresh", nm),), (), (("rescale", nm),), ((rk, other),),
                                   (("refresh", nm), ("iPu", 2.5))]
                        if tier == "thorough":
                            between += [(("refresh", nm), ("refresh", nm)), (("pe", 10.0), ("refresh", nm))]
                        for mid in between:
                            if cls == "BlockDiagonalizer" and any(e[0] == "pe" for e in mid):
                                continue
                            yield cls, init, ((rk, nm),) + tuple(mid) + ((rk, nm),), scale


# ----------------------------------------------------------------------
# Part L: two / three LIVE objects of one class, configured differently, used in turn
# Part E: invalid calls -- free as calls; afterwards the object must be coherent with what it reports
# ----------------------------------------------------------------------
L_CONFIGS = {
    "EnhancedBD": [dict(metric=None), dict(metric="naive", ns=1), dict(metric="naive", ns=2),
                   dict(metric="fixed", ns=1), dict(metric="fixed", ns=2), dict(metric="capacity"),
                   dict(metric="effective_throughput"), dict(metric="fixed", ns=1, iPu=2.5),
                   dict(metric="naive", ns=2, pe=10.0),
                   dict(metric="fixed", ns=2, iPu=0.5, noise_var=0.1)],
    "WhiteningBD": [dict(), dict(iPu=2.5), dict(pe=10.0), dict(iPu=0.5, noise_var=0.1, pe=0.1)],
    "BlockDiagonalizer": [dict(method="block_diagonalize"), dict(method="block_diagonalize", iPu=2.5),
                          dict(method="block_diagonalize", noise_var=10.0),
                          dict(method="block_diagonalize_no_waterfilling"),
                          dict(method="block_diagonalize_no_waterfilling", iPu=0.5, noise_var=1e-2)],
}


def l_create(cls):
    from pyphysim.comm import blockdiagonalization as bdm
    if cls == "EnhancedBD":
        return bdm.EnhancedBD(2, H_INIT["iPu"], H_INIT["noise_var"], H_INIT["pe"])
    if cls == "WhiteningBD":
        return bdm.WhiteningBD(2, H_INIT["iPu"], H_INIT["noise_var"], H_INIT["pe"])
    return bdm.BlockDiagonalizer(2, H_INIT["iPu"], H_INIT["noise_var"])


def l_configure(cls, obj, cfg):
    for a in ("iPu", "noise_var", "pe"):
        if a in cfg:
            setattr(obj, a, cfg[a])
    if cls == "EnhancedBD":
        apply_metric(obj, cfg.get("metric"), cfg.get("ns"))


def l_run(cls, obj, cfg, chan, name, mc=None):
    Kc, n, r, cnoise = H_CHANNELS[name]
    if cls == "BlockDiagonalizer":
        return getattr(obj, cfg["method"])(np.array(chan[:, :Kc * n]))
    if mc is None:
        mc = make_ext_channel(chan, Kc, n, r, cnoise)
    return obj.block_diagonalize_no_waterfilling(mc)


def l_relations(chk, cls, cfg, chan, name, res, case, tag):
    Kc, n, r, cnoise = H_CHANNELS[name]
    full = dict(H_INIT)
    full.update({k: v for k, v in cfg.items() if k in H_INIT})
    if cls == "BlockDiagonalizer":
        Hp = chan[:, :Kc * n]
        sv = np.linalg.svd(Hp, compute_uv=False)
        newH, Ms = res
        check_plain(chk, Hp, Kc, n, full["iPu"], full["noise_var"], cfg["method"], newH, Ms,
                    np.linalg.pinv(np.asarray(newH)), case, float(sv[0] / sv[-1]), float(sv[0]),
                    tag="[%s]" % tag)
    else:
        kind = "whitening" if cls == "WhiteningBD" else "enhanced"
        check_ext(chk, chan, Kc, n, r, cnoise, full["pe"], full["iPu"],
                  (kind, cfg.get("metric"), cfg.get("ns")), res, case, tag=(tag,))


def cfg_label(cfg):
    return "/".join(str(cfg[k]) for k in ("method", "metric", "ns") if cfg.get(k) is not None) or "default"


_FRESH = {}


def l_fresh(chk, cls, ci, chans, name):
    """result of ONE fresh object with configuration ci (memoised per process);
    its relations are checked once"""
    key = (cls, ci, name)
    if key not in _FRESH:
        cfg = L_CONFIGS[cls][ci]
        obj = l_create(cls)
        l_configure(cls, obj, cfg)
        chan = np.asarray(chans[name][0])
        res = l_run(cls, obj, cfg, chan, name)
        case = {"part": "L", "cls": cls, "configs": [ci], "setup": "AcBc", "runs": [0],
                "channel": name, "HA": chans["A"], "HB": chans["B"]}
        l_relations(chk, cls, cfg, chan, name, res, case, "single_object")
        _FRESH[key] = _copy_result(res)
    return _FRESH[key]


def live_scenarios(tier):
    import itertools
    for cls in ("EnhancedBD", "WhiteningBD", "BlockDiagonalizer"):
        nc = len(L_CONFIGS[cls])
        for a, b in itertools.permutations(range(nc), 2):
            for setup in ("AcBc", "ABcc", "ABc'c"):
                for runs in ((0, 1, 0), (1, 0, 1)):
                    yield cls, (a, b), setup, runs, "B"
            yield cls, (a, b), "AcBc", (0, 1, 0), "A"
        m = min(nc, 7 if tier == "thorough" else 5)
        for tri in itertools.permutations(range(m), 3):
            yield cls, tri, "AcBc", (0, 1, 2, 0), "B"


def run_live(chk, cls, cis, setup, runs, name, chans, case):
    cfgs = [L_CONFIGS[cls][i] for i in cis]
    chan = np.asarray(chans[name][0])
    fresh = [l_fresh(chk, cls, i, chans, name) for i in cis]      # oracle side first
    if setup == "AcBc":
        objs = []
        for cfg in cfgs:
            o = l_create(cls)
            l_configure(cls, o, cfg)
            objs.append(o)
    else:
        objs = [l_create(cls) for _ in cfgs]
        order = range(len(cfgs)) if setup == "ABcc" else reversed(range(len(cfgs)))
        for i in order:
            l_configure(cls, objs[i], cfgs[i])
    Kc, n, r, cnoise = H_CHANNELS[name]
    mc = None if cls == "BlockDiagonalizer" else make_ext_channel(chan, Kc, n, r, cnoise)
    for step, i in enumerate(runs):
        chk.count("eval_live_object_runs")
        res = l_run(cls, objs[i], cfgs[i], chan, name, mc)
        if not _same_result(res, fresh[i]):
            others = sorted(set(cfg_label(c) for j, c in enumerate(cfgs) if j != i))
            kind = str(cfgs[i].get("metric", cfgs[i].get("method", "default")))
            chk.fail((cls, "live_objects", "differs_from_single_object", kind),
                     dict(case, failing_step=step), observed="run %d of object %d" % (step, i),
                     expected="bit-identical to one fresh object configured %r" % (cfgs[i],),
                     msg="%s beside live object(s) %s" % (cfg_label(cfgs[i]), "+".join(others)))
            l_relations(chk, cls, cfgs[i], chan, name, res, dict(case, failing_step=step), "live_objects")
    chk.nontriv(("L", cls, tuple(cis), setup, tuple(runs), name))


def eval_live(chk, cls, cis, setup, runs, name, chans):
    case = {"part": "L", "cls": cls, "configs": list(cis), "setup": setup, "runs": list(runs),
            "channel": name, "HA": chans["A"], "HB": chans["B"]}
    with chk.guard((cls, "live_objects"), case):
        run_live(chk, cls, cis, setup, runs, name, chans, case)


# ---- error paths --------------------------------------------------------
def bad_calls(cls):
    """(label, callable(obj), kind). kind 'must_raise': the call is invalid for the documented API"""
    from pyphysim.modulators import fundamental
    odd = make_ext_channel(np.hstack([families.generic(801, (3, 3), True, tag=9),
                                      ext_channel(3, 1, 1, 801)]), 3, 1, 1, 0.1)
    out = []
    if cls == "EnhancedBD":
        out += [("set_metric_unknown_name", lambda o: o.set_ext_int_handling_metric("lala")),
                ("set_metric_naive_without_num_streams", lambda o: o.set_ext_int_handling_metric("naive")),
                ("set_metric_fixed_without_num_streams", lambda o: o.set_ext_int_handling_metric("fixed")),
                ("set_metric_effective_throughput_without_args",
                 lambda o: o.set_ext_int_handling_metric("effective_throughput")),
                ("set_metric_effective_throughput_without_packet_length",
                 lambda o: o.set_ext_int_handling_metric("effective_throughput",
                                                         {"modulator": fundamental.PSK(4)}))]
    if cls in ("EnhancedBD", "WhiteningBD"):
        out += [("run_channel_rows_not_multiple_of_users", lambda o: o.block_diagonalize_no_waterfilling(odd))]
    else:
        for m in ("block_diagonalize", "block_diagonalize_no_waterfilling"):
            out += [(m + "_rows_not_multiple_of_users",
                     lambda o, m=m: getattr(o, m)(families.generic(802, (3, 3), True, tag=9))),
                    (m + "_one_dimensional_channel",
                     lambda o, m=m: getattr(o, m)(families.generic(803, (4,), True, tag=9)))]
    return out


def error_cases():
    for cls in ("EnhancedBD", "WhiteningBD", "BlockDiagonalizer"):
        for ci in range(len(L_CONFIGS[cls])):
            for k in range(len(bad_calls(cls)) + (2 if cls == "EnhancedBD" else 0)):
                yield cls, ci, k


def reported_config(cls, obj, cfg):
    """the configuration the object REPORTS through its public attributes (iPu, noise_var,
    pe, metric_name) and the arguments stored for that metric.  Returns (cfg, usable, why):
    usable = a configuration of the property's domain (valid metric, num_streams in 1..n)."""
    rep = {a: getattr(obj, a) for a in ("iPu", "noise_var", "pe") if hasattr(obj, a)}
    if cls != "EnhancedBD":
        if "method" in cfg:
            rep["method"] = cfg["method"]
        return rep, True, ""
    name = obj.metric_name
    args = dict(getattr(obj, "_metric_func_extra_args", {}) or {})
    if name in ("None", None):
        rep["metric"] = None
        return rep, True, ""
    rep["metric"] = name
    if name in ("naive", "fixed"):
        if "num_streams" not in args:
            return rep, False, "metric_without_arguments"
        rep["ns"] = args["num_streams"]
        ok = isinstance(rep["ns"], (int, np.integer)) and 1 <= rep["ns"] <= 3
        return rep, bool(ok), "" if ok else "num_streams_outside_1..n"
    if name == "effective_throughput":
        if "modulator" not in args or "packet_length" not in args:
            return rep, False, "metric_without_arguments"
        rep["et_args"] = {"modulator": args["modulator"], "packet_length": args["packet_length"]}
        return rep, True, ""
    if name == "capacity":
        return rep, True, ""
    return rep, False, "unknown_metric_name"


def fresh_for_reported(cls, rep, chan):
    """a fresh object put into the reported configuration through VALID calls only"""
    from pyphysim.comm import blockdiagonalization as bdm
    if cls == "EnhancedBD":
        fo = bdm.EnhancedBD(2, rep["iPu"], rep["noise_var"], rep["pe"])
        if rep.get("metric") == "effective_throughput":
            fo.set_ext_int_handling_metric("effective_throughput", dict(rep["et_args"]))
        else:
            apply_metric(fo, rep.get("metric"), rep.get("ns"))
    elif cls == "WhiteningBD":
        fo = bdm.WhiteningBD(2, rep["iPu"], rep["noise_var"], rep["pe"])
    else:
        fo = bdm.BlockDiagonalizer(2, rep["iPu"], rep["noise_var"])
    return l_run(cls, fo, rep, chan, "B")


def run_error_case(chk, cls, ci, k, chans, case):
    """INVALID_CALL_POLICY: the invalid call itself is free (raise / accept / change
    attributes are OUTCOMES).  Required afterwards: coherence with what the object
    REPORTS -- a run with the reported configuration works, equals a fresh object
    configured that way through valid calls and satisfies the B-relations; an object
    that reports a metric must not make a run raise; and the next VALID configuration
    restores exactly the behaviour of a fresh object."""
    from vmc import bfs
    cfg = L_CONFIGS[cls][ci]
    base = l_fresh(chk, cls, ci, chans, "B")
    chan = np.asarray(chans["B"][0])
    obj = l_create(cls)
    l_configure(cls, obj, cfg)
    calls = bad_calls(cls)
    chk.count("eval_invalid_calls")
    d0 = bfs.digest(bfs.state_of(obj))
    if k < len(calls):
        label, fn = calls[k]
        what = ("set_metric_unknown_name" if label == "set_metric_unknown_name" else
                "set_metric_missing_args" if label.startswith("set_metric") else "run_bad_channel")
    else:
        ns = 0 if k == len(calls) else 4
        label = what = "set_metric_num_streams_%d" % ns

        def fn(o, ns=ns, m=("naive" if ci % 2 else "fixed")):
            o.set_ext_int_handling_metric(m, {"num_streams": ns})
    raised = None
    try:
        fn(obj)
    except Exception as e:  # noqa
        raised = e
    chk.outcome("invalid_call", (cls, label, "accepted" if raised is None else "raised:" + type(raised).__name__,
                                 "object_changed" if bfs.digest(bfs.state_of(obj)) != d0 else "object_unchanged"))
    case = dict(case, label=label)
    rep, usable, why = reported_config(cls, obj, cfg)
    sig = (cls, "after_invalid_call", what)
    res, err = None, None
    try:
        res = l_run(cls, obj, rep if cls != "BlockDiagonalizer" else dict(rep), chan, "B")
    except Exception as e:  # noqa
        err = e
    if usable:
        chk.count("eval_after_invalid_call_reported_config_runs")
        if err is not None:
            chk.fail(sig + ("run_raises",), case, observed="%s: %s" % (type(err).__name__, err),
                     expected="a run with the reported configuration %r" % ({k2: v for k2, v in rep.items()
                                                                             if k2 != "et_args"},))
        else:
            fresh = fresh_for_reported(cls, rep, chan)
            if not _same_result(res, fresh):
                chk.fail(sig + ("differs_from_fresh_object_in_reported_configuration",), case,
                         observed="result differs", expected="bit-identical to a fresh object configured %r"
                         % ({k2: v for k2, v in rep.items() if k2 != "et_args"},))
                l_relations(chk, cls, rep, chan, "B", res, case, "after_invalid_call")
    elif why == "metric_without_arguments" and err is not None:
        # reached by public calls only: the object REPORTS a metric, yet a run raises
        chk.fail(sig + ("run_raises",), case, observed="%s: %s" % (type(err).__name__, err),
                 expected="an object reporting metric %r can run (or the call that was rejected "
                          "did not switch the reported metric)" % (rep.get("metric"),))
    else:
        chk.count("reported_config_outside_domain_after_invalid_call")
    # the next VALID configuration fully restores the behaviour of a fresh object
    l_configure(cls, obj, cfg)
    again = l_run(cls, obj, cfg, chan, "B")
    if not _same_result(again, base):
        chk.fail(sig + ("valid_reconfiguration_differs_from_fresh_object",), case, observed="result differs",
                 expected="bit-identical to a fresh object configured %r" % (cfg,))
        l_relations(chk, cls, cfg, chan, "B", again, case, "after_invalid_call")


def eval_error_case(chk, cls, ci, k, chans):
    case = {"part": "E", "cls": cls, "config": ci, "call": k, "HA": chans["A"], "HB": chans["B"]}
    with chk.guard((cls, "after_invalid_call"), case):
        run_error_case(chk, cls, ci, k, chans, case)


# ----------------------------------------------------------------------
def jobs_a(tier):
    for K, n in LAYOUTS:
        for fam, s, H in channel_members(K, n, tier, "A"):
            for iPu in IPUS:
                for noise in NOISES:
                    yield ("A", K, n, fam, s, H, iPu, noise)


SCALES = (1e-12, 1e-9, 1e-6, 1e6)


def jobs_a_scaled(tier):
    """global channel scale c: every coefficient x c, noise x c^2 (the same water-filling
    problem) and one independently scaled noise; all relations are scale covariant"""
    S = 6 if tier == "thorough" else 2
    for K, n in LAYOUTS:
        members = [("generic", s, families.generic(s, (K * n, K * n), True, tag=9)) for s in range(S)]
        members += [m for m in channel_members(K, n, "quick", "A") if m[0] == "weak_user"][:1]
        for fam, s, H in members:
            for c in SCALES:
                for iPu, noise in ((1.0, 1.0 * c * c), (2.5, 1e-3 * c * c), (1.0, 1e-3)):
                    yield ("A", K, n, fam + "_x%g" % c, s, H * c, iPu, noise)


def jobs_b_scaled(tier):
    S = 3 if tier == "thorough" else 1
    for K, n in LAYOUTS:
        for s in range(S):
            H = families.generic(s, (K * n, K * n), True, tag=9)
            for r in (1, 2):
                He = ext_channel(K, n, r, s)
                for c in SCALES:
                    # everything x c with noise x c^2; and only the users' channel x c with pe, noise x c^2
                    for Hfull, pe in ((np.hstack([H, He]) * c, 1.0), (np.hstack([H * c, He]), c * c)):
                        for noise in (None, 0.1 * c * c):
                            yield ("B", K, n, "generic_x%g" % c, s, Hfull, r, noise, pe, 1.0)


ZERO_PES = (0, 0.0, 1e-12, 1.0)


def jobs_b_zero_extint(tier):
    """pairwise covering of {external interference exactly zero / tiny / ordinary} x {every metric}:
    pe = 0 (int and float), 1e-12, 1; and an ext-int path loss that is exactly 0 for ONE user"""
    lay = LAYOUTS if tier == "thorough" else ((2, 2), (2, 3), (3, 2), (3, 3))
    for K, n in lay:
        H = families.generic(40, (K * n, K * n), True, tag=9)
        for r in (1, 2):
            Hfull = np.hstack([H, ext_channel(K, n, r, 40)])
            for noise in ((0.1, 1e-3) if tier == "thorough" else (0.1,)):
                for pe in ZERO_PES:
                    yield ("Bz", K, n, "generic", 40, Hfull, r, noise, pe, 0.8, None)
                for u in (0, K - 1):
                    pl = [0.5] * K
                    pl[u] = 0.0
                    for pe in (1.0, 1e-12):
                        yield ("Bz", K, n, "generic", 40, Hfull, r, noise, pe, 0.8, pl)


def jobs_b(tier):
    for K, n in LAYOUTS:
        for fam, s, H in channel_members(K, n, tier, "B"):
            for r in (1, 2):
                Hfull = np.hstack([H, ext_channel(K, n, r, s)])
                for noise in (None, 1e-3, 0.1, 1.0, 10.0):
                    for pe in PES:
                        for iPu in IPUS:
                            yield ("B", K, n, fam, s, Hfull, r, noise, pe, iPu)


def run_job(chk, job):
    if job[0] == "A":
        _, K, n, fam, s, H, iPu, noise = job
        case = {"part": "A", "K": K, "n": n, "family": fam, "s": s, "iPu": iPu, "noise": noise, "H": H}
        with chk.guard(("BlockDiagonalizer",), case):
            eval_plain(chk, H, K, n, iPu, noise, case)
    else:
        ext_pl = None
        if job[0] == "Bz":
            ext_pl = job[10]
            job = job[:10]
            chk.outcome("extint_level_x_metric", (repr(job[8]), None if ext_pl is None else ext_pl.index(0.0)))
        _, K, n, fam, s, Hfull, r, noise, pe, iPu = job
        for variant in variants(n):
            if variant[0] == "whitening" and noise is None:
                chk.count("skipped_whitening_without_noise")
                continue
            case = {"part": "B", "K": K, "n": n, "family": fam, "s": s, "rank": r, "noise": noise,
                    "pe": pe, "iPu": iPu, "variant": list(variant), "H": Hfull}
            if ext_pl is not None:
                case["ext_pl"] = list(ext_pl)
            if job[0] == "Bz":
                chk.outcome("zero_extint_x_metric", (str(variant[1]), pe == 0, ext_pl is not None))
            eval_ext(chk, Hfull, K, n, r, noise, pe, iPu, variant, case, ext_pl)


def main(chk):
    chk.assume("equal antennas per user, total tx = total rx, channel condition number <= 1e6 "
               "(property domain: full rank); beyond that cases are excluded and counted")
    chk.assume("tolerances: nulling %g*eps*cond(H)*||H||*||Ms||; power %g*eps*iPu; inversion %g*eps*cond; "
               "water-filling powers %g*eps*cond(H)^2*level; removal %g*eps*||W||^2*||R||"
               % (C_NULL, C_POW, C_INV, C_WF, C_REM))
    chk.assume("B6 uses PSK(4).calcTheoreticalSpectralEfficiency of the library (property C16) to "
               "re-evaluate the effective-throughput metric; WhiteningBD only with noise > 0 "
               "(singular covariance otherwise)")
    chk.extra["kappa_max"] = KAPPA_MAX
    chk.extra["pairwise_axes"] = {
        "global_channel_scale": [1e-12, 1e-9, 1e-6, 1.0, 1e6, 1e12],
        "between_two_runs_on_one_object": ["other member same shape+scale (in place)", "same member again",
                                           "scaled copy (x2, in place)", "other layout", "refresh + iPu change"],
        "class_entry_point_metric": ["BlockDiagonalizer wf/no-wf", "WhiteningBD", "EnhancedBD x 7 metrics"],
        "external_interference_level": ["pe=0 (int)", "pe=0.0", "pe=1e-12", "pe=1", "ext_int_pathloss 0 for one user"],
        "metric": ["None", "naive/ns", "fixed/ns", "capacity", "effective_throughput", "whitening"],
        "reconfiguration_between_runs": ["num_users", "num_users+iPu", "num_users+noise_var+pe"],
        "channel_after_reconfiguration": ["same content", "other content"],
        "layout_pairs": "6x6: 2x3,3x2,6x1; 4x4: 2x2,4x1 (all ordered pairs)",
        "covered_pairs": ["layout pair x reconfiguration x same/other content x class/entry point/metric (re-layout histories)",
                          "scale x between-runs x class/metric (Part H scaled histories)",
                          "ext-int level x metric x layout x rank (Part B zero family)",
                          "scale x family x iPu/noise (Part A/B scale families)"]}

    def worker(i, nsh, c):
        for job in shard(jobs_a(c.tier), i, nsh):
            run_job(c, job)
        for job in shard(jobs_b(c.tier), i, nsh):
            run_job(c, job)
        for job in shard(jobs_a_scaled(c.tier), i, nsh):
            c.count("scaled_jobs")
            run_job(c, job)
        for job in shard(jobs_b_scaled(c.tier), i, nsh):
            c.count("scaled_jobs")
            run_job(c, job)
        chans = hist_channels()
        for cls, init, seq in shard(hist_sequences(c.tier), i, nsh):
            eval_history(c, cls, init, seq, chans)
        for cls, init, seq, scale in shard(scaled_hist_sequences(c.tier), i, nsh):
            eval_history(c, cls, init, seq, chans, scale)
        for job in shard(jobs_b_zero_extint(c.tier), i, nsh):
            run_job(c, job)
        for rc in shard(relayout_cases(c.tier), i, nsh):
            eval_relayout(c, *rc)
        for cls, cis, setup, runs, name in shard(live_scenarios(c.tier), i, nsh):
            eval_live(c, cls, cis, setup, runs, name, chans)
        for cls, ci, k in shard(error_cases(), i, nsh):
            eval_error_case(c, cls, ci, k, chans)

    run_shards(chk, worker)
    H = families.generic(0, (4, 4), True, tag=9)
    chk.sample({"part": "A", "K": 2, "n": 2, "family": "generic", "s": 0, "iPu": 1.0, "noise": 1.0, "H": H})
    chk.states = len(chk.outcomes.get("history_states", ()))
    chk.transitions = len(chk.outcomes.get("history_transitions", ()))
    chk.traces_validated = int(chk.counters.get("eval_history_runs_checked", 0))
    chk.sample({"part": "H", "cls": "EnhancedBD", "init": [["metric", "fixed", 2]],
                "history": [["run", "A"], ["metric", "naive", 1], ["run", "A"]]})
    # all vacuity conditions use outcomes recorded from the ORACLE side (reference
    # water-filling, enumerated configuration), never from what the library returned
    off = [o for o in chk.outcomes.get("ref_switched_off_streams", ()) if o[2] > 0]
    chk.extra["layout_x_count_with_switched_off_streams"] = len(off)
    from vmc.report import Broken
    if len(off) < 3:
        raise Broken("vacuous: the reference water-filling never switches a stream off (%r)" % (off,))
    want = {(k, str(m), r) for (k, m, _) in variants(1) for r in (1, 2)}
    miss = want - set(chk.outcomes.get("metric_x_rank", ()))
    if miss:
        raise Broken("vacuous: metric x rank pairs never evaluated: %r" % sorted(miss))
    chk.require_outcomes("metric_x_rank", 12)
    chk.require_outcomes("removal_required", 3)
    chk.require_outcomes("history_states", 20)
    chk.require_outcomes("history_x_scale", 30)
    chk.require_outcomes("relayout", 100)
    chk.require_outcomes("zero_extint_x_metric", 12)
    chk.require_outcomes("invalid_call", 8)


def replay(case, chk):
    H = np.asarray(case.get("H", case.get("HA")), dtype=complex)
    if case["part"] == "H":
        chans = {"A": np.asarray(case["HA"], dtype=complex), "B": np.asarray(case["HB"], dtype=complex)}

        def ev(e):
            return tuple(e)
        eval_history(chk, case["cls"], tuple(ev(e) for e in case["init"]),
                     tuple(ev(e) for e in case["history"]), chans, float(case.get("scale", 1.0)))
        return
    if case["part"] == "R":
        eval_relayout(chk, int(case["size"]), tuple(int(v) for v in case["l1"]), tuple(int(v) for v in case["l2"]),
                      bool(case["same"]), int(case["between"]), int(case["variant"]))
        return
    if case["part"] in ("L", "E"):
        chans = {"A": np.asarray(case["HA"], dtype=complex), "B": np.asarray(case["HB"], dtype=complex)}
        _FRESH.clear()
        if case["part"] == "L":
            eval_live(chk, case["cls"], tuple(int(i) for i in case["configs"]), case["setup"],
                      tuple(int(i) for i in case["runs"]), case["channel"], chans)
        else:
            eval_error_case(chk, case["cls"], int(case["config"]), int(case["call"]), chans)
        return
    K, n = int(case["K"]), int(case["n"])
    if case["part"] == "A":
        with chk.guard(("BlockDiagonalizer",), case):
            eval_plain(chk, H, K, n, float(case["iPu"]), float(case["noise"]),
                       {k: v for k, v in case.items() if k != "method"})
    else:
        v = case["variant"]
        variant = (v[0], v[1], None if v[2] is None else int(v[2]))
        noise = None if case["noise"] is None else float(case["noise"])
        pe = case["pe"] if isinstance(case["pe"], int) else float(case["pe"])      # pe = 0 as int stays int
        eval_ext(chk, H, K, n, int(case["rank"]), noise, pe, float(case["iPu"]),
                 variant, case, case.get("ext_pl"))
