#!/bin/bash
# tools/revalidate_some.sh 'EGREP_PATTERN_OF_NAMES'  (PAR=3)  - like revalidate_all.sh for a subset
cd "$(dirname "$0")/.."
one(){ d=$1; n=$(basename $d); pid=${n%%-*}; base=HEAD; [ -f $d/PINNED_BASE ] && base=$(cat $d/PINNED_BASE); out=$(python3 tools/validate_seed.py $d $pid $n --no-baseline --base $base 2>&1); echo "$n $(echo "$out" | grep -E '^ "confirmed"|^ "detected"' | tr -d '\n') $(echo "$out" | grep -o 'PATCH DOES NOT APPLY' | head -1)"; }
export -f one
ls -d seeded/*/ | grep -E "$1" | xargs -P ${PAR:-3} -I{} bash -c 'one {}'
