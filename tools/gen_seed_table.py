#!/usr/bin/env python3
"""Regenerates /verif/seeded/README.md from the meta.json files."""
import glob, json, os
root = os.path.dirname(os.path.dirname(os.path.abspath(__file__)))
hist = json.load(open(os.path.join(root, "seeded", "history.json")))["initially_missed"]
rows = []
for f in sorted(glob.glob(os.path.join(root, "seeded", "*", "meta.json"))):
    m = json.load(open(f))
    notes = m.get("needs_to_manifest", "")
    first = " ".join(l.strip() for l in notes.splitlines() if l.strip() and not l.startswith("#"))[:260]
    sigs = []
    for pid, c in m.get("checks", {}).items():
        if c.get("detected"):
            sigs.append("%s: %s" % (pid, "; ".join(c["signatures"][:2])))
    rows.append((m["name"], m["property"], "yes" if m.get("confirmed") else "NO",
                 "DETECTED" if m.get("detected") else "missed", " / ".join(sigs) or "-",
                 hist.get(m["name"], ""), first))
out = ["# Seeded property-breaking changes", "",
       "Each directory holds `patch.diff` (applies to /repo HEAD of `meta.json:base_commit`), `demo.py` (exit 0 on the",
       "clean tree, 1 on the patched tree), `notes.md` (the seeder's description) and `meta.json` (what was run:",
       "pinned suite with the patch, demo on both trees, `./check` against the patched tree). All were produced by",
       "sub-agents that saw only the property text and a scratch worktree. Re-validate one with",
       "`tools/validate_seed.py seeded/<name> <PID> <name>`.", "",
       "%d changes, %d confirmed (suite passes, demo fails only with the patch), %d detected by the quick tier."
       % (len(rows), sum(r[2] == "yes" for r in rows), sum(r[3] == "DETECTED" for r in rows)), "",
       "| seed | property | confirmed | quick tier | signatures (first two) | strengthening that was needed | what it is / needs |",
       "|---|---|---|---|---|---|---|"]
for r in rows:
    out.append("| " + " | ".join(x.replace("|", "\\|").replace("\n", " ") for x in r) + " |")
open(os.path.join(root, "seeded", "README.md"), "w").write("\n".join(out) + "\n")
print("seeded/README.md: %d rows" % len(rows))
