#!/usr/bin/env python3
"""tools/validate_benign.py DIR PID NAME [--also PID,PID] [--tier quick] [--no-baseline]

Validates one independently produced property-PRESERVING change (DIR holds patch.diff,
holds.py, differs.py, notes.md) - a false-alarm control - and files it under
/verif/benign/NAME/:

 1. fresh scratch worktree of /repo HEAD under /tmp; holds.py and differs.py exit 0 there;
 2. the patch applies; the pinned test suite still passes with it;
 3. holds.py exits 0 and differs.py exits 1 with it (the change is observable, the property demo passes);
 4. `./check PID` (and --also) is run with VERIF_REPO=<worktree>: it must stay QUIET (exit 0, no VIOLATION);
 5. meta.json records all of that; the worktree is removed.
"""
import argparse
import json
import os
import shutil
import subprocess
import sys
import tempfile
import time

here = os.path.dirname(os.path.abspath(__file__))
root = os.path.dirname(here)

ap = argparse.ArgumentParser()
ap.add_argument("dir")
ap.add_argument("pid")
ap.add_argument("name")
ap.add_argument("--also", default="")
ap.add_argument("--tier", default="quick")
ap.add_argument("--no-baseline", action="store_true")
a = ap.parse_args()

sd = os.path.abspath(a.dir)
patch = os.path.join(sd, "patch.diff")
assert os.path.exists(patch), "patch.diff missing in " + sd


def run(cmd, **kw):
    return subprocess.run(cmd, stdout=subprocess.PIPE, stderr=subprocess.STDOUT, text=True, **kw)


wt = tempfile.mkdtemp(prefix="vmc-benwt-", dir="/tmp")
os.rmdir(wt)
meta = dict(property=a.pid, name=a.name, base_commit=run(["git", "-C", "/repo", "rev-parse", "HEAD"]).stdout.strip(),
            validated_at=time.strftime("%Y-%m-%dT%H:%M:%S"), ran=[])
try:
    run(["git", "-C", "/repo", "worktree", "add", "--detach", wt, "HEAD"])
    env = dict(os.environ, PYTHONDONTWRITEBYTECODE="1", MPLBACKEND="Agg")

    def prog(name, tag):
        p = os.path.join(sd, name)
        if not os.path.exists(p):
            meta["%s_%s" % (name[:-3], tag)] = None
            return None
        r = run(["/venv/bin/python", "-B", p, wt], env=env, cwd=wt)
        meta["%s_%s" % (name[:-3], tag)] = r.returncode
        meta["ran"].append("%s on %s tree -> exit %d" % (name, tag, r.returncode))
        if tag == "patched":
            meta["%s_output" % name[:-3]] = r.stdout[-500:]
        return r.returncode

    prog("holds.py", "clean")
    prog("differs.py", "clean")
    r = run(["git", "-C", wt, "apply", patch])
    if r.returncode:
        print("PATCH DOES NOT APPLY:", r.stdout[-500:])
        sys.exit(3)
    prev = os.path.join(root, "benign", a.name, "meta.json")
    if a.no_baseline and os.path.exists(prev) and json.load(open(prev)).get("baseline_ok"):
        meta["baseline_ok"] = True
        meta["baseline_with_patch"] = json.load(open(prev)).get("baseline_with_patch")
    else:
        r = run([sys.executable, os.path.join(here, "baseline.py"), wt])
        meta["baseline_with_patch"] = r.stdout.strip().splitlines()[-1] if r.returncode == 0 else r.stdout[-800:]
        meta["baseline_ok"] = r.returncode == 0
        meta["ran"].append("tools/baseline.py <patched tree> -> exit %d" % r.returncode)
    prog("holds.py", "patched")
    prog("differs.py", "patched")
    meta["confirmed_benign_by_demo"] = bool(meta["baseline_ok"] and meta.get("holds_clean") == 0
                                            and meta.get("holds_patched") == 0)
    meta["observable"] = meta.get("differs_clean") == 0 and meta.get("differs_patched") not in (0, None)
    det = {}
    for pid in [a.pid] + [p for p in a.also.split(",") if p]:
        env2 = dict(os.environ, VERIF_REPO=wt)
        t0 = time.time()
        r = run([os.path.join(root, "check"), pid, "--tier", a.tier], env=env2, cwd=root)
        sigs = [l.strip()[len("signature="):].split(" cases=")[0] for l in r.stdout.splitlines()
                if l.strip().startswith("signature=")]
        viol = [l for l in r.stdout.splitlines() if l.startswith("VIOLATION")]
        det[pid] = dict(exit=r.returncode, quiet=(r.returncode == 0 and not viol), signatures=sigs[:12],
                        wall_s=round(time.time() - t0, 1))
        sig_lines = [l.strip()[:400] for l in r.stdout.splitlines() if l.strip().startswith("signature=")]
        if sig_lines:
            det[pid]["signature_lines"] = sig_lines[:12]
        meta["ran"].append("VERIF_REPO=<patched tree> ./check %s --tier %s -> exit %d" % (pid, a.tier, r.returncode))
        if r.returncode not in (0, 1):
            det[pid]["tail"] = r.stdout[-800:]
    meta["checks"] = det
    meta["quiet"] = all(d["quiet"] for d in det.values())
    if a.tier == "quick" and os.path.exists(prev):
        # keep what deeper tiers recorded earlier
        pm = json.load(open(prev))
        for k in pm:
            if k.startswith("checks_") or k.startswith("quiet_"):
                meta.setdefault(k, pm[k])
    if a.tier != "quick" and os.path.exists(prev):
        # a deeper tier is recorded next to the quick-tier record, which stays
        pm = json.load(open(prev))
        pm["checks_" + a.tier] = det
        pm["quiet_" + a.tier] = meta["quiet"]
        pm["ran"] = pm.get("ran", []) + [x for x in meta["ran"] if "--tier " + a.tier in x]
        meta = pm
        meta["_tier_run"] = a.tier
finally:
    run(["git", "-C", "/repo", "worktree", "remove", "--force", wt])
    shutil.rmtree(wt, ignore_errors=True)

out = os.path.join(root, "benign", a.name)
os.makedirs(out, exist_ok=True)
if os.path.abspath(out) != sd:
    for f in ("patch.diff", "holds.py", "differs.py", "notes.md"):
        if os.path.exists(os.path.join(sd, f)):
            shutil.copy(os.path.join(sd, f), os.path.join(out, f))
notes = os.path.join(sd, "notes.md")
if os.path.exists(notes):
    meta["notes"] = open(notes).read()[:1500]
json.dump(meta, open(os.path.join(out, "meta.json"), "w"), indent=1)
t = meta.pop("_tier_run", None)
if t:
    json.dump(meta, open(os.path.join(out, "meta.json"), "w"), indent=1)
    print(json.dumps({"name": meta["name"], "tier": t, "quiet": meta["quiet_" + t], "checks": meta["checks_" + t]}, indent=1))
else:
    print(json.dumps({k: meta.get(k) for k in ("name", "baseline_ok", "holds_clean", "holds_patched", "differs_clean",
                                               "differs_patched", "quiet", "checks")}, indent=1))
