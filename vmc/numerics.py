"""Tolerance policy (DESIGN 2.4).

close(lhs, rhs, kappa, c): ||lhs-rhs|| <= c*eps*kappa*scale + abs
with eps = 2^-52, scale = max(||lhs||, ||rhs||, 1e-300).  Realistic defects move
results by >= 1e-3 relative, nine orders above these thresholds.
"""
import numpy as np

EPS = 2.0 ** -52
PROB_FLOOR = 1e-15


def err(lhs, rhs):
    a = np.asarray(lhs)
    b = np.asarray(rhs)
    if a.shape != b.shape:
        return float("inf")
    if a.size == 0:
        return 0.0
    d = np.abs(a - b)
    if not np.all(np.isfinite(d)):
        return float("inf")
    return float(np.max(d))


def scale(*xs):
    m = 0.0
    for x in xs:
        a = np.asarray(x)
        if a.size:
            v = np.abs(a)
            v = v[np.isfinite(v)]
            if v.size:
                m = max(m, float(np.max(v)))
    return max(m, 1e-300)


def close(lhs, rhs, kappa=1.0, c=1e4, abs_=0.0, scale_=None):
    e = err(lhs, rhs)
    s = scale(lhs, rhs) if scale_ is None else scale_
    return e <= c * EPS * kappa * s + abs_


def relerr(lhs, rhs):
    return err(lhs, rhs) / scale(lhs, rhs)


def same_shape(a, b):
    return np.shape(a) == np.shape(b)
