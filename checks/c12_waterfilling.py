"""C12 - water-filling (pyphysim.comm.waterfilling.doWF) returns the capacity-optimal
power allocation and a water level consistent with it.

E1, exhaustive product.  Every ORDERED gain tuple of length 1..4 (thorough 1..5)
over the six-letter alphabet {1e-4, 1e-2, 0.5, 1, 3, 1e3} (so every permutation
of every multiset, ties included) x Pt x noise x Es, plus boundary-seeking total
powers (Pt exactly at / one part in 2^40 either side of every point where one
more channel is switched on), plus a generic family of gain vectors of length
1..12 whose irrational offsets are the only place the seed enters, plus
ulp-level boundary members for lengths 2..16: Pt equal to / one ulp either side
of each switch-on boundary, the boundary summed sequentially, by numpy's
pairwise np.sum and exactly rounded (math.fsum) -- the inputs on which an
implementation that sums the same numbers twice in different orders can
disagree with itself.

Scale families (everything in the property is scale-covariant): every multiset
of length 1..3 with all gains x {1e-15, 1e-9, 1e9} and the noise x the same set
(alike and independently), Pt and noise x {1e-12, 1e12}, Es in {1e-6, 1e6};
a wide alphabet {1e-20, 1e-14, 1e-7, 1, 1e8, 1e16} (spreads up to 36 decades) x
tiny/huge Pt, noise, Es; link-budget members (gains ~1e-13, thermal noise 1e-13).
Ratio family: r = noise/(Es*gain_best*Pt) over 1e-48 .. 1e48, gains, noise, Es and Pt
each varied on its own over {1e-12,1e-6,1,1e6,1e12}, plus every decade of r in 1e-12..1e15
at Pt, Es in {1e-12,1,1e12} x {1e-6,1,1e6}, for 9 small shapes incl. ties and
near-ties (1-2^-30, 1-1e-9); on these (n<=3) the allocation is also compared with the
exact rational optimum (fractions).
Tolerances: |sum(P)-Pt| <= 32*eps*n*Pt; allocation 256*eps*(n*Pt + T) where T = largest
active threshold if the active thresholds differ (the rounding of N/(Es g) itself then
moves the optimum) and 0 for tied / single active channels; KKT in differences form.

Argument presentations: small problems with values exact in every type, gains handed
over as float64 / int64 / int32 / uint8 / float32 arrays, strided, reversed and read-only
views (and list / tuple: not the documented type, outcome only) x Pt, noise, Es as Python
float / int, np.float32, np.int64, np.float64, 0-d arrays (all three jointly, and each on
its own): allocation dtype floating, allocation and water level equal to the equal-valued
float64 / Python-float call (float32 gains: 64 float32-ulps), input array untouched.

Relations checked on every evaluation (reference model written here):
  R1  shape / finiteness, input array not modified
  R2  P_i >= 0
  R3  sum P == Pt
  R4  P == reference water-filling (levels from math.fsum over the sorted
      thresholds, largest affordable active set)
  R5  KKT certificate computed from the allocation alone: every channel with
      P_i > 0 sits at one common level L = P_i + N/(Es g_i); every channel with
      P_i == 0 has N/(Es g_i) >= L
  R6  P_i == max(0, mu - N/(Es g_i)) for the RETURNED mu
  R7  no competitor is better: every allocation of the simplex grid Pt*k/G and
      every pairwise transfer of power i->j has capacity <= capacity(P)
  R8  permutation equivariance against the sorted representative of the multiset
  R9  scale covariance: doWF(c g, Pt, c N, Es) == doWF(g, Pt, N, Es);
      doWF(g, a Pt, a N, Es) == a doWF(g, Pt, N, Es); doWF(g, Pt, N, e) == doWF(e g, Pt, N, 1)
"""
import itertools
import math

import numpy as np

from vmc import common, families
from vmc.numerics import EPS
from vmc.parallel import run_shards, shard

PID = "C12"
LEVEL = "exploration"
ENGINE = "E1 exhaustive product enumerator"
RULE = ("every ordered gain tuple of length 1..4 (thorough 1..5) over {1e-4,1e-2,0.5,1,3,1e3} "
        "x Pt{1e-3,0.3,1,10,1e3} x noise{1e-2,1,5} x Es{1,0.5,3}; plus for every multiset "
        "Pt at/just below/just above each switch-on boundary; plus generic gain vectors of "
        "length 1..12; plus gains 1..n, 0.1..0.1n (n<=13) and generic vectors of length 2..16 with Pt "
        "within one ulp of every switch-on boundary (summed in 3 orders); plus scale families: multisets of "
        "length 1..3 with gains x{1e-15,1e-9,1e9} x noise x{1e-15,1e-9,1e9}, (Pt,noise) x{1e-12,1e12}, "
        "Es{1e-6,1e6}, wide alphabet {1e-20,1e-14,1e-7,1,1e8,1e16} x Pt{1,3,1e-12,1e12} x noise{1,1e-14,"
        "1e-13,1e9} x Es{1,1e-6,1e6}, link-budget vectors; plus every presentation of the arguments (gain array dtypes int64/int32/uint8/"
        "float32/float64, strided/reversed/read-only views, list/tuple; scalars as int/float/np.float32/np.int64/"
        "np.float64/0-d arrays) compared with the equal-valued float64 call. Each is run through doWF and compared with a reference water-filling, "
        "a KKT certificate, the returned-level relation, every simplex-grid / pairwise-transfer "
        "competitor and the permuted run. Non-trivial: length>=2 and (gains not all equal or a "
        "channel switched off); distinct = (sorted gains, Pt, noise, Es)")

# simplest letters first, so that the first counterexample stored is the smallest
GAINS = (1.0, 0.5, 3.0, 1e-2, 1e3, 1e-4)
PTS = (1.0, 0.3, 10.0, 1e-3, 1e3)
NOISES = (1.0, 1e-2, 5.0)
ESS = (1.0, 0.5, 3.0)
WIDE = (1.0, 1e-14, 1e8, 1e-7, 1e16, 1e-20)
WIDE_PTS = (1.0, 3.0, 1e-12, 1e12)
WIDE_NOISES = (1.0, 1e-14, 1e-13, 1e9)
WIDE_ESS = (1.0, 1e-6, 1e6)
SCALES = (1e-15, 1e-9, 1e9)
# ratio family: r = noise/(Es*gain_best*Pt) from 1e-48 to 1e48, every factor varied on its own
RATIO_SCALES = (1.0, 1e-6, 1e6, 1e-12, 1e12)
RATIO_SHAPES = ((1.0,), (1.0, 1.0), (1.0, 0.5), (1.0, 1.0 - 2.0 ** -30), (1.0, 1.0 - 1e-9),
                (1.0, 1.0, 1.0), (1.0, 0.5, 0.5), (1.0, 1.0, 0.3), (1.0, 1.0 - 1e-7, 1.0 - 3e-7))
C_TOL = 256.0
C_SUM = 32.0           # |sum(P) - Pt| <= C_SUM * 2^-52 * n * Pt            # relations: |lhs-rhs| <= C_TOL * 2^-52 * scale
C_CAP = 256.0            # capacity comparisons
GRID = {1: 1, 2: 12, 3: 12, 4: 8, 5: 6}

_GRID_CACHE = {}


def simplex_grid(n):
    """all k/G, k integer composition of G into n parts (exhaustive)"""
    a = _GRID_CACHE.get(n)
    if a is None:
        G = GRID[n]
        rows = []
        for cuts in itertools.combinations(range(G + n - 1), n - 1):
            prev = -1
            parts = []
            for c in cuts:
                parts.append(c - prev - 1)
                prev = c
            parts.append(G + n - 2 - prev)
            rows.append(parts)
        a = np.array(rows, dtype=float) / G
        _GRID_CACHE[n] = a
    return a


# ----------------------------------------------------------------------
# reference model
# ----------------------------------------------------------------------
def thresholds(g, N, Es):
    return [N / (Es * gi) for gi in g]


def ref_waterfilling(g, Pt, N, Es):
    """(P, level, k_active): the largest k such that filling the k best channels
    to a common level costs exactly Pt.  Powers are computed WITHOUT forming
    level - threshold (P_i = (Pt + sum_j (t_j - t_i)) / k over the k active
    channels), so they stay relatively accurate when thresholds dwarf Pt."""
    t = thresholds(g, N, Es)
    order = sorted(range(len(t)), key=lambda i: t[i])
    ts = [t[i] for i in order]
    for k in range(len(ts), 0, -1):
        if k == 1 or math.fsum([Pt] + [tj - ts[k - 1] for tj in ts[:k]]) >= 0.0:
            break
    level = math.fsum([Pt] + ts[:k]) / k
    P = [0.0] * len(t)
    for r in range(k):
        P[order[r]] = max(0.0, math.fsum([Pt] + [tj - ts[r] for tj in ts[:k]]) / k)
    return P, level, k


def exact_waterfilling(g, Pt, N, Es):
    """the exact optimum for the float inputs, in rational arithmetic (fractions): thresholds
    N/(Es g) exactly, largest affordable active set, P_i = (Pt + sum_j (t_j - t_i))/k.
    Returned rounded to float."""
    from fractions import Fraction as F
    Ptq, Nq, Eq = F(Pt), F(N), F(Es)
    t = [Nq / (Eq * F(gi)) for gi in g]
    order = sorted(range(len(t)), key=lambda i: t[i])
    ts = [t[i] for i in order]
    for k in range(len(ts), 0, -1):
        if k == 1 or Ptq + sum(ts[:k]) - k * ts[k - 1] >= 0:
            break
    P = [0.0] * len(t)
    tot = Ptq + sum(ts[:k])
    for r in range(k):
        P[order[r]] = float(tot / k - ts[r])
    return P, k


def capacity(P, g, N, Es):
    """sum log2(1 + g Es P / N); P may be (m, n)"""
    x = np.asarray(P, dtype=float) * (np.asarray(g, dtype=float) * (Es / N))
    return np.sum(np.log1p(x), axis=-1) / math.log(2.0)


# ----------------------------------------------------------------------
def eval_case(chk, g, Pt, N, Es, case, grid=True, canon=None):
    """run doWF on one input and check R1-R7 (R8 when `canon` = result of the
    sorted representative and the permutation).  Returns (P, mu) or None."""
    from pyphysim.comm.waterfilling import doWF
    n = len(g)
    garr = np.array(g, dtype=float)
    keep = garr.copy()
    # reference model and non-vacuity outcome first (oracle side, before the library runs)
    t = np.array(thresholds(g, N, Es))
    refP, level, kact = ref_waterfilling(g, Pt, N, Es)
    refP = np.array(refP)
    chk.outcome("active_channels", (n, int(kact)))
    if case.get("kind") in ("spread", "scaled", "generic_scaled", "link_budget"):
        chk.outcome("scale_family_active_channels", (case.get("kind"), n, int(kact)))
    if case.get("kind") == "ratio":
        r = N / (Es * max(g) * Pt)
        chk.outcome("ratio_decades", (int(math.floor(math.log10(r) + 0.5)), int(kact)))
    chk.count("eval_doWF")
    P, mu = doWF(garr, Pt, N, Es)
    P = np.asarray(P)
    # R1
    if P.shape != (n,) or not np.all(np.isfinite(P)) or not np.isfinite(mu) or np.iscomplexobj(P):
        chk.fail(("doWF", "malformed_result"), case, observed="shape %r mu %r" % (P.shape, mu),
                 expected="(%d,) finite real" % n)
        return None
    if not np.array_equal(garr, keep):
        chk.fail(("doWF", "input_modified"), case, observed=garr, expected=keep)
    mu = float(mu)
    active = P > 0
    # Tolerances are relative to Pt (the allocation lives on the scale of Pt, however large
    # the thresholds N/(Es g) are).  Only when the ACTIVE channels have different thresholds
    # does the rounding of the thresholds themselves (one ulp of N/(Es g), input conditioning:
    # N/(Es g) vs (N/Es)/g) move the optimum by eps*threshold; tied / single active channels
    # get exactly Pt/k under any evaluation order.
    ts_act = np.sort(t)[:kact]
    tcond = float(ts_act[-1]) if (kact > 1 and ts_act[-1] > ts_act[0]) else 0.0
    sc = max(Pt, level)
    tol = C_TOL * EPS * (n * Pt + tcond)
    tol_sum = C_SUM * EPS * n * Pt
    # R2
    if np.any(P < 0):
        i = int(np.argmin(P))
        # lengths >= 8 are where numpy's unrolled/pairwise np.sum and the sequential
        # builtin sum of the same numbers can differ by an ulp
        chk.fail(("doWF", "allocation", "negative_power", "length>=8" if n >= 8 else "length<=7"),
                 case, observed=float(P[i]),
                 expected=">= 0", msg="channel %d" % i)
    # R3
    s = math.fsum(P.tolist())
    if abs(s - Pt) > tol_sum:
        chk.fail(("doWF", "allocation", "sum_ne_Pt"), case, observed=s, expected=Pt,
                 msg="relative error %.3g, allowed %g*eps*n" % (abs(s - Pt) / Pt, C_SUM))
    # R4
    if float(np.max(np.abs(P - refP))) > tol:
        i = int(np.argmax(np.abs(P - refP)))
        chk.fail(("doWF", "allocation", "differs_from_reference_waterfilling"), case,
                 observed=P, expected=refP, msg="channel %d" % i)
    # R4x exact rational optimum (small n, the ratio / link-budget families)
    if case.get("kind") in ("ratio", "link_budget") and n <= 3:
        chk.count("eval_exact_rational_reference")
        xP, xk = exact_waterfilling(g, Pt, N, Es)
        xP = np.array(xP)
        if float(np.max(np.abs(refP - xP))) > tol:
            raise AssertionError("reference model disagrees with exact arithmetic: %r vs %r" % (refP, xP))
        if float(np.max(np.abs(P - xP))) > tol:
            chk.fail(("doWF", "allocation", "differs_from_exact_rational_optimum"), case,
                     observed=P, expected=xP)
    # R5 KKT from the allocation alone, in DIFFERENCES form (never P + threshold, which
    # would lose P when the thresholds dwarf Pt): for active i, j  P_i - P_j == t_j - t_i;
    # for active i and empty j  P_i <= t_j - t_i
    if np.any(active):
        ia = np.nonzero(active)[0]
        i0 = int(ia[np.argmin(t[ia])])
        dP = P[i0] - P[ia]
        dt = t[ia] - t[i0]
        if float(np.max(np.abs(dP - dt))) > 2 * tol:
            chk.fail(("doWF", "kkt", "active_channels_at_different_levels"), case,
                     observed="P_best-P_i=%r" % (dP.tolist(),), expected="t_i-t_best=%r" % (dt.tolist(),))
        if np.any(~active) and float(np.min(t[~active] - t[i0])) < P[i0] - 2 * tol:
            chk.fail(("doWF", "kkt", "better_channel_left_empty"), case,
                     observed="P_best=%r > t_empty-t_best=%r" % (float(P[i0]),
                                                                 float(np.min(t[~active] - t[i0]))),
                     expected="empty channels lie above the level")
    # R6 returned water level
    want = np.maximum(0.0, mu - t)
    tol_mu = C_TOL * EPS * max(sc, abs(mu))
    if float(np.max(np.abs(P - want))) > tol_mu:
        ib = int(np.argmax(P))
        if Es != 1.0 and abs(mu - (P[ib] + N / g[ib])) <= tol_mu:
            how = "mu==P_best+noise/g_best(Es_dropped)"
        else:
            how = "other"
        chk.fail(("doWF", "water_level", how), case,
                 observed="mu=%r gives max(0,mu-N/(Es g))=%r" % (mu, want.tolist()),
                 expected="P=%r (level consistent with the allocation: %r)" % (P.tolist(), level))
    # R7 competitors
    if grid:
        capP = float(capacity(P, g, N, Es))
        Q = simplex_grid(n) * Pt
        comp = [Q]
        for i in range(n):
            if P[i] <= 0:
                continue
            for j in range(n):
                if i == j:
                    continue
                for fr in (1.0, 0.5, 2.0 ** -10):
                    q = P.copy()
                    d = P[i] * fr
                    q[i] -= d
                    q[j] += d
                    comp.append(q[None, :])
        Q = np.vstack(comp)
        chk.count("eval_competitors", int(Q.shape[0]))
        capQ = capacity(Q, g, N, Es)
        b = int(np.argmax(capQ))
        # capacities are computed with log1p (relatively accurate); an allocation error of tol
        # changes the capacity by at most n*tol/(level ln2)
        if float(capQ[b]) > capP + C_CAP * EPS * max(capP, float(capQ[b])) + 2 * n * tol / (level * math.log(2.0)):
            chk.fail(("doWF", "optimality", "competitor_has_larger_capacity"), case,
                     observed="capacity %r for %r" % (capP, P.tolist()),
                     expected="competitor %r reaches %r" % (Q[b].tolist(), float(capQ[b])))
    # R8
    if canon is not None:
        cP, cmu, perm = canon
        wantP = np.asarray(cP)[list(perm)]
        if float(np.max(np.abs(P - wantP))) > tol:
            chk.fail(("doWF", "permutation", "allocation_not_permuted_identically"), case,
                     observed=P, expected=wantP)
        if abs(mu - cmu) > tol_mu:
            chk.fail(("doWF", "permutation", "water_level_changes"), case, observed=mu, expected=cmu)
    if n >= 2 and (kact < n or len(set(g)) > 1):
        chk.nontriv((tuple(sorted(g)), Pt, N, Es))
    return P, mu, tol


def run_multiset(chk, ms, Pt, N, Es, tag):
    """the sorted representative, then every distinct permutation of it"""
    ms = tuple(ms)
    n = len(ms)
    base = {"kind": tag, "Pt": Pt, "noise": N, "Es": Es}
    case0 = dict(base, gains=list(ms))
    canon = None
    with chk.guard(("doWF",), case0):
        canon = eval_case(chk, ms, Pt, N, Es, case0, grid=True)
    if n == 1:
        return
    seen = {ms}
    for perm in itertools.permutations(range(n)):
        g = tuple(ms[i] for i in perm)
        if g in seen:
            continue
        seen.add(g)
        case = dict(base, gains=list(g), sorted_gains=list(ms))
        with chk.guard(("doWF",), case):
            eval_case(chk, g, Pt, N, Es, case, grid=(n <= 3),
                      canon=None if canon is None else (canon[0], canon[1], perm))


def run_scaled(chk, ms, Pt, N, Es):
    """every global rescaling of one base problem: each rescaled input goes through
    R1-R8 on its own (run_multiset) and, where the rescaling leaves the
    problem equivalent, R9 against the base run"""
    base_case = {"kind": "scaled", "gains": list(ms), "Pt": Pt, "noise": N, "Es": Es}
    base = None
    with chk.guard(("doWF",), base_case):
        base = eval_case(chk, ms, Pt, N, Es, base_case, grid=False)
    variants = []
    for cg in SCALES:
        for cn in SCALES:
            variants.append(("gains_x_c,noise_x_c" if cg == cn else None,
                             tuple(v * cg for v in ms), Pt, N * cn, Es, 1.0, cg, cn))
    for a in (1e-12, 1e12):
        variants.append(("Pt_x_a,noise_x_a", ms, Pt * a, N * a, Es, a, a, a))
    for e in (1e-6, 1e6):
        variants.append(("Es_folded_into_gains", tuple(v * e for v in ms), Pt, N, 1.0, 1.0, e, 1.0))
        variants.append((None, ms, Pt, N, e, 1.0, 1.0, e))
    for rel, g2, Pt2, N2, Es2, a, c1, c2 in variants:
        run_multiset(chk, g2, Pt2, N2, Es2, "scaled")
        if rel is None or base is None:
            continue
        # for "Es_folded_into_gains" the base is doWF(ms, Pt, N, e)
        case = {"kind": "scaled", "gains": list(g2), "Pt": Pt2, "noise": N2, "Es": Es2,
                "base": {"gains": list(ms), "Pt": Pt, "noise": N,
                         "Es": (c1 if rel == "Es_folded_into_gains" else Es)}}
        with chk.guard(("doWF", "scale_covariance"), case):
            check_covariance(chk, rel, case, a)


def check_covariance(chk, rel, case, a):
    from pyphysim.comm.waterfilling import doWF
    b = case["base"]
    chk.count("eval_doWF", 2)
    P0, mu0 = doWF(np.array(b["gains"], dtype=float), b["Pt"], b["noise"], b["Es"])
    P1, mu1 = doWF(np.array(case["gains"], dtype=float), case["Pt"], case["noise"], case["Es"])
    _, level, kact = ref_waterfilling(b["gains"], b["Pt"], b["noise"], b["Es"])
    ts_act = sorted(thresholds(b["gains"], b["noise"], b["Es"]))[:kact]
    tcond = ts_act[-1] if (kact > 1 and ts_act[-1] > ts_act[0]) else 0.0
    tol = 4 * C_TOL * EPS * (len(b["gains"]) * b["Pt"] + tcond) * a
    if np.shape(P1) != np.shape(P0) or float(np.max(np.abs(np.asarray(P1) - a * np.asarray(P0)))) > tol:
        chk.fail(("doWF", "scale_covariance", rel, "allocation"), case, observed=P1,
                 expected=a * np.asarray(P0))
    if abs(float(mu1) - a * float(mu0)) > 4 * C_TOL * EPS * max(abs(a * float(mu0)), a * level):
        chk.fail(("doWF", "scale_covariance", rel, "water_level"), case, observed=float(mu1),
                 expected=a * float(mu0))


def boundary_powers(ms, N, Es):
    """total powers at which channel k+1 is exactly switched on, and one part
    in 2^40 either side (boundary-seeking members, DESIGN 2.2 iii)"""
    t = sorted(thresholds(ms, N, Es))
    out = []
    for k in range(1, len(t)):
        if t[k] == t[k - 1]:
            continue
        pb = math.fsum([t[k] - ti for ti in t[:k]])
        if pb > 0:
            for f in (1.0 - 2.0 ** -40, 1.0, 1.0 + 2.0 ** -40):
                out.append(pb * f)
    return out


def generic_gains(s, n):
    """positive gains spanning several decades; closed form, seed only rotates
    the offset"""
    a = np.abs(families.generic(s, (n,), complex_=False, tag=12)) + 1e-3
    dec = (np.arange(n) * (s % 5)) % 7 - 3
    return tuple(float(v) for v in a * 10.0 ** dec)


def ulp_boundary_powers(g, N, Es):
    """Pt within one ulp of every switch-on boundary, the boundary being summed
    in three different orders (sequential, numpy pairwise, exactly rounded):
    the members where an implementation that sums the same numbers twice in
    different orders can disagree with itself"""
    t = np.sort(np.array(thresholds(g, N, Es)))
    out = []
    for k in range(2, len(t) + 1):
        ps = t[k - 1] - t[:k]
        cands = set()
        for b in (float(sum(ps.tolist())), float(np.sum(ps)), math.fsum(ps.tolist())):
            for v in (b, float(np.nextafter(b, 0.0)), float(np.nextafter(b, np.inf))):
                if v > 0:
                    cands.add(v)
        out.extend(sorted(cands))
    return out


def prelude_jobs():
    for ms in itertools.combinations_with_replacement(GAINS, 1):
        for Pt in PTS:
            for N in NOISES:
                for Es in ESS:
                    yield ("alphabet", ms, Pt, N, Es)
    # link-budget scale: path gains ~1e-13 with thermal-scale noise; 14-decade spread
    yield ("link_budget", (1.0, 1e-14), 3.0, 1e-14, 1.0)
    yield ("link_budget", (4e-13, 2.5e-13, 6e-14, 3e-15), 1.0, 1e-13, 1.0)
    yield ("link_budget", (2e-12, 5e-13, 1e-13), 0.2, 4e-15, 1.0)
    # very low SNR: noise/(Es gain) >= 1e7 x total power
    yield ("link_budget", (1e-11,), 0.7, 1.0, 1.0)
    yield ("link_budget", (1e-11, 1e-11), 0.7, 1.0, 1.0)
    yield ("link_budget", (1e-12, 1e-12, 4e-13), 1.0, 1e3, 1e-3)
    # tidy gain vectors 1..n and 0.1..0.1n at the ulp-level switch-on boundaries
    for n in range(2, 14):
        for g in (tuple(float(k) for k in range(1, n + 1)),
                  tuple(0.1 * k for k in range(1, n + 1))):
            for PtB in ulp_boundary_powers(g, 1.0, 1.0):
                yield ("ulp_boundary", g, PtB, 1.0, 1.0)


def all_jobs(tier):
    nmax = 5 if tier == "thorough" else 4
    for n in range(2, nmax + 1):
        for ms in itertools.combinations_with_replacement(GAINS, n):
            for Pt in PTS:
                for N in NOISES:
                    for Es in ESS:
                        yield ("alphabet", ms, Pt, N, Es)
    bmax = 4 if tier == "thorough" else 3
    for n in range(2, bmax + 1):
        for ms in itertools.combinations_with_replacement(GAINS, n):
            for N in NOISES:
                for Es in ESS:
                    for Pt in boundary_powers(ms, N, Es):
                        yield ("boundary", ms, Pt, N, Es)
    S = 40 if tier == "thorough" else 12
    for s in range(S):
        for n in (1, 2, 3, 5, 8, 9, 12):
            g = generic_gains(s, n)
            for Pt in (0.3, 10.0):
                for N in (1e-2, 1.0):
                    for Es in (1.0, 0.5):
                        yield ("generic", g, Pt, N, Es)
                for PtB in boundary_powers(g, 1.0, 0.5)[:6]:
                    yield ("generic_boundary", g, PtB, 1.0, 0.5)
    # ---- ratio family: gains, noise, Es, Pt each over {1e-12,1e-6,1,1e6,1e12} ----
    shapes = RATIO_SHAPES + (((1.0, 0.7, 0.7, 0.2), (1.0,) * 5) if tier == "thorough" else ())
    for shape in shapes:
        for cg in RATIO_SCALES:
            ms = tuple(v * cg for v in shape)
            for N in RATIO_SCALES:
                for Es in RATIO_SCALES:
                    for Pt in RATIO_SCALES:
                        for f in ((1.0, 0.7) if tier == "thorough" else (0.7,)):
                            yield ("ratio", ms, Pt * f, N, Es)
    # every decade of r = noise/(Es*gain_best*Pt) from 1e-12 to 1e15, at three absolute scales of Pt and Es
    for shape in RATIO_SHAPES:
        for d in range(-12, 16):
            for Pt in (1.0, 1e-12, 1e12):
                for Es in (1.0, 1e-6, 1e6):
                    g = 3e-5
                    yield ("ratio", tuple(v * g for v in shape), Pt, (10.0 ** d) * Es * g * Pt, Es)
    # ---- scale families -------------------------------------------------
    wmax = 4 if tier == "thorough" else 3
    for n in range(1, wmax + 1):
        for ms in itertools.combinations_with_replacement(WIDE, n):
            for Pt in WIDE_PTS:
                for N in WIDE_NOISES:
                    for Es in WIDE_ESS:
                        yield ("spread", ms, Pt, N, Es)
    for n in range(1, 4):
        for ms in itertools.combinations_with_replacement(GAINS, n):
            for Pt in (1.0, 0.3, 1e3):
                for N in (1.0, 1e-2):
                    for Es in (1.0, 0.5):
                        yield ("scaled", ms, Pt, N, Es)
    S3 = 16 if tier == "thorough" else 6
    for s in range(S3):
        for n in (2, 4, 6):
            g0 = generic_gains(2000 + s, n)
            for e, e2 in ((-13, -13), (-15, -9), (9, -13), (-9, 9), (-15, -15)):
                g = tuple(v * 10.0 ** e for v in g0)
                for Pt in (1.0, 1e-6, 1e6):
                    yield ("generic_scaled", g, Pt, 10.0 ** e2, 1.0)
    S2 = 12 if tier == "thorough" else 4
    for s in range(S2):
        for n in (2, 5, 7, 8, 9, 12, 16):
            g = generic_gains(1000 + s, n)
            for N, Es in ((1.0, 1.0), (1.0, 0.5)):
                for PtB in ulp_boundary_powers(g, N, Es):
                    yield ("ulp_boundary", g, PtB, N, Es)


def run_job(chk, job):
    if job[0] == "presentation":
        run_presentation(chk, job)
        return
    kind, g, Pt, N, Es = job
    if kind in ("alphabet", "boundary", "spread", "link_budget", "ratio"):
        run_multiset(chk, g, Pt, N, Es, kind)
    elif kind == "scaled":
        run_scaled(chk, g, Pt, N, Es)
    else:
        n = len(g)
        case = {"kind": kind, "gains": list(g), "Pt": Pt, "noise": N, "Es": Es}
        with chk.guard(("doWF",), case):
            res = eval_case(chk, g, Pt, N, Es, case, grid=(n <= 5))
            if res is not None:
                # one rotation and the reversal as permuted runs
                for perm in (tuple(range(1, n)) + (0,), tuple(range(n - 1, -1, -1))):
                    if n == 1:
                        break
                    gp = tuple(g[i] for i in perm)
                    eval_case(chk, gp, Pt, N, Es, dict(case, gains=list(gp), sorted_gains=list(g)),
                              grid=False, canon=(res[0], res[1], perm))


# ----------------------------------------------------------------------
# argument presentations: the same VALUES handed over in every array / scalar type
# ----------------------------------------------------------------------
EPS32 = 2.0 ** -23
GAIN_FORMS = ("float64", "int64", "int32", "uint8", "float32", "strided_view", "reversed_view",
              "readonly", "list", "tuple")
SCALAR_FORMS = ("float", "int", "np.float32", "np.int64", "np.float64", "0d_float", "0d_int")


def present_gains(vals, how):
    isint = all(float(v).is_integer() for v in vals)
    if how in ("int64", "int32", "uint8"):
        if not isint or (how == "uint8" and max(vals) > 255):
            return None
        return np.array([int(v) for v in vals], dtype=how)
    if how == "float64":
        return np.array(vals, dtype=np.float64)
    if how == "float32":
        return np.array(vals, dtype=np.float32)
    if how == "strided_view":
        big = np.full(2 * len(vals), 99.0)
        big[::2] = vals
        return big[::2]
    if how == "reversed_view":
        return np.array(list(vals)[::-1], dtype=float)[::-1]
    if how == "readonly":
        a = np.array(vals, dtype=float)
        a.flags.writeable = False
        return a
    seq = [int(v) for v in vals] if isint else [float(v) for v in vals]
    return seq if how == "list" else tuple(seq)


def present_scalar(v, how):
    isint = float(v).is_integer()
    if how in ("int", "np.int64", "0d_int") and not isint:
        return None
    return {"float": lambda: float(v), "int": lambda: int(v), "np.float32": lambda: np.float32(v),
            "np.int64": lambda: np.int64(int(v)), "np.float64": lambda: np.float64(v),
            "0d_float": lambda: np.array(float(v)), "0d_int": lambda: np.array(int(v))}[how]()


def presentation_problems(tier):
    """values exactly representable in every type used (so equal-valued inputs are EQUAL inputs)"""
    out = []
    for n in (1, 2, 3):
        for ms in itertools.combinations_with_replacement((4.0, 1.0, 2.0, 100.0), n):
            for Pt, N, Es in ((3.0, 1.0, 1.0), (1.0, 2.0, 2.0), (50.0, 1.0, 2.0)):
                out.append((ms, Pt, N, Es))
    out.append(((4.0, 2.0, 1.0, 1.0, 100.0), 3.0, 1.0, 1.0))
    out.append(((3.42, 3.35, 3.23), 10.0, 1.0, 1.0))          # integer Pt/N/Es, non-integer gains
    for ms in ((0.5, 0.25), (3.0, 1.5, 0.25), (0.75,)):
        out.append((ms, 0.75, 0.5, 0.5))
    if tier == "thorough":
        for s in range(12):
            g = tuple(float(np.float32(v)) for v in generic_gains(3000 + s, 1 + s % 4))
            out.append((g, float(np.float32(0.3)), 1.0, 0.5))
    return out


def presentation_jobs(tier):
    for pi, (ms, Pt, N, Es) in enumerate(presentation_problems(tier)):
        for gf in GAIN_FORMS:
            for sf in SCALAR_FORMS:
                yield ("presentation", ms, Pt, N, Es, gf, (sf, sf, sf))
        for gf in ("float64", "int64"):
            for pos in range(3):
                for sf in SCALAR_FORMS[1:]:
                    forms = ["float"] * 3
                    forms[pos] = sf
                    yield ("presentation", ms, Pt, N, Es, gf, tuple(forms))
    # narrow unsigned gains with a PYTHON int symbol energy: Es*gain leaves the gain dtype
    for ms, Pt, N, Es in (((200.0, 100.0, 50.0), 3.0, 1.0, 3.0), ((100.0, 90.0), 1.0, 1.0, 3.0)):
        yield ("presentation", ms, Pt, N, Es, "uint8", ("float", "float", "int"))
        yield ("presentation", ms, Pt, N, Es, "uint8", ("float", "float", "np.int64"))


def run_presentation(chk, job):
    """doWF on one presentation of the arguments == doWF on the equal-valued float64 / Python
    float call (itself judged by R1-R8); the allocation must be a floating array"""
    from pyphysim.comm.waterfilling import doWF
    _, ms, Pt, N, Es, gf, sfs = job
    case = {"kind": "presentation", "gains": list(ms), "Pt": Pt, "noise": N, "Es": Es,
            "gains_as": gf, "scalars_as": list(sfs)}
    garg = present_gains(ms, gf)
    sargs = [present_scalar(v, f) for v, f in zip((Pt, N, Es), sfs)]
    if garg is None or any(a is None for a in sargs):
        chk.count("presentation_not_applicable")
        return
    gclass = ("integer_gains" if gf in ("int64", "int32", "uint8") else
              "float32_gains" if gf == "float32" else
              "view_gains" if gf in ("strided_view", "reversed_view", "readonly") else
              "sequence_gains" if gf in ("list", "tuple") else "float64_gains")
    sclass = "python_float_scalars" if set(sfs) == {"float"} else \
        "scalars:" + "+".join(sorted(set(sfs) - {"float"}))
    narrow = gf in ("uint8",) and sfs[2] == "int" and max(ms) * Es > 255
    # one class per cause: the gain presentation if it is not plain float64, else the scalar presentation
    sig = ("doWF", "presentation", "narrow_unsigned_gains_x_python_int_Es" if narrow else
           (gclass if gclass != "float64_gains" else sclass))
    with chk.guard(sig, case):
        base_case = dict(case, kind="presentation_base", gains_as="float64", scalars_as=["float"] * 3)
        base = eval_case(chk, ms, Pt, N, Es, base_case, grid=False)      # oracle side first
        if base is None:
            return
        bP, bmu, btol = base
        keep = np.array(garg) if isinstance(garg, np.ndarray) else None
        chk.count("eval_doWF")
        chk.count("eval_presentations")
        if gf in ("list", "tuple"):
            # a plain sequence is not the documented argument type (np.ndarray): the call as such
            # is free (tools/INVALID_CALL_POLICY.md); if it returns, the result must be right
            try:
                P, mu = doWF(garg, *sargs)
            except Exception as e:  # noqa
                chk.outcome("invalid_call", ("gains_as_" + gf, "raised:" + type(e).__name__, "n/a"))
                return
            chk.outcome("invalid_call", ("gains_as_" + gf, "accepted", "n/a"))
        else:
            P, mu = doWF(garg, *sargs)
        chk.outcome("presentations", (gf, sfs))
        P = np.asarray(P)
        if P.dtype.kind != "f":
            chk.fail(sig + ("allocation_dtype_not_floating",), case, observed=str(P.dtype),
                     expected="a floating dtype")
        if P.shape != bP.shape or not np.all(np.isfinite(P.astype(float))) or not np.isfinite(float(mu)):
            chk.fail(sig + ("malformed_result",), case, observed="shape %r" % (P.shape,), expected=bP.shape)
            return
        if keep is not None and not (garg.dtype == keep.dtype and np.array_equal(garg, keep)):
            chk.fail(sig + ("input_modified",), case, observed=garg, expected=keep)
        n = len(ms)
        if gf == "float32" or "np.float32" in sfs:
            # with a float32 argument numpy may carry the arithmetic out in float32 (float32 gains;
            # uint8 gains x np.float32 scalar): tolerance in float32 ulps, against the reference
            # evaluated on the float64 VALUE of the float32 input
            tmax = max(thresholds(ms, N, Es)[i] for i in range(n) if bP[i] > 0)
            tol = 64 * EPS32 * (n * Pt + tmax)
            tol_mu = 64 * EPS32 * max(abs(bmu), Pt)
        else:
            tol = btol
            tol_mu = C_TOL * EPS * max(abs(bmu), Pt)
        if float(np.max(np.abs(P - bP))) > tol:
            chk.fail(sig + ("allocation_differs_from_float64_call",), case, observed=P, expected=bP)
        elif abs(float(mu) - bmu) > tol_mu:
            chk.fail(sig + ("water_level_differs_from_float64_call",), case, observed=float(mu), expected=bmu)
    chk.nontriv(("presentation", tuple(ms), Pt, N, Es, gf, tuple(sfs)))


def defaults_case(chk):
    """noiseVar and Es default to 1"""
    from pyphysim.comm.waterfilling import doWF
    for g in ((1.0,), (0.5, 3.0), (1e-2, 1.0, 1e3)):
        for Pt in (0.3, 10.0):
            case = {"kind": "defaults", "gains": list(g), "Pt": Pt, "noise": 1.0, "Es": 1.0}
            with chk.guard(("doWF", "defaults"), case):
                chk.count("eval_doWF", 2)
                a = doWF(np.array(g), Pt)
                b = doWF(np.array(g), Pt, 1.0, 1.0)
                if not (np.array_equal(a[0], b[0]) and a[1] == b[1]):
                    chk.fail(("doWF", "defaults", "noiseVar_Es_default_not_1"), case,
                             observed=a[0], expected=b[0])


def main(chk):
    chk.assume("gains, Pt, noise, Es strictly positive finite floats (property domain); "
               "gain vectors are 1-D float numpy arrays")
    chk.assume("float relations pass iff |lhs-rhs| <= %g*2^-52*max(Pt, level, largest active "
               "threshold N/(Es g)); capacities compared with %g*2^-52*(capacity+n)" % (C_TOL, C_CAP))
    chk.extra["tolerance_c"] = C_TOL
    chk.extra["capacity_tolerance_c"] = C_CAP
    chk.extra["simplex_grid_G"] = {str(k): v for k, v in GRID.items()}
    chk.extra["gain_alphabet"] = list(GAINS)

    def worker(i, n, c):
        for job in shard(all_jobs(c.tier), i, n):
            c.count("multisets_x_params")
            run_job(c, job)
        for job in shard(presentation_jobs(c.tier), i, n):
            run_job(c, job)

    # length-1 vectors and the tidy boundary vectors first, in the parent: the smallest witnesses are stored first
    for job in prelude_jobs():
        chk.count("multisets_x_params")
        run_job(chk, job)
    run_shards(chk, worker)
    defaults_case(chk)
    chk.sample({"kind": "alphabet", "gains": [1.0, 0.5], "Pt": 1.0, "noise": 1.0, "Es": 0.5})
    chk.sample({"kind": "alphabet", "gains": [1e-4, 1e3, 1.0], "Pt": 0.3, "noise": 5.0, "Es": 3.0})
    nmax = 5 if chk.tier == "thorough" else 4
    # every (length, number of active channels) pair with 1 <= active <= length <= nmax
    got = chk.outcomes.get("active_channels", set())
    missing = [(n, k) for n in range(1, nmax + 1) for k in range(1, n + 1) if (n, k) not in got]
    if missing:
        from vmc.report import Broken
        raise Broken("vacuous: (length, active) pairs never reached: %r" % missing)
    chk.require_outcomes("active_channels", nmax * (nmax + 1) // 2)
    chk.require_outcomes("scale_family_active_channels", 12)
    chk.require_outcomes("presentations", 40)
    decs = sorted(set(d for d, _ in chk.outcomes.get("ratio_decades", ())))
    chk.extra["ratio_noise_over_Es_gain_Pt_decades"] = [decs[0], decs[-1]] if decs else []
    if not decs or decs[0] > -12 or decs[-1] < 15:
        from vmc.report import Broken
        raise Broken("vacuous: ratio noise/(Es g Pt) does not span 1e-12..1e15: %r" % (decs[:1] + decs[-1:],))


def replay(case, chk):
    g = tuple(float(v) for v in case["gains"])
    Pt, N, Es = float(case["Pt"]), float(case["noise"]), float(case["Es"])
    if case.get("kind") == "defaults":
        defaults_case(chk)
        return
    if case.get("kind") in ("presentation", "presentation_base"):
        run_presentation(chk, ("presentation", g, Pt, N, Es, case["gains_as"], tuple(case["scalars_as"])))
        return
    if "base" in case:
        b = case["base"]
        a = float(case["Pt"]) / float(b["Pt"])
        rel = ("Pt_x_a,noise_x_a" if a != 1.0 else
               ("Es_folded_into_gains" if float(b["Es"]) != float(case["Es"]) else "gains_x_c,noise_x_c"))
        with chk.guard(("doWF", "scale_covariance"), case):
            check_covariance(chk, rel, case, a)
        return
    with chk.guard(("doWF",), case):
        sg = case.get("sorted_gains")
        canon = None
        if sg is not None:
            sg = tuple(float(v) for v in sg)
            # recover a permutation with g[i] == sg[perm[i]]
            pool = list(range(len(sg)))
            perm = []
            for v in g:
                k = next(p for p in pool if sg[p] == v)
                pool.remove(k)
                perm.append(k)
            from vmc.report import Check
            quiet = Check(PID, LEVEL, ENGINE, RULE, child=True)
            r = eval_case(quiet, sg, Pt, N, Es, dict(case, gains=list(sg)), grid=False)
            if r is not None:
                canon = (r[0], r[1], tuple(perm))
        eval_case(chk, g, Pt, N, Es, case, grid=(len(g) <= 5), canon=canon)
