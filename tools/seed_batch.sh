#!/bin/bash
# tools/seed_batch.sh WAVE_PREFIX TAG PIDS...   e.g. seed_batch.sh /tmp/seed5- w5 C01 C02
pre=$1; tag=$2; shift 2
for pid in "$@"; do for k in 1 2; do
  src=$pre$pid/seed$k; name=$pid-${tag}seed$k
  [ -f $src/patch.diff ] || { echo "$name: no patch"; continue; }
  python3 /verif/tools/validate_seed.py $src $pid $name 2>&1 | python3 -c "
import sys,json
t=sys.stdin.read()
try:
    d=json.loads(t[t.index('{'):])
    print(d['name'],'confirmed',d['confirmed'],'DETECTED' if d['detected'] else 'MISSED', {k:(v['exit'],v['signatures'][:2]) for k,v in d['checks'].items()})
except Exception as e: print('$name ERR',t[-300:])
"
done; done
