#!/usr/bin/env python3
"""tools/add_finding.py PROPERTY 'sig|parts' STATUS COMMIT_OR_- 'what ...' [why_not_fixed]"""
import json, sys
p = '/verif/known_findings.json'
d = json.load(open(p))
prop, sig, status, commit, what = sys.argv[1:6]
e = {"property": prop, "signature": sig.split("|"), "status": status}
if commit != "-":
    e["commit"] = commit
    what = "fixed: property=%s %s %s" % (prop, commit, what)
e["what"] = what
if len(sys.argv) > 6:
    e["why_not_fixed"] = sys.argv[6]
d["findings"] = [f for f in d["findings"] if not (f["property"] == prop and f["signature"] == e["signature"])]
d["findings"].append(e)
json.dump(d, open(p, "w"), indent=1)
print("recorded", prop, sig, status)
