#!/usr/bin/env python3
"""Regenerates /verif/MANIFEST.json from the table below and validates it."""
import glob
import json
import os

here = os.path.dirname(os.path.abspath(__file__))
root = os.path.dirname(here)

# pid -> (level, technique, level_text, level_note, design_ref)
CHECKS = {
    "C15": ("model_checking",
            "explicit-state BFS over setPhaseOffset histories of real PSK objects + exhaustive enumeration of bounded integer domains",
            "Every PSK order 2..2^12 x 8 initial offsets x every setPhaseOffset history up to the depth bound, every square QAM 4..4^6, BPSK and QPSK are constructed on the implementation and EVERY minimum-distance pair (brute-force pairwise distances) is checked for a one-bit label difference; the Gray conversions are run on every integer of [0,2^20) (thorough 2^24) and on every integer < 2^62 with <= 3 set bits and its neighbours in four integer representations; count_bit_errors on all pairs of the <=2-bit values along every axis. A bounded-exhaustive statement, not a sample.",
            "Trusted: numpy integer arithmetic for the bit-loop reference, brute-force distance search with relative tie tolerance 1e-9. Integers outside the enumerated sets (>3 set bits above 2^24) are not covered.",
            "DESIGN.md section 3, C15"),
}

CHECKS["C05"] = ("model_checking",
    "stateless deviation-bounded exploration (every placement of <=D non-default answers of the user's iteration) of the real SimulationRunner.simulate() against a reference interpreter",
    "For every configuration of a finite family (parameter grids with 0-3 unpacked parameters, rep_max 1..4(5), every Boolean stop predicate on the repetition index and thresholds on the merged result, modes all/single index/simulate twice) EVERY answer vector of the scripted _run_simulation with at most D deviations (value change or SkipThisOne; D=3/2/1 quick, 4/3/2 thorough by size) is executed to completion on the implementation; exact call log, repetition counts, merged values, update and skip counts and all look-ups by fixed values are compared with the reference interpreter of the documented loop.",
    "Trusted: the reference interpreter in models/runner_model.py (30 lines). Not covered: parameter lists with duplicate values, simulate_in_parallel (needs an ipyparallel cluster), answer vectors with more deviations than the bound.",
    "DESIGN.md section 3, C05")

NOT_YET = {}


def main():
    props = [json.loads(l) for l in open(os.path.join(root, "properties.jsonl"))]
    checks = []
    na = []
    for p in props:
        pid = p["id"]
        have = glob.glob(os.path.join(root, "checks", pid.lower() + "_*.py"))
        if pid in CHECKS and have:
            level, technique, text, note, ref = CHECKS[pid]
            checks.append({
                "property_id": pid,
                "quick_cmd": "./check %s --tier quick" % pid,
                "thorough_cmd": "./check %s --tier thorough" % pid,
                "evidence_file": "/verif/evidence/%s.json" % pid,
                "replay_cmd_template": "./check %s --replay {path}" % pid,
                "engine": "vmc",
                "level_claimed": {"category": level, "text": text, "design_ref": ref},
                "level_note": note,
                "technique": technique,
            })
        else:
            na.append({"property_id": pid,
                       "reason": NOT_YET.get(pid, "check not built yet in this revision (planned, see DESIGN.md section 3); not claimed")})
    m = {
        "version": 1,
        "setup_cmd": "/venv/bin/python -B tools/setup_check.py",
        "hooks": {
            "guard": "PYPHYSIM_VERIF",
            "enable": "no source hooks exist: every seam (RNG, clock, file layer, callbacks) is reached by assigning module attributes from the harness; the guard name is reserved and unused",
            "baseline_off_cmd": "python3 /verif/tools/baseline.py /repo",
            "source_commits": [],
            "add_only": True,
        },
        "engines": [
            {"name": "vmc", "path": "/verif/vmc",
             "serves_properties": [c["property_id"] for c in checks],
             "kind_free_text": "hand-written explicit-state / stateless bounded explorers executing the real Python implementation: E1 exhaustive product enumerator, E2 deviation-bounded choice explorer over environment answers, E3 BFS over operation histories with whole-object digests, E4 crash-point/torn-write file layer"},
        ],
        "checks": checks,
        "not_applicable": na,
        "notes": "All checks import pyphysim from /repo's working tree (VERIF_REPO overrides), never from site-packages. Known genuine defects: /verif/known_findings.json. Seeded property-breaking changes: /verif/seeded/.",
    }
    if not na:
        m.pop("not_applicable")
    out = os.path.join(root, "MANIFEST.json")
    with open(out + ".tmp", "w") as f:
        json.dump(m, f, indent=1)
    try:
        import jsonschema
        jsonschema.validate(m, json.load(open(os.path.join(here, "MANIFEST.schema.json"))))
    except ImportError:
        pass
    os.replace(out + ".tmp", out)
    print("MANIFEST.json: %d checks, %d not_applicable" % (len(checks), len(na)))


if __name__ == "__main__":
    main()
