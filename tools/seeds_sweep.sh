#!/bin/bash
# quick tier of every check under several seeds / hash seeds, fresh process each: must all be quiet
cd "$(dirname "$0")/.."
for seed in ${SEEDS:-1 2 3 4}; do
  for p in ${PIDS:-C01 C02 C03 C04 C05 C06 C07 C08 C09 C10 C11 C12 C13 C14 C15 C16 C17 C18 C19 C20}; do
    out=$(VERIF_SEED=$seed PYTHONHASHSEED=$seed ./check $p --tier quick 2>&1); rc=$?
    echo "seed=$seed $p exit=$rc viol=$(echo "$out" | grep -c '^VIOLATION') known=$(echo "$out" | grep -c '^KNOWN-FINDING')"
    [ $rc -ne 0 ] && echo "$out" | grep -E "signature=|BROKEN" | head -5
  done
done
