"""E4 - crash-injecting file layer.

Each execution gets a private empty directory on tmpfs.  The name `open` as
resolved from a library module (e.g. `pyphysim.simulations.results.open`) is
replaced by `CrashFS.open`, which forwards to the real `open` but wraps files
opened for writing so that every operation is logged and is a potential crash
point.  `os.replace/os.rename/os.remove/os.mkdir` can be wrapped the same way
through `wrap_os(module)`.  `CrashFS.installed()` does both process-wide for
every path under the private directory, so the layer does not depend on WHICH
module of the library issues the operation or how it spells it.

Crash model = process kill:
  * an `open(...,'w')` truncation is durable immediately;
  * everything a completed write() call handed over is durable (the wrapper
    flushes after each write so the durable image IS the directory content);
  * a crash INSIDE a write keeps an arbitrary prefix of that call's bytes;
  * a crash between two operations keeps everything before it.
Power-loss reordering is not modelled (the library never calls fsync).

The decision *whether* and *where* to crash is taken by a `decide(op, info)`
callback (an E2 choice point supplied by the harness):
    decide("open", path)          -> 0 continue | 1 crash before | 2 crash after (truncated)
    decide("write", (path, n))    -> 0 continue | 1 crash before | 2+k crash after prefix k of torn_prefixes(n)
    decide("close", path)         -> 0 continue | 1 crash before
    decide("replace", (src,dst))  -> 0 continue | 1 crash before | 2 crash after
    decide("remove", path) / ("mkdir", path) likewise 0/1/2
"""
import builtins
import contextlib
import os
import shutil
import tempfile


class Crash(BaseException):
    """Simulated process kill.  BaseException so that no `except Exception`
    in the code under test can swallow it."""


def torn_prefixes(n, every_byte_limit=4096, coarse=False):
    """prefix lengths kept by a crash inside a write of n bytes (0 < k < n is
    torn; k = 0 equals 'crash before', k = n equals 'crash after')."""
    if n <= 1:
        return []
    if coarse or n > every_byte_limit:
        return sorted(set(k for k in (1, n // 2, n - 1) if 0 < k < n))
    return list(range(1, n))


class _WFile:
    def __init__(self, fs, real, path, binary):
        self._fs, self._f, self._path, self._binary = fs, real, path, binary
        self.closed = False

    def write(self, data):
        fs = self._fs
        n = len(data)
        fs.log.append(("write", self._path, n))
        d = fs.decide("write", (self._path, n))
        if d == 1:
            raise Crash("before write(%d) to %s" % (n, self._path))
        if d >= 2:
            pre = fs.torn(n)
            k = pre[d - 2] if d - 2 < len(pre) else n
            self._f.write(data[:k])
            self._f.flush()
            fs.log.append(("torn", self._path, k))
            raise Crash("inside write to %s: %d of %d bytes" % (self._path, k, n))
        r = self._f.write(data)
        self._f.flush()
        return r

    def writelines(self, lines):
        for ln in lines:
            self.write(ln)

    def flush(self):
        self._f.flush()

    def close(self):
        if self.closed:
            return
        self._fs.log.append(("close", self._path))
        d = self._fs.decide("close", self._path)
        self._f.flush()
        self._f.close()
        self.closed = True
        if d == 1:
            raise Crash("at close of %s" % self._path)

    def __enter__(self):
        return self

    def __exit__(self, et, ev, tb):
        if et is not None and issubclass(et, Crash):
            # a killed process does not run close(); data already flushed
            try:
                self._f.close()
            finally:
                self.closed = True
            return False
        self.close()
        return False

    def __getattr__(self, name):
        return getattr(self._f, name)


class CrashFS:
    def __init__(self, decide=None, torn=None, base=None):
        base = base or ("/dev/shm" if os.path.isdir("/dev/shm") else tempfile.gettempdir())
        self.root = tempfile.mkdtemp(prefix="vmc-", dir=base)
        self.decide = decide or (lambda op, info: 0)
        self.torn = torn or torn_prefixes
        self.log = []
        self._real_open = builtins.open

    # -- lifecycle -----------------------------------------------------
    def cleanup(self):
        shutil.rmtree(self.root, ignore_errors=True)

    def __enter__(self):
        return self

    def __exit__(self, *a):
        self.cleanup()

    def rel(self, path):
        p = os.path.abspath(path)
        return os.path.relpath(p, self.root) if p.startswith(self.root) else p

    # -- wrapped operations ---------------------------------------------
    def open(self, file, mode="r", *args, **kw):
        if any(c in mode for c in "wax+"):
            path = self.rel(file)
            self.log.append(("open", path, mode))
            d = self.decide("open", path)
            if d == 1:
                raise Crash("before open(%s,%s)" % (path, mode))
            f = self._real_open(file, mode, *args, **kw)
            if d == 2:
                f.close()
                raise Crash("after open(%s,%s)" % (path, mode))
            return _WFile(self, f, path, "b" in mode)
        return self._real_open(file, mode, *args, **kw)

    def wrap_os(self, real_os=os):
        fs = self

        class _OS:
            path = real_os.path

            def __getattr__(self_, name):
                return getattr(real_os, name)

            def _op(self_, name, fn, info, *a, **kw):
                fs.log.append((name,) + tuple(info))
                d = fs.decide(name, info if len(info) > 1 else info[0])
                if d == 1:
                    raise Crash("before %s%r" % (name, info))
                r = fn(*a, **kw)
                if d == 2:
                    raise Crash("after %s%r" % (name, info))
                return r

            def replace(self_, src, dst, **kw):
                return self_._op("replace", real_os.replace, (fs.rel(src), fs.rel(dst)), src, dst, **kw)

            def rename(self_, src, dst, **kw):
                return self_._op("replace", real_os.rename, (fs.rel(src), fs.rel(dst)), src, dst, **kw)

            def remove(self_, p, **kw):
                return self_._op("remove", real_os.remove, (fs.rel(p),), p, **kw)

            def unlink(self_, p, **kw):
                return self_._op("remove", real_os.unlink, (fs.rel(p),), p, **kw)

            def mkdir(self_, p, *a, **kw):
                return self_._op("mkdir", real_os.mkdir, (fs.rel(p),), p, *a, **kw)

            def rmdir(self_, p, **kw):
                return self_._op("rmdir", real_os.rmdir, (fs.rel(p),), p, **kw)

            def fsync(self_, fd):
                fs.log.append(("fsync",))
                return real_os.fsync(fd)

        return _OS()

    # -- process-wide installation ---------------------------------------
    def under_root(self, path):
        try:
            p = os.fspath(path)
        except TypeError:
            return False               # file descriptors etc.
        if isinstance(p, bytes):
            p = os.fsdecode(p)
        return os.path.abspath(p).startswith(self.root)

    @contextlib.contextmanager
    def installed(self):
        """Route EVERY file operation of the process that touches this file system's directory
        through the crash layer, whichever module issues it and whichever spelling it uses:
        builtins.open / io.open (hence pathlib.Path.open, write_bytes, write_text) and
        os.replace / rename / remove / unlink / mkdir (hence makedirs, Path.mkdir) / rmdir / fsync.
        Paths outside the directory pass through untouched and unlogged."""
        import io
        import types
        names = ("replace", "rename", "remove", "unlink", "mkdir", "rmdir", "fsync")
        real = types.SimpleNamespace(path=os.path, **{n: getattr(os, n) for n in names})
        wrapped = self.wrap_os(real)
        fs = self

        def route(name):
            w, r = getattr(wrapped, name), getattr(real, name)

            def f(p, *a, **kw):
                if fs.under_root(p):
                    return w(p, *a, **kw)
                return r(p, *a, **kw)
            f.__name__ = name
            return f

        def opener(file, mode="r", *a, **kw):
            if fs.under_root(file):
                return fs.open(os.fspath(file), mode, *a, **kw)
            return fs._real_open(file, mode, *a, **kw)

        saved = [(builtins, "open", builtins.open), (io, "open", io.open)]
        saved += [(os, n, getattr(os, n)) for n in names if n != "fsync"]
        try:
            builtins.open = opener
            io.open = opener
            for n in names:
                if n != "fsync":
                    setattr(os, n, route(n))
            yield self
        finally:
            for mod, n, old in saved:
                setattr(mod, n, old)

    # -- durable image -------------------------------------------------
    def image(self):
        """{relative path: bytes} of everything in the directory"""
        out = {}
        for d, _, files in os.walk(self.root):
            for fn in files:
                p = os.path.join(d, fn)
                with self._real_open(p, "rb") as f:
                    out[os.path.relpath(p, self.root)] = f.read()
        return out
