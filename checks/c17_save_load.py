"""C17 - saving and loading parameters and results loses nothing.

E1, exhaustive product over
  P  every parameter dictionary with 1..2 (thorough: 3) entries over a ~40 value
     alphabet (Python / numpy scalars of every width, strings, lists, sets,
     real arrays 1-D..3-D incl. empty ones, and the same kinds of arrays as
     transposed / Fortran-ordered / strided / negative-stride / swapaxes views,
     read-only and 0-d arrays) x every subset of the iterable
     entries marked unpacked x {the object itself, every unpacked child}
     x {JSON string, pickle string, pickle file of the parameters} and, wrapped
     in a SimulationResults, x {JSON string, pickle string, .json / .pickle /
     extension-less file through save_to_file with a template naming every
     parameter};
  R  every Result of the four types x update history of length <= 3 (quick 2)
     over the C06 alphabets extended by numpy scalars / a set x accumulate
     on/off x {JSON, pickle}; the same histories inside a SimulationResults
     with runned_reps / current_rep set x every target;
  N  file names: determinism, and injectivity over every pair of distinct
     scalar values (one and two placeholders).

Oracle: the library's own `==`, an independent field-by-field comparison
(values as numbers, container kinds, shapes, unpack marks, unpack index, parent,
runned_reps, current_rep, per-result statistics), the fixpoint
load(save(loaded)) == loaded and identical (set-order normalised) JSON text on
the second trip.  Files live in a private directory under /dev/shm which is
removed.
"""
import contextlib
import copy
import itertools
import json
import os
import pickle
import shutil
import tempfile
import traceback
from collections.abc import Iterable

import numpy as np

from vmc.parallel import run_shards, shard
from vmc import bfs
from vmc.report import Broken, Check

PID = "C17"
LEVEL = "exploration"
ENGINE = "E1 exhaustive product (value alphabet x unpack subsets x children x result histories x targets)"
RULE = ("P: all dictionaries with 1..2 (thorough 3) entries over the value alphabet (42 values; plus 8 array memory "
        "presentations - transposed, Fortran-ordered, strided, negative-stride, swapaxes, read-only, 0-d - crossed with "
        "each other and with a representative of every value kind, thorough: full square) x every subset of iterable "
        "entries unpacked x object itself and every unpacked child x params targets {json, pickle, pickle file} "
        "and SimulationResults targets {json, pickle, save_to_file .json/.pickle/no extension with a template "
        "over all parameter names}; R: all four result types x all update histories <= 3 (quick 2) x accumulate "
        "x {json, pickle}, and the same inside SimulationResults x runned_reps x current_rep x all targets; N: "
        "B: SimulationResults bookkeeping grid - runned_reps in {None,0,[],[0],[0,0],int64(0),7,[2,5]} x current_rep in "
        "{-1,0,4} x original_filename in {None,'',template} x results {none, zero updates, one update, all-zero values} x "
        "parameters {none, one, child with unpack_index 0, unpacked of length 1 / 0} x {json, pickle, to_dict/from_dict, "
        ".json/.pickle/extension-less file}; H: objects reached through an edit history - every valid "
        "sequence of <= 2 (thorough 3) public writers (set_unpack_parameter on/off, remove, add, item assignment) from 3 "
        "initial mark sets, with and without every public reader called in between, on a SimulationParameters and in place "
        "on the params of a SimulationResults: reported state = the edit history, indistinguishable (==, public view, file "
        "name) from an object created in that state, round trips, a loaded-then-edited object derives the name of its new "
        "values; E: invalid calls (malformed / truncated files, unknown extension, save of an "
        "unsupported value, unwritable destinations) are recorded as outcomes only - required is that afterwards a valid "
        "save+load of the same object round-trips and an earlier valid file still loads equal; alternative entry points (to_dict/from_dict, load_from_file on the '.pickle'-less "
        "name, save_to/load_from_pickled_file, get_filename_with_replaced_params); "
        "file-name determinism and pairwise injectivity over the scalar alphabet (incl. tiny floats, large floats a "
        "fine step / one ulp apart, ints beyond 2^53, narrow floats) and along the TYPE axis (confusable values as "
        "Python float / np.float64 / np.float32 / np.float16 where exact, Python vs numpy ints, and as the np.float64 "
        "children of an unpacked float array or list, whose files must not overwrite each other) and independently of HISTORY (for every pair of objects equal by "
        "value but different in dtype / container / scalar type: the name of each computed alone in a forked copy of "
        "the process = its name after the other one, in both orders; distinct names -> both files loadable). Non-trivial = the object holds "
        "a value JSON has no native form for (numpy scalar/array, set), an unpack mark, or a result with >= 1 "
        "update; distinct = distinct (dictionary, unpack subset, child index) / (type, accumulate, history)")

NAMES = ("a", "b", "c")
CHOICE_NUM = 3


# ----------------------------------------------------------------------
# alphabets
# ----------------------------------------------------------------------
def value_alphabet():
    """(label, value) simplest first.  Fractional float values are dyadic so
    that narrowing to float16/float32 is exact (a numpy float32 0.1 and a Python
    0.1 are different numbers; that is not the subject here)."""
    A = [
        ("int", 3), ("float", 2.5), ("str", "abc"), ("bool", True),
        ("negint", -7), ("bigint", 2 ** 70), ("float_nondyadic", 0.1), ("float_tiny", 1e-320),
        ("float_big", 1.7976931348623157e308), ("str_empty", ""), ("str_special", "é \"q\" \\ \n"),
        ("np.int8", np.int8(-3)), ("np.int16", np.int16(300)), ("np.int32", np.int32(70000)),
        ("np.int64", np.int64(2 ** 40)), ("np.uint8", np.uint8(200)), ("np.uint16", np.uint16(60000)),
        ("np.uint32", np.uint32(4000000000)), ("np.uint64", np.uint64(2 ** 63 + 5)),
        ("np.float16", np.float16(0.25)), ("np.float32", np.float32(2.5)), ("np.float64", np.float64(2.5)),
        ("np.longdouble", np.longdouble(2.5)),
        ("list_empty", []), ("list_int", [1, 2, 3]), ("list_mixed", [1.5, "a", 2]),
        ("list_nested", [[1, 2], [3]]), ("list_str", ["x", "y"]),
        ("list_npscalars", [np.int64(4), np.float32(0.5)]),
        ("set_int", {1, 2}), ("set_str", {"a", "b"}), ("set_empty", set()),
        ("arr_i64", np.arange(3)), ("arr_i32", np.array([1, 2], dtype=np.int32)),
        ("arr_f64", np.array([0.5, 1.5, 2.0])), ("arr_f32", np.array([0.25, 0.5], dtype=np.float32)),
        ("arr_range5", np.arange(5, 30, 5)), ("arr_2d_i64", np.arange(6).reshape(2, 3)),
        ("arr_2d_f32", np.array([[0.5, 1.0], [1.5, 2.0]], dtype=np.float32)),
        ("arr_3d_f64", np.arange(4, dtype=float).reshape(2, 1, 2) / 4),
        ("arr_empty_1d", np.zeros((0,))), ("arr_empty_2d", np.zeros((0, 3))),
    ]
    return A


def array_presentations():
    """the same kinds of arrays in every memory presentation numpy can hand
    over: transposed / Fortran-ordered / strided / negative-stride / swapaxes
    views, a read-only array, a 0-d array.  (label, value); built fresh on
    every call.  An encoder that walks the buffer instead of the logical index
    order, or that needs a writeable / contiguous array, shows up here only."""
    ro = np.arange(4).reshape(2, 2) + 10
    ro.flags.writeable = False
    B = [
        ("arr_2d_T", np.arange(6).reshape(2, 3).T),
        ("arr_2d_F_f32", np.asfortranarray(np.array([[0.5, 1.0, 1.5], [2.0, 2.5, 3.0]], dtype=np.float32))),
        ("arr_2d_strided", np.arange(12).reshape(3, 4)[:, ::2]),
        ("arr_1d_negstride", np.arange(5.0)[::-1] / 2),
        ("arr_2d_negstride", np.arange(6, dtype=np.int32).reshape(2, 3)[::-1, ::-1]),
        ("arr_3d_swapaxes", np.arange(12, dtype=float).reshape(2, 3, 2).swapaxes(0, 2) / 4),
        ("arr_2d_readonly", ro),
        ("arr_0d", np.array(2.5)),
    ]
    return B


def falsy_values():
    """falsy-but-valid values (a writer that saves a field 'only if it has a
    value' drops them) and one-element containers; (label, value)"""
    return [("zero", 0), ("zero_float", 0.0), ("false", False), ("np.int64_zero", np.int64(0)),
            ("np.float32_zero", np.float32(0.0)), ("list_one", [5]), ("arr_one", np.array([7]))]


def full_alphabet():
    return value_alphabet() + array_presentations() + falsy_values()


REPRESENTATIVES = ("int", "np.float32", "str", "list_int", "set_int", "arr_i64", "arr_2d_i64", "arr_empty_2d")


def unpackable(v):
    """iterable in the sense of set_unpack_parameter AND actually iterable
    (a 0-d array is an instance of Iterable but cannot be iterated)"""
    return isinstance(v, Iterable) and not (isinstance(v, np.ndarray) and v.ndim == 0)


def is_native(v):
    return type(v) in (int, float, str, bool)


def result_alphabets():
    return {
        "SUM": [[1], [2.5], [-1], [np.float32(0.5)], [np.int64(2)]],
        "RATIO": [[1, 2], [0, 5], [3, 4], [np.float32(1.5), 2], [np.int32(1), np.int32(4)]],
        "CHOICE": [[0], [1], [2], [np.int64(1)]],
        "MISC": [["a"], [7], [[1]], [{1, 2}], [np.float32(2.5)]],
    }


def result_alphabets_with_arrays():
    """+ a 0-d array observation for SUM (the only array a Result can hold and
    still be compared with ==)"""
    al = result_alphabets()
    al["SUM"] = al["SUM"] + [[np.array(2.5)], [0], [0.0]]
    # falsy observations: a MISC result whose value is '' / [] / 0 / False has a value
    al["MISC"] = al["MISC"] + [[""], [[]], [0], [False]]
    return al


def scalar_names_alphabet():
    """scalars for the file-name injectivity check: numbers (incl. close pairs,
    different widths) and file-name safe strings"""
    nums = [0, 1, -1, 2, 10, 12, 3, 23, 2 ** 70, 2.5, 2.54, 2.56, 0.25, 0.3, 1e-320, 1e16, 1e16 + 2, -2.5, 0.1,
            1 / 3, np.int8(5), np.int64(6), np.uint8(7), np.float16(0.75), np.float32(8.5), np.float64(9.5),
            np.uint64(2 ** 63 + 5), np.int32(-9)]
    # confusable values: a name built through a tolerance, a rounding or a narrower type would merge them
    nums += [1e-9, 2e-9, 4e-9, 1e-12, 3e-12, 2e-320,                    # tiny, distinct (absolute tolerance)
             2.4e9, 2.4e9 + 5e3, 2400005000 + 1, 2.4e9 + 1e4,           # large, a fine step apart (relative tol.)
             1.0 + 2.0 ** -52, 1.0 - 2.0 ** -53, 0.1 + 0.2,             # one ulp from 1.0 / from 0.3
             2 ** 70 + 1, 2 ** 53 + 1, float(2 ** 53),                  # ints beyond double precision
             np.float32(0.1), np.float16(0.1), np.float32(2.4e9 + 5e3),  # narrow floats != the double 0.1 / 2400005000
             np.float64(1e-9) * 3, 1e100, 1e100 * (1 + 2.0 ** -52), -1e-9]
    strs = ["abc", "x", "y", "xy", "X", "", "1a", "a", "A", "ab", "a b", "aB"]
    return nums, strs


# ----------------------------------------------------------------------
# independent structural comparison
# ----------------------------------------------------------------------
def tname(x):
    if isinstance(x, np.ndarray):
        return "ndarray"
    if isinstance(x, np.generic):
        return type(x).__name__
    return type(x).__name__


def is_num(x):
    return isinstance(x, (int, float, np.integer, np.floating)) and not isinstance(x, (bool, np.bool_))


def num_equal(a, b):
    """equal as numbers (exact): compares through Python ints / exact floats"""
    if isinstance(a, (int, np.integer)) and isinstance(b, (int, np.integer)):
        return int(a) == int(b)
    fa = np.longdouble(a) if not isinstance(a, int) else a
    fb = np.longdouble(b) if not isinstance(b, int) else b
    try:
        if isinstance(fa, int) and not isinstance(fb, int):
            return float(fb).is_integer() and int(fb) == fa if abs(fb) < 1e300 else False
        if isinstance(fb, int) and not isinstance(fa, int):
            return float(fa).is_integer() and int(fa) == fb if abs(fa) < 1e300 else False
        return bool(fa == fb)
    except (OverflowError, ValueError):
        return False


def diff(a, b, path="", owner=""):
    """first difference between the original `a` and the reloaded `b`, or None.
    Returns (owner 'Class.field', kind, description).  Numbers are compared as
    numbers (a numpy scalar may come back as the Python number of the same
    value), everything else structurally."""
    if a is None or b is None:
        if a is None and b is None:
            return None
        return (owner, "%s->%s" % (tname(a), tname(b)), "%s: %r -> %r" % (path, a, b))
    if isinstance(a, (bool, np.bool_)) or isinstance(b, (bool, np.bool_)):
        if isinstance(a, (bool, np.bool_)) and isinstance(b, (bool, np.bool_)) and bool(a) == bool(b):
            return None
        return (owner, "%s->%s" % (tname(a), tname(b)), "%s: %r -> %r" % (path, a, b))
    if is_num(a):
        if is_num(b) and num_equal(a, b):
            return None
        if is_num(b):
            return (owner, "num:%s->%s" % (num_class(a), num_class(b)), "%s: %r -> %r" % (path, a, b))
        return (owner, "%s->%s" % (tname(a), tname(b)), "%s: %r -> %r" % (path, a, b))
    if isinstance(a, str):
        if isinstance(b, str) and a == b:
            return None
        return (owner, "%s->%s" % (tname(a), tname(b)), "%s: %r -> %r" % (path, a, b))
    if isinstance(a, np.ndarray):
        if not isinstance(b, np.ndarray):
            return (owner, "ndarray->%s" % tname(b), "%s: array -> %r" % (path, b))
        if a.shape != b.shape:
            return (owner, "ndarray_shape", "%s: shape %r -> %r" % (path, a.shape, b.shape))
        if a.size and not np.array_equal(a.astype(np.longdouble), b.astype(np.longdouble)):
            return (owner, "ndarray_values_%s" % a.dtype.name, "%s: %r -> %r" % (path, a.ravel()[:6], b.ravel()[:6]))
        return None
    if isinstance(a, (list, tuple)):
        if type(a) is not type(b):
            return (owner, "%s->%s" % (tname(a), tname(b)), "%s: %r -> %r" % (path, a, b))
        if len(a) != len(b):
            return (owner, "list_length", "%s: %r -> %r" % (path, a, b))
        first = None
        for i, (x, y) in enumerate(zip(a, b)):
            d = diff(x, y, "%s[%d]" % (path, i), owner)
            if d is not None:
                first = d
                break
        if first is None:
            return None
        # the same scalars in another order?
        if all(is_num(x) or isinstance(x, (str, bool)) for x in list(a) + list(b)):
            rest = list(b)
            for x in a:
                for k, y in enumerate(rest):
                    if diff(x, y) is None:
                        del rest[k]
                        break
                else:
                    return first
            return (owner, "list_reordered", "%s: %r -> %r" % (path, a, b))
        return first
    if isinstance(a, (set, frozenset)):
        if not isinstance(b, (set, frozenset)):
            return (owner, "set->%s" % tname(b), "%s: %r -> %r" % (path, a, b))
        if len(a) != len(b):
            return (owner, "set_size", "%s: %r -> %r" % (path, a, b))
        rest = list(b)
        for x in a:
            for k, y in enumerate(rest):
                if diff(x, y, path, owner) is None:
                    del rest[k]
                    break
            else:
                return (owner, "set_element", "%s: %r -> %r" % (path, a, b))
        return None
    if isinstance(a, dict):
        if not isinstance(b, dict):
            return (owner, "dict->%s" % tname(b), "%s: %r -> %r" % (path, a, b))
        if set(a) != set(b):
            return (owner, "dict_keys", "%s: %r -> %r" % (path, sorted(map(str, a)), sorted(map(str, b))))
        for k in a:
            d = diff(a[k], b[k], "%s[%r]" % (path, k), owner)
            if d is not None:
                return d
        return None
    if hasattr(a, "__dict__") or any("__slots__" in k.__dict__ for k in type(a).__mro__):
        if type(a) is not type(b):
            return (owner, "%s->%s" % (tname(a), tname(b)), "%s: %r -> %r" % (path, a, b))
        cls = type(a).__name__
        # compared through what the object shows publicly (not through its private layout:
        # a renamed attribute, __slots__ or a lazily filled cache is not a difference)
        va, vb = public_view(a), public_view(b)
        if set(va) != set(vb):
            return (cls, "attributes", "%s: %r -> %r" % (path, sorted(va), sorted(vb)))
        for k in sorted(va):
            d = diff(va[k], vb[k], "%s.%s" % (path, k), "%s.%s" % (cls, k))
            if d is not None:
                return d
        return None
    return None if a == b else (owner, "other", "%s: %r -> %r" % (path, a, b))


MISSING = object()
VERIF_ROOT = os.path.dirname(os.path.dirname(os.path.abspath(__file__)))


def _private(obj, *names, default=MISSING):
    """an attribute the library does not promise (tolerant): first candidate that exists"""
    for n in names:
        try:
            return getattr(obj, n)
        except AttributeError:
            continue
    return default


def parent_of(p):
    """the SimulationParameters an unpacked variation came from: there is no
    public getter; a private attribute under one of the known names, else
    MISSING (the relations that need it are then skipped and counted)"""
    return _private(p, "_original_sim_params", "original_sim_params", "_parent", "parent")


def public_view(o):
    """public observations of a library object as a dict name -> value"""
    cls = type(o).__name__
    if cls == "Result":
        v = {"name": o.name, "type_code": o.type_code, "num_updates": o.num_updates,
             "accumulate_values_bool": bool(o.accumulate_values_bool)}
        # (get_result() is DERIVED from value / total: with a float32 value it is a float32 division
        # before and a double division after a text round trip - same stored numbers, so not compared)
        d = o.to_dict()
        for k in sorted(d):
            v["to_dict[%s]" % k] = d[k]
        return v
    if cls == "SimulationParameters":
        v = {"parameters": o.parameters, "unpacked_parameters": list(o.unpacked_parameters),
             "unpack_index": o.unpack_index}
        par = parent_of(o)
        if par is MISSING:
            # only the dictionary representation shows it
            par = o.to_dict().get("original_sim_params")
        v["original_sim_params"] = par
        return v
    if cls == "SimulationResults":
        names = sorted(o.get_result_names())
        return {"params": o.params, "runned_reps": o.runned_reps, "current_rep": o.current_rep,
                "result_names": names, "results": {n: list(o[n]) for n in names}}
        # original_filename: set by save_to_file, compared separately
    return dict(bfs.state_of(o))


def _origin(exc):
    """'library' if the innermost frame that belongs to pyphysim or to /verif is pyphysim's, else 'check'"""
    for fr in reversed(traceback.extract_tb(exc.__traceback__)):
        fn = os.path.abspath(fr.filename)
        if fn.startswith(VERIF_ROOT + os.sep):
            return "check"
        if "/pyphysim/" in fn:
            return "library"
    return "check"


@contextlib.contextmanager
def guard(c, sig_prefix, case):
    """c.guard for VALID calls: an exception raised inside pyphysim is a
    violation; an exception whose innermost own frame is this check's code
    means the CHECK is broken (exit 2) - never a verdict about the property."""
    with c.guard(sig_prefix, case):
        try:
            yield
        except (KeyboardInterrupt, SystemExit, Broken):
            raise
        except BaseException as e:  # noqa
            if _origin(e) == "check":
                fr = traceback.extract_tb(e.__traceback__)[-1]
                raise Broken("check code raised %s: %s at %s:%s %s (case %s)" % (
                    type(e).__name__, e, os.path.basename(fr.filename), fr.lineno, fr.name,
                    {k: v for k, v in (case or {}).items() if k in ("part", "labels", "type", "target", "what")}))
            raise


def norm_json(text):
    """parsed JSON text with set encodings order-normalised (a Python set has
    no order, so the order of its JSON list is not information)"""
    def hook(d):
        if d.get("_is_set") is True and isinstance(d.get("data"), list):
            d = dict(d)
            d["data"] = sorted(d["data"], key=repr)
        return d
    d = json.loads(text, object_hook=hook)
    if isinstance(d, dict) and "original_filename" in d:
        d = dict(d)
        del d["original_filename"]   # names the scratch file of this very trip; checked separately
    return d


def has_set_unpacked(p):
    return any(isinstance(p.parameters[n], (set, frozenset)) for n in p.unpacked_parameters)


# ----------------------------------------------------------------------
# one round trip
# ----------------------------------------------------------------------
class Targets:
    """private scratch directory; every file gets its own sub-directory"""

    def __init__(self, c, tmpdir):
        self.c = c
        self.dir = tmpdir
        self.n = 0

    def path(self, stem):
        self.n += 1
        d = os.path.join(self.dir, "f%d" % self.n)
        os.makedirs(d, exist_ok=True)
        return d, os.path.join(d, stem)


def cls_of(obj):
    return type(obj).__name__


class NameFailed(Exception):
    pass


def do_save(c, obj, target, T, template, case):
    """returns a handle for do_load; raises whatever the library raises"""
    if target == "json":
        return {"text": obj.to_json()}
    if target == "pickle":
        return {"bytes": pickle.dumps(obj, protocol=2)}
    if target == "dict":
        # alternative entry point: the dictionary representation itself (deep-copied: to_dict hands out
        # the object's own containers)
        return {"dict": copy.deepcopy(obj.to_dict())}
    if target == "params_pickle_file":
        d, p = T.path("params.pickle")
        try:
            obj.save_to_pickled_file(p)
        except BaseException:
            shutil.rmtree(d, ignore_errors=True)
            raise
        return {"dir": d, "params_file": p}
    ext = {"file_json": ".json", "file_pickle": ".pickle", "file_noext": ""}[target]
    d, p = T.path(template + ext)
    try:
        o2 = copy.deepcopy(obj)      # save_to_file sets original_filename on the object
        full = p if ext else p + ".pickle"
        name1 = None
        with guard(c, ("file_name", "replace_parameters"), case):
            name1 = o2.get_filename_with_replaced_params(full)
        if name1 is None:
            raise NameFailed()
        name = o2.save_to_file(p)
        name2 = o2.get_filename_with_replaced_params(full)
        info = dict(returned=name, predicted=name1, predicted_again=name2, template=p,
                    exists=os.path.isfile(name), original_filename=o2.original_filename,
                    listing=sorted(os.listdir(d)) if os.path.isdir(d) else None)
        text = None
        if ext == ".json" and info["exists"]:
            with open(name) as f:
                text = f.read()
        return {"dir": d, "file": name, "info": info, "text": text}
    except BaseException:
        shutil.rmtree(d, ignore_errors=True)
        raise


def do_load(cls, h):
    try:
        if "bytes" in h:
            return pickle.loads(h["bytes"])
        if "params_file" in h:
            return cls.load_from_pickled_file(h["params_file"])
        if "dict" in h:
            return cls.from_dict(h["dict"])
        if "file" in h:
            out = cls.load_from_file(h["file"])
            stem = h["file"][:-len(".pickle")] if h["file"].endswith(".pickle") else None
            if stem is not None:
                # alternative entry point: load_from_file appends '.pickle' to an extension-less name
                if "." in os.path.basename(stem):
                    h["alt"] = "excluded"      # 'res_2.5' HAS an extension ('.5') for splitext
                else:
                    h["alt"] = cls.load_from_file(stem)
            return out
        return cls.from_json(h["text"])
    finally:
        if "dir" in h:
            shutil.rmtree(h["dir"], ignore_errors=True)


def save_then_load(c, obj, target, T, template, case, tg, stage_prefix=()):
    """(loaded, handle) or None if a stage raised (already reported through guard)"""
    for attempt in range(5):
        h = None
        out = []
        vanished = False
        with guard(c, stage_prefix + (tg, "save"), case):
            try:
                h = do_save(c, obj, target, T, template, case)
            except NameFailed:
                c.count("excluded_file_target_name_could_not_be_built")
                return None
            except OSError:
                if os.path.isdir(T.dir):
                    raise
                vanished = True
        if h is not None and not vanished:
            with guard(c, stage_prefix + (tg, "load"), case):
                try:
                    out.append(do_load(type(obj), h))
                except OSError:
                    if os.path.isdir(T.dir):
                        raise
                    vanished = True
        if vanished:
            # not the library's doing: other jobs on this box wipe /dev/shm
            c.count("retries_scratch_dir_removed_by_someone_else")
            os.makedirs(T.dir, exist_ok=True)
            continue
        if h is None or not out:
            return None
        return out[0], h
    raise RuntimeError("scratch directory keeps disappearing: %s" % T.dir)


def roundtrip(c, obj, target, case, T, template=None):
    """the whole oracle for one (object, target)"""
    kind = cls_of(obj)
    c.count("eval_roundtrips")
    tg = "json" if target in ("json", "file_json") else ("dict" if target == "dict" else "pickle")
    orig_snapshot = copy.deepcopy(obj)
    r = save_then_load(c, obj, target, T, template, case, tg)
    if r is None:
        c.outcome("roundtrip_outcomes", (tg, kind, "raised"))
        return
    l1, h1 = r
    t1, info = h1.get("text"), h1.get("info")
    with guard(c, (tg, "oracle"), case):
        # saving must not change the object that was saved
        d0 = diff(orig_snapshot, obj)
        if d0 is not None:
            c.fail((tg, "saving_changed_the_object") + sig_of(d0), case, observed=d0[2])
        if info is not None:
            exp_orig = info["template"] if not target.endswith("noext") else info["template"] + ".pickle"
            if not (info["returned"] == info["predicted"] == info["predicted_again"]) or not info["exists"] \
                    or info["listing"] != [os.path.basename(info["returned"])]:
                c.fail(("file_name", "not_deterministic_or_not_where_reported"), case, observed=info)
            if info["original_filename"] != exp_orig or l1.original_filename != exp_orig:
                c.fail(("file_name", "original_filename"), case,
                       observed=(info["original_filename"], l1.original_filename), expected=exp_orig)
            c.outcome("file_names", os.path.basename(info["returned"]))
            alt = h1.get("alt")
            if isinstance(alt, str):
                c.count("excluded_pickleless_name_with_a_dot")
            elif alt is not None:
                c.count("eval_load_by_pickleless_name")
                da = diff(l1, alt)
                if da is not None:
                    c.fail(("load_from_file", "pickleless_name_loads_something_else") + sig_of(da), case,
                           observed=da[2])
        elif kind == "SimulationResults":
            # original_filename is ignored by == and skipped by diff (files set it): compare it here
            a, b = obj.original_filename, l1.original_filename
            if type(a) is not type(b) or a != b:
                c.fail((tg, "changed", "SimulationResults.original_filename", "%s->%s" % (tname(a), tname(b))),
                       case, observed="%r -> %r" % (a, b), expected="identical field")
        # (1) the library's own equality
        eq = None
        with guard(c, (tg, "eq(original,loaded)"), case):
            eq = (l1 == obj)
            ne = (l1 != obj)
            if bool(eq) == bool(ne):
                c.fail((tg, "eq_and_ne_disagree", kind), case, observed=(eq, ne))
        # (2) independent field-by-field comparison
        d1 = diff(obj, l1)
        if d1 is not None:
            c.fail((tg, "changed") + sig_of(d1), case, observed=d1[2], expected="identical field",
                   msg="library == says %r" % (eq,))
        elif eq is False:
            c.fail((tg, "eq_false_but_no_field_differs", kind), case, observed=False, expected=True)
        c.outcome("roundtrip_outcomes", (tg, kind, "same" if d1 is None else d1[1]))
        if d1 is not None:
            return
        # (3) unpack index still denotes the same combination
        P = l1 if kind == "SimulationParameters" else getattr(l1, "params", None)
        par = parent_of(P) if P is not None else None
        if par is MISSING:
            # no attribute of a known name: rebuild the parent from the public dictionary representation
            pd = P.to_dict().get("original_sim_params", MISSING)
            par = MISSING if pd is MISSING else (None if pd is None else type(P).from_dict(copy.deepcopy(pd)))
            c.count("parent_rebuilt_from_to_dict")
        if par is MISSING:
            c.count("oracle_input_unavailable")
            c.outcome("oracle_input_unavailable", "parent_of_unpacked_variation")
        elif par is not None:
            if has_set_unpacked(par):
                c.count("excluded_index_relation_set_valued_unpack")
            else:
                lst = par.get_unpacked_params_list()
                i = P.unpack_index
                ok = 0 <= i < len(lst) and diff(lst[i].parameters, P.parameters) is None
                c.count("eval_child_index_relation")
                if not ok:
                    c.fail((tg, "unpack_index_denotes_other_combination"), case, observed=i)
        # (4) second trip: fixpoint
        r2 = save_then_load(c, l1, target, T, template, case, tg, ("second_trip",))
        if r2 is None:
            return
        l2, h2 = r2
        c.count("eval_second_trips")
        d2 = diff(l1, l2)
        if d2 is not None:
            c.fail((tg, "second_trip_changed") + sig_of(d2), case, observed=d2[2])
        if not (l2 == l1):
            c.fail((tg, "second_trip_eq_false", kind), case, observed=False, expected=True)
        if tg == "json":
            # third save (no load needed): the text must have reached its fixed point
            h3 = None
            with guard(c, ("third_trip", tg, "save"), case):
                try:
                    h3 = do_save(c, l2, target, T, template, case)
                except OSError:
                    if os.path.isdir(T.dir):
                        raise
                    c.count("retries_scratch_dir_removed_by_someone_else")
                    os.makedirs(T.dir, exist_ok=True)
                    return
                if "dir" in h3:
                    shutil.rmtree(h3["dir"], ignore_errors=True)
            if h3 is None:
                return
            t2, t3 = h2["text"], h3["text"]
            dj = diff(norm_json(t2), norm_json(t3))
            if dj is not None:
                c.fail((tg, "text_not_stable_on_second_trip", kind), case, observed=dj[2])
            if t1 is not None and diff(norm_json(t1), norm_json(t2)) is not None:
                # the text may legitimately change representation once (dtype
                # widening of arrays); recorded as an outcome, not a violation
                c.outcome("json_text_changes_on_first_reload", kind)


def num_class(x):
    if isinstance(x, (bool, np.bool_)):
        return "bool"
    if isinstance(x, np.integer):
        return "numpy_int"
    if isinstance(x, np.floating) and not isinstance(x, float):
        return "numpy_float"
    if isinstance(x, int):
        return "int"
    if isinstance(x, float):
        return "float"
    return tname(x)


def sig_of(d):
    """signature tail of a difference: a change of number class names the
    classes only (one encoder defect -> one signature wherever the number
    sits); anything else names the owning field as well"""
    owner, kind, _ = d
    if kind.startswith("num:"):
        a, b = kind[4:].split("->")
        if a != b:
            return ("%s->%s" % (a, b),)
        return (owner, "value_changed")
    return (owner, kind)


# ----------------------------------------------------------------------
# part P
# ----------------------------------------------------------------------
def build_params(entries, subset):
    from pyphysim.simulations.parameters import SimulationParameters
    d = {NAMES[i]: copy.deepcopy(v) for i, (_, v) in enumerate(entries)}
    p = SimulationParameters.create(d)
    for i, (_, v) in enumerate(entries):
        if isinstance(v, np.ndarray) and (not v.flags.c_contiguous or not v.flags.writeable):
            # create() deep-copies (which normalises strides / the read-only flag): hand the
            # freshly built view over as it is, the way SimulationParameters.add does
            p.add(NAMES[i], v)
    for n in subset:
        p.set_unpack_parameter(n)
    return p


def wrap_results(p, nres):
    """SimulationResults around the parameters `p` with a small fixed payload"""
    from pyphysim.simulations.results import Result, SimulationResults
    s = SimulationResults()
    s.set_parameters(p)
    for k in range(max(1, nres)):
        r = Result("ber", Result.RATIOTYPE)
        r.update(k + 1, 8)
        r.update(1, 4)
        s.append_result(r)
        m = Result("note", Result.MISCTYPE)
        m.update("v%d" % k)
        s.append_result(m)
    s.runned_reps = [2] * max(1, nres)
    return s


def template_for(n):
    return "res_" + "_".join("{%s}" % NAMES[i] for i in range(n))


def run_params_case(c, case, T):
    A = dict(full_alphabet())
    labels = case["labels"]
    entries = [(lab, A[lab]) for lab in labels]
    subset = case["unpacked"]
    which = case["object"]          # -1 = the object itself, k = k-th unpacked child
    with guard(c, ("build", "SimulationParameters"), case):
        p = build_params(entries, subset)
        if which >= 0:
            p = p.get_unpacked_params_list()[which]
        nres = 1 if which >= 0 else min(p.get_num_unpacked_variations(), 4)
    key = ("P", tuple(labels), tuple(subset), which)
    if subset or which >= 0 or not all(is_native(v) for _, v in entries):
        c.nontriv(key)
    for lab in labels:
        c.outcome("value_classes", lab)
    targets = case.get("targets") or params_targets(len(labels), which, len(subset))
    for tg in targets:
        cs = dict(case, target=tg)
        if tg in ("json", "pickle", "dict", "params_pickle_file"):
            roundtrip(c, p, tg, cs, T)
        else:
            inner = tg[3:]
            s = None
            with guard(c, ("build", "SimulationResults"), cs):
                s = wrap_results(p, nres)
            if s is not None:
                roundtrip(c, s, inner, cs, T, template_for(len(labels)))


def params_targets(n, which, nsub):
    """1-2 entries: the object itself through all 8 targets, a child through
    both strings and one file kind (alternating); 3 entries (thorough): the
    object itself through both strings and one file kind, a child through JSON"""
    alt = "SR:file_json" if (which if which >= 0 else nsub) % 2 == 0 else "SR:file_pickle"
    if n <= 2:
        if which < 0:
            # (the JSON / pickle STRING of the wrapping SimulationResults is what SR:file_json /
            # SR:file_pickle write, so it is not taken separately; part R / B do take it)
            return ["json", "pickle", "dict", "SR:dict", "params_pickle_file", "SR:file_json",
                    "SR:file_pickle" if nsub % 2 else "SR:file_noext"]
        return ["json", "pickle", alt]
    if which < 0:
        return ["json", "pickle", alt]
    return ["json"]


def params_cases(tier):
    """deterministic generator of (labels, unpack subset) work items"""
    A = [lab for lab, _ in value_alphabet()]
    B = [lab for lab, _ in array_presentations()]
    F = [lab for lab, _ in falsy_values()]
    for lab in A + B + F:
        yield ("P", [lab])
    if tier == "thorough":
        for a in A + B + F:
            for b in A + B + F:
                yield ("P", [a, b])
        for labs in itertools.product(A, repeat=3):
            yield ("P", list(labs))
    else:
        for a in A:
            for b in A:
                yield ("P", [a, b])
        # array presentations: with each other and, in both positions, with a representative of every value kind
        for a in B:
            for b in B + list(REPRESENTATIVES):
                yield ("P", [a, b])
        for a in REPRESENTATIVES:
            for b in B:
                yield ("P", [a, b])
        # falsy values / one-element containers likewise
        for a in F:
            for b in F + list(REPRESENTATIVES):
                yield ("P", [a, b])
        for a in REPRESENTATIVES:
            for b in F:
                yield ("P", [a, b])


def expand_params_item(c, item, tier, T):
    A = dict(full_alphabet())
    labels = item[1]
    n = len(labels)
    iterable = [NAMES[i] for i, lab in enumerate(labels) if unpackable(A[lab])]
    for r in range(len(iterable) + 1):
        for subset in itertools.combinations(iterable, r):
            case = {"part": "P", "labels": labels, "unpacked": list(subset), "object": -1}
            run_params_case(c, case, T)
            if subset:
                nchild = 1
                for nm in subset:
                    nchild *= len(A[labels[NAMES.index(nm)]])
                c.outcome("children_counts", nchild)
                for k in range(nchild):
                    cs = {"part": "P", "labels": labels, "unpacked": list(subset), "object": k}
                    run_params_case(c, cs, T)


# ----------------------------------------------------------------------
# part R
# ----------------------------------------------------------------------
def type_code(t):
    from pyphysim.simulations.results import Result as R
    return {"SUM": R.SUMTYPE, "RATIO": R.RATIOTYPE, "CHOICE": R.CHOICETYPE, "MISC": R.MISCTYPE}[t]


def build_result(t, acc, obs, name="r"):
    from pyphysim.simulations.results import Result as R
    if t == "CHOICE":
        r = R(name, R.CHOICETYPE, accumulate_values=acc, choice_num=CHOICE_NUM)
    else:
        r = R(name, type_code(t), accumulate_values=acc)
    for o in obs:
        r.update(*copy.deepcopy(o))
    return r


def obs_from_idx(t, idx):
    al = result_alphabets_with_arrays()[t]
    return [al[i] for i in idx]


def run_result_case(c, case, T):
    t, acc, idx = case["type"], case["acc"], case["history"]
    obs = obs_from_idx(t, idx)
    r = None
    with guard(c, ("build", "Result", t), case):
        r = build_result(t, acc, obs)
    if r is None:
        return
    if idx:
        c.nontriv(("R", t, acc, tuple(idx)))
    c.outcome("result_histories", (t, len(idx)))
    sub = case.get("sub")
    if sub is None or sub == "result":
        for tg in ("json", "pickle", "dict"):
            roundtrip(c, r, tg, dict(case, target=tg), T)
    if sub is None or sub == "set":
        from pyphysim.simulations.parameters import SimulationParameters
        from pyphysim.simulations.results import SimulationResults
        for variant in range(3):
            for tg in ("json", "pickle", "file_json", "file_pickle", "file_noext"):
                cs = dict(case, target=tg, variant=variant, sub="set")
                if case.get("only") and case["only"] != [variant, tg]:
                    continue
                s = None
                with guard(c, ("build", "SimulationResults"), cs):
                    s = SimulationResults()
                    if variant == 0:
                        p = SimulationParameters.create({"a": 3})
                        s.set_parameters(p)
                        s.add_result(build_result(t, acc, obs))
                        s.runned_reps = 7
                    elif variant == 1:
                        p = SimulationParameters.create({"a": [1, 2], "b": 2.5})
                        p.set_unpack_parameter("a")
                        s.set_parameters(p)
                        s.append_result(build_result(t, acc, obs))
                        s.append_result(build_result(t, acc, obs[::-1]))
                        s.runned_reps = [len(obs), 5]
                    else:
                        # partial results of one unpacked variation, as the runner saves them
                        p = SimulationParameters.create({"a": [1, 2], "b": "xy"})
                        p.set_unpack_parameter("a")
                        p.set_unpack_parameter("b")
                        s.set_parameters(p.get_unpacked_params_list()[2])
                        s.add_result(build_result(t, acc, obs))
                        s.current_rep = 4
                if s is not None:
                    roundtrip(c, s, tg, cs, T, "res_{a}_{b}" if variant else "res_{a}")


def result_cases(tier, types_ok):
    L = 3 if tier == "thorough" else 2
    al = result_alphabets_with_arrays()
    for t in ("SUM", "RATIO", "CHOICE", "MISC"):
        for acc in (False, True):
            # a CHOICE result that cannot be updated can still be built and saved: empty history only
            for n in range(0, (L if t in types_ok else 0) + 1):
                for idx in itertools.product(range(len(al[t])), repeat=n):
                    yield ("R", {"part": "R", "type": t, "acc": acc, "history": list(idx)})


# ----------------------------------------------------------------------
# part B: bookkeeping fields with every falsy-but-valid value
# ----------------------------------------------------------------------
def bk_runned_reps():
    return [None, 0, [], [0], [0, 0], np.int64(0), 7, [2, 5]]


BK_CURRENT_REP = (-1, 0, 4)
BK_ORIGINAL_FILENAME = (None, "", "res_{a}.json")
BK_RESULTS = ("no_results", "zero_updates", "one_update", "zero_valued")
BK_PARAMS = ("no_params", "one_param", "child_index_0", "unpacked_len1", "unpacked_len0")


def build_bookkeeping(case):
    from pyphysim.simulations.parameters import SimulationParameters
    from pyphysim.simulations.results import Result, SimulationResults
    s = SimulationResults()
    pk = case["params"]
    if pk == "one_param":
        s.set_parameters(SimulationParameters.create({"a": 0}))
    elif pk == "child_index_0":
        p = SimulationParameters.create({"a": [0, 1]})
        p.set_unpack_parameter("a")
        s.set_parameters(p.get_unpacked_params_list()[0])        # unpack_index 0 (not -1)
    elif pk == "unpacked_len1":
        p = SimulationParameters.create({"a": [0]})
        p.set_unpack_parameter("a")
        s.set_parameters(p)
    elif pk == "unpacked_len0":
        p = SimulationParameters.create({"a": []})
        p.set_unpack_parameter("a")
        s.set_parameters(p)
    rk = case["results"]
    if rk == "zero_updates":
        s.add_result(Result("r", Result.SUMTYPE))
        s.add_result(Result("q", Result.RATIOTYPE, accumulate_values=True))
    elif rk == "one_update":
        r = Result("r", Result.SUMTYPE)
        r.update(3)
        s.add_result(r)
    elif rk == "zero_valued":
        # updated results whose every stored number is 0 / whose value is falsy
        r = Result("r", Result.SUMTYPE, accumulate_values=True)
        r.update(0)
        s.add_result(r)
        q = Result("q", Result.RATIOTYPE)
        q.update(0, 5)
        s.add_result(q)
        m = Result("m", Result.MISCTYPE)
        m.update("")
        s.add_result(m)
    s.runned_reps = copy.deepcopy(bk_runned_reps()[case["runned_reps"]])
    s.current_rep = BK_CURRENT_REP[case["current_rep"]]
    s.original_filename = BK_ORIGINAL_FILENAME[case["original_filename"]]
    return s


def bookkeeping_cases():
    for pk in BK_PARAMS:
        for rk in BK_RESULTS:
            for rr in range(len(bk_runned_reps())):
                for cr in range(len(BK_CURRENT_REP)):
                    for of in range(len(BK_ORIGINAL_FILENAME)):
                        if pk not in ("one_param", "no_params") and (cr, of) != (0, 0) and rr > 3:
                            continue      # the parameter shapes are crossed with the first runned_reps values only
                        yield ("B", {"part": "B", "params": pk, "results": rk, "runned_reps": rr,
                                     "current_rep": cr, "original_filename": of})


def run_bookkeeping_case(c, case, T):
    has_a = case["params"] != "no_params"
    targets = [case["target"]] if "target" in case else ["json", "pickle", "dict", "file_json", "file_pickle",
                                                          "file_noext"]
    c.nontriv(("B",) + tuple(case[k] for k in ("params", "results", "runned_reps", "current_rep",
                                                 "original_filename")))
    c.outcome("bookkeeping_shapes", (case["params"], case["results"]))
    for tg in targets:
        cs = dict(case, target=tg)
        s = None
        with guard(c, ("build", "SimulationResults"), cs):
            s = build_bookkeeping(case)
        if s is not None:
            roundtrip(c, s, tg, cs, T, "res_{a}" if has_a else "res")
    if "target" not in case:
        # the parameters object and every result on their own
        s = None
        with guard(c, ("build", "SimulationResults"), case):
            s = build_bookkeeping(case)
        if s is not None and case["runned_reps"] == 0 and case["current_rep"] == 0 and case["original_filename"] == 0:
            for tg in ("json", "pickle", "dict", "params_pickle_file"):
                roundtrip(c, s.params, tg, dict(case, target="params:" + tg), T)
            for rname in s.get_result_names():
                for r in s[rname]:
                    for tg in ("json", "pickle", "dict"):
                        roundtrip(c, r, tg, dict(case, target="result:" + tg), T)


# ----------------------------------------------------------------------
# part H: objects reached through an EDIT HISTORY (public writers interleaved with public readers)
# ----------------------------------------------------------------------
H_INITIAL = {"a": [1, 2, 3], "b": [10, 20], "c": 5}
H_VALUES = {"list": [7, 8], "scalar": 4}
H_TEMPLATE = "res_{a}_{c}"


def h_ops():
    """writer alphabet over the names a, b (c stays a fixed scalar)"""
    ops = []
    for n in ("a", "b"):
        ops += [["unpack", n, True], ["unpack", n, False], ["remove", n]]
        for how in ("add", "setitem"):
            for v in ("list", "scalar"):
                ops.append([how, n, v])
    return ops


def h_enabled(model, marks, op):
    """VALID calls only (documented preconditions)"""
    kind, n = op[0], op[1]
    if kind == "unpack":
        if op[2]:
            return n in model and isinstance(model[n], list) and n not in marks
        return n in marks
    if kind == "remove":
        return n in model
    # add / setitem: a scalar must not be put under a name that is marked to be unpacked
    return not (op[2] == "scalar" and n in marks)


def h_apply_model(model, marks, op):
    kind, n = op[0], op[1]
    if kind == "unpack":
        (marks.add if op[2] else marks.discard)(n)
    elif kind == "remove":
        del model[n]
        marks.discard(n)
    else:
        model[n] = copy.deepcopy(H_VALUES[op[2]])


def h_apply(p, op):
    kind, n = op[0], op[1]
    if kind == "unpack":
        p.set_unpack_parameter(n, op[2])
    elif kind == "remove":
        p.remove(n)
    elif kind == "add":
        p.add(n, copy.deepcopy(H_VALUES[op[2]]))
    else:
        p[n] = copy.deepcopy(H_VALUES[op[2]])


def h_read(p, s=None):
    """every public reader once (whatever they remember must not outlive the next write)"""
    _ = (p.unpacked_parameters, p.fixed_parameters, len(p), p.get_num_unpacked_variations(),
         p.get_unpacked_params_list(), p.to_dict(), p.to_json())
    if s is not None:
        _ = (s.get_filename_with_replaced_params(H_TEMPLATE + ".json"), s.to_json())


def h_fresh(model, marks, with_results):
    from pyphysim.simulations.parameters import SimulationParameters
    p = SimulationParameters.create(copy.deepcopy(model))
    for n in sorted(marks):
        p.set_unpack_parameter(n)
    if not with_results:
        return p
    return h_wrap(p)


def h_wrap(p):
    from pyphysim.simulations.results import Result, SimulationResults
    s = SimulationResults()
    s.set_parameters(p)
    r = Result("r", Result.SUMTYPE)
    r.update(3)
    s.add_result(r)
    s.runned_reps = [1]
    return s


def history_cases(tier):
    ops = h_ops()
    L = 3 if tier == "thorough" else 2
    for initial_marks in ([], ["a"], ["a", "b"]):
        for n in range(1, L + 1):
            for seq in itertools.product(range(len(ops)), repeat=n):
                model, marks, ok = copy.deepcopy(H_INITIAL), set(initial_marks), True
                for i in seq:
                    if not h_enabled(model, marks, ops[i]):
                        ok = False
                        break
                    h_apply_model(model, marks, ops[i])
                if ok:
                    for reads in (False, True):
                        yield ("H", {"part": "H", "initial_marks": initial_marks, "ops": [ops[i] for i in seq],
                                     "reads": reads})


def run_history_case(c, case, T):
    from pyphysim.simulations.parameters import SimulationParameters
    ops, reads = case["ops"], case["reads"]
    with guard(c, ("history",), case):
        for level in ("params", "results"):
            model, marks = copy.deepcopy(H_INITIAL), set(case["initial_marks"])
            p = SimulationParameters.create(copy.deepcopy(model))
            for n in sorted(marks):
                p.set_unpack_parameter(n)
            s = h_wrap(p) if level == "results" else None
            if reads:
                h_read(p, s)
            for op in ops:
                h_apply(p, op)              # on the results level: in place, through s.params
                h_apply_model(model, marks, op)
                if reads:
                    h_read(p, s)
            c.count("eval_histories")
            c.nontriv(("H", level, repr(case["initial_marks"]), repr(ops), reads))
            c.outcome("history_final_states", (repr(sorted(model.items())), tuple(sorted(marks))))
            obj = s if s is not None else p
            cs = dict(case, level=level)
            # (i) the reported state is what the edit history says
            nvar = 1
            for n in marks:
                nvar *= len(model[n])
            observed = (diff(model, p.parameters), list(p.unpacked_parameters), p.get_num_unpacked_variations(),
                        len(p.get_unpacked_params_list()) if marks else 1)
            expected = (None, sorted(marks), nvar, nvar if marks else 1)
            if observed != expected:
                c.fail(("history", "reported_state_differs_from_edit_history",
                        "after_reads" if reads else "no_reads"), cs, observed=observed, expected=expected)
                continue
            # (ii) it is indistinguishable from an object CREATED in that state: ==, public view, file name
            fresh = h_fresh(model, marks, level == "results")
            d = diff(fresh, obj)
            if d is not None or not (obj == fresh) or (obj != fresh):
                c.fail(("history", "differs_from_fresh_object_in_same_state", level), cs,
                       observed=d[2] if d else "== False")
            if s is not None:
                for ext in (".json", ".pickle"):
                    a, b = s.get_filename_with_replaced_params(H_TEMPLATE + ext), \
                        fresh.get_filename_with_replaced_params(H_TEMPLATE + ext)
                    if a != b:
                        c.fail(("history", "file_name_differs_from_fresh_object", "after_reads" if reads else "no_reads"),
                               cs, observed=a, expected=b)
            # (iii) it round-trips like any other object
            for tg in (("json", "pickle", "dict") if s is None else ("json", "file_json", "file_pickle")):
                roundtrip(c, obj, tg, dict(cs, target=tg), T, H_TEMPLATE)
            # (iv) a LOADED object edited afterwards still derives the name of its new parameter values
            if s is not None:
                for how in ("pickle", "json"):
                    l = pickle.loads(pickle.dumps(s, protocol=2)) if how == "pickle" else type(s).from_json(s.to_json())
                    l.get_filename_with_replaced_params(H_TEMPLATE + ".json")
                    l.params["c"] = 6
                    m2 = dict(copy.deepcopy(model), c=6)
                    want = h_fresh(m2, marks, True).get_filename_with_replaced_params(H_TEMPLATE + ".json")
                    got = l.get_filename_with_replaced_params(H_TEMPLATE + ".json")
                    if got != want:
                        c.fail(("history", "file_name_of_loaded_then_edited_object", how), cs, observed=got,
                               expected=want)


# ----------------------------------------------------------------------
# part E: error paths
# ----------------------------------------------------------------------
def listing(d):
    out = {}
    for root, _, files in os.walk(d):
        for f in files:
            fp = os.path.join(root, f)
            with open(fp, "rb") as fh:
                out[os.path.relpath(fp, d)] = fh.read()
    return out


def good_results(extra=None):
    from pyphysim.simulations.parameters import SimulationParameters
    from pyphysim.simulations.results import Result, SimulationResults
    s = SimulationResults()
    d = {"a": 3, "b": [1, 2]}
    if extra is not None:
        d["bad"] = extra
    s.set_parameters(SimulationParameters.create(d))
    r = Result("r", Result.RATIOTYPE)
    r.update(1, 4)
    s.add_result(r)
    s.runned_reps = 0
    return s


def invalid_call(c, what, fn, obj=None):
    """INVALID_CALL_POLICY: an invalid call is free (may raise anything or be
    accepted); what happened is an outcome, never a failure."""
    snap = copy.deepcopy(obj) if obj is not None else None
    try:
        fn()
        how = "accepted"
    except Exception as e:  # noqa
        how = "raised:" + type(e).__name__
    changed = "object_unchanged"
    if obj is not None and (diff(snap, obj) is not None or snap.original_filename != obj.original_filename):
        changed = "object_changed"
    c.count("eval_invalid_calls")
    c.outcome("invalid_call", (what, how, changed))
    return how


def after_invalid_call(c, what, case, T, obj, earlier):
    """the one thing property C17 does require after an invalid call: a VALID
    save + load of the same object still round-trips exactly, and an earlier
    VALID file of another name still loads equal (neither the object nor
    unrelated files were corrupted)."""
    from pyphysim.simulations.results import SimulationResults
    with guard(c, ("after_invalid_call", what), case):
        if earlier is not None:
            path, original = earlier
            back = SimulationResults.load_from_file(path)
            d = diff(original, back)
            if d is not None or not (back == original):
                c.fail(("after_invalid_call", what, "earlier_valid_file_loads_equal"), case,
                       observed=d[2] if d else "== False")
        if obj is not None:
            for ext in (".json", ".pickle"):
                d, p = T.path("valid_after" + ext)
                try:
                    o2 = copy.deepcopy(obj)
                    name = o2.save_to_file(p)
                    back = SimulationResults.load_from_file(name)
                    dd = diff(obj, back)
                    if dd is not None or not (back == obj):
                        c.fail(("after_invalid_call", what, "valid_save_load_roundtrip"), dict(case, ext=ext),
                               observed=dd[2] if dd else "== False")
                finally:
                    shutil.rmtree(d, ignore_errors=True)
        c.count("eval_after_invalid_call")


def part_errors(c, T):
    """Invalid calls around save/load.  Property C17 speaks about objects built
    from supported values; what a malformed file, an unknown extension or a
    failing save does is NOT part of it (tools/INVALID_CALL_POLICY.md): recorded
    as outcomes.  Required is only what `after_invalid_call` checks.  (Crash
    safety of the results file is property C07's subject.)"""
    from pyphysim.simulations.parameters import SimulationParameters
    from pyphysim.simulations.results import Result, SimulationResults
    good = good_results()
    text = good.to_json()
    pk = pickle.dumps(good, protocol=2)

    def with_earlier(fn_body, what, case, obj_after=None, make_obj=None):
        """runs `fn_body(d)` (the invalid calls) in a directory that already holds a valid file"""
        d, keep = T.path("earlier_valid.json")
        try:
            original = good_results()
            copy.deepcopy(original).save_to_file(keep)
            before = listing(d)
            obj = fn_body(d)
            after = listing(d)
            c.outcome("invalid_call_directory", (what, "unchanged" if after == before else
                                                 "new:" + ",".join(sorted(os.path.splitext(f)[1] for f in
                                                                          set(after) - set(before)))))
            after_invalid_call(c, what, case, T, obj, (keep, original))
        finally:
            shutil.rmtree(d, ignore_errors=True)

    # (a) malformed JSON / truncated pickle handed to the loaders
    bad_texts = [("empty", ""), ("open_brace", "{"), ("half", text[:len(text) // 2]), ("not_json", "not json"),
                 ("list", "[]"), ("empty_object", "{}"), ("null", "null"), ("trailing_garbage", text + "}"),
                 ("missing_results", json.dumps({k: v for k, v in json.loads(text).items() if k != "results"}))]
    for label, bad in bad_texts:
        case = {"part": "E", "what": "load_malformed_json", "which": label}

        def body(d, bad=bad, label=label):
            p = os.path.join(d, "bad.json")
            with open(p, "w") as f:
                f.write(bad)
            what = "load_malformed_json:" + label
            invalid_call(c, what + ":load_from_file", lambda: SimulationResults.load_from_file(p))
            invalid_call(c, what + ":SimulationResults.from_json", lambda: SimulationResults.from_json(bad))
            invalid_call(c, what + ":SimulationParameters.from_json", lambda: SimulationParameters.from_json(bad))
            invalid_call(c, what + ":Result.from_json", lambda: Result.from_json(bad))
            os.remove(p)
            return good_results()
        with guard(c, ("after_invalid_call", "load_malformed_json"), case):
            with_earlier(body, "load_malformed_json", case)
    for label, bad in (("empty", b""), ("half", pk[:len(pk) // 2]), ("all_but_one", pk[:-1]), ("text", b"hello")):
        case = {"part": "E", "what": "load_malformed_pickle", "which": label}

        def body(d, bad=bad, label=label):
            p = os.path.join(d, "bad.pickle")
            with open(p, "wb") as f:
                f.write(bad)
            what = "load_malformed_pickle:" + label
            invalid_call(c, what + ":load_from_file", lambda: SimulationResults.load_from_file(p))
            invalid_call(c, what + ":load_from_file_pickleless", lambda: SimulationResults.load_from_file(p[:-7]))
            invalid_call(c, what + ":load_from_pickled_file", lambda: SimulationParameters.load_from_pickled_file(p))
            os.remove(p)
            return good_results()
        with guard(c, ("after_invalid_call", "load_malformed_pickle"), case):
            with_earlier(body, "load_malformed_pickle", case)
    # (b) unknown extension
    case = {"part": "E", "what": "unknown_extension"}

    def body(d):
        s = good_results()
        invalid_call(c, "save_unknown_extension", lambda: s.save_to_file(os.path.join(d, "res_{a}.txt")), s)
        with open(os.path.join(d, "x.txt"), "w") as f:
            f.write(text)
        invalid_call(c, "load_unknown_extension", lambda: SimulationResults.load_from_file(os.path.join(d, "x.txt")))
        os.remove(os.path.join(d, "x.txt"))
        s.original_filename = None      # reported state re-synchronised: the field is set by a (valid) save
        return s
    with guard(c, ("after_invalid_call", "unknown_extension"), case):
        with_earlier(body, "unknown_extension", case)
    # (c) a save that fails on an unsupported parameter value; afterwards the value is removed (valid call)
    for ext, poison in ((".json", complex(1, 2)), (".pickle", lambda x: x)):
        case = {"part": "E", "what": "failing_save", "ext": ext}

        def body(d, ext=ext, poison=poison):
            s = good_results(extra=poison)
            invalid_call(c, "save_unsupported_value" + ext, lambda: s.save_to_file(os.path.join(d, "other" + ext)), s)
            s.params.remove("bad")
            s.original_filename = None
            return s
        with guard(c, ("after_invalid_call", "failing_save"), case):
            with_earlier(body, "failing_save" + ext, case)
    # (d) unwritable destinations
    for label in ("missing_directory", "final_name_is_a_directory"):
        for ext in (".json", ".pickle"):
            case = {"part": "E", "what": "unwritable", "which": label, "ext": ext}

            def body(d, label=label, ext=ext):
                s = good_results()
                if label == "missing_directory":
                    p = os.path.join(d, "nowhere", "out" + ext)
                else:
                    p = os.path.join(d, "out" + ext)
                    os.mkdir(p)
                invalid_call(c, "save_to_" + label + ext, lambda: s.save_to_file(p), s)
                invalid_call(c, "params_save_to_" + label, lambda: s.params.save_to_pickled_file(p))
                s.original_filename = None
                return s
            with guard(c, ("after_invalid_call", "unwritable_destination"), case):
                with_earlier(body, "unwritable_" + label, case)


# ----------------------------------------------------------------------
# part N
# ----------------------------------------------------------------------
def file_name(vals):
    from pyphysim.simulations.parameters import SimulationParameters
    from pyphysim.simulations.results import SimulationResults
    s = SimulationResults()
    s.set_parameters(SimulationParameters.create({NAMES[i]: v for i, v in enumerate(vals)}))
    tpl = template_for(len(vals)) + ".json"
    a = s.get_filename_with_replaced_params(tpl)
    b = s.get_filename_with_replaced_params(tpl)
    return a, b


def distinct_scalars(v, w):
    if isinstance(v, str) or isinstance(w, str):
        return isinstance(v, str) and isinstance(w, str) and v != w
    return not num_equal(v, w)


def confusable_float_groups():
    """groups of DISTINCT doubles that a rounding / tolerance / narrowing step would merge"""
    up, dn = float(np.nextafter(0.5, 1.0)), float(np.nextafter(0.5, 0.0))
    return {
        "tiny": [1e-13, 2e-13, 4e-13, 1e-300, 2e-300],
        "near_half": [dn, 0.5 - 1e-14, 0.5, 0.5 + 1e-14, up],
        "sum_noise": [0.3, 0.1 + 0.2, 0.7, 0.1 * 7],
        "large_close": [2.4e9, 2.4e9 + 5e3, 1e15, 1e15 + 1.0, 1e22, float(np.nextafter(1e22, 2e22))],
        "ordinary": [0.0, 0.25, 1e-3, 12.5, 1e6],
    }


def typed_presentations(v):
    """the same number as Python float, numpy float64 and - where it is exactly
    representable - float32 / float16 (label, scalar)"""
    out = [("float", v), ("np.float64", np.float64(v))]
    with np.errstate(all="ignore"):
        for name, tp in (("np.float32", np.float32), ("np.float16", np.float16)):
            w = tp(v)
            if np.isfinite(w) and float(w) == v:
                out.append((name, w))
    return out


def part_names_types(c, T):
    """file-name injectivity along the TYPE axis: every pair of distinct values
    of a confusable group, each presented as Python float / np.float64 /
    np.float32 / np.float16 (where exact), as Python int / numpy ints, and as
    the np.float64 children obtained by unpacking a float ARRAY parameter;
    distinct values -> distinct names, and the files of the children of one
    array must not overwrite each other."""
    from pyphysim.simulations.parameters import SimulationParameters
    groups = confusable_float_groups()
    for gname, vals in groups.items():
        items = [(lab, x, v) for v in vals for lab, x in typed_presentations(v)]
        names = []
        for lab, x, v in items:
            case = {"part": "N", "group": "typed:" + gname, "values": [x], "as": lab}
            with guard(c, ("file_name", "one_placeholder"), case):
                a, b = file_name([x])
                c.count("eval_file_names")
                if a != b:
                    c.fail(("file_name", "not_deterministic"), case, observed=(a, b))
                names.append(a)
        if len(names) != len(items):
            continue
        for i in range(len(items)):
            for j in range(i + 1, len(items)):
                c.count("eval_file_name_pairs")
                if items[i][2] != items[j][2]:
                    c.nontriv(("N", "typed", gname, i, j))
                    c.outcome("typed_name_pairs", (items[i][0], items[j][0]))
                    if names[i] == names[j]:
                        c.fail(("file_name", "distinct_scalars_same_name", "numbers"),
                               {"part": "N", "group": "typed:" + gname, "values": [items[i][1]],
                                "other": [items[j][1]], "as": [items[i][0], items[j][0]]},
                               observed=names[i], expected="different names")
    # integers: Python int vs numpy ints, incl. beyond double precision
    ints = [0, 1, 2 ** 53, 2 ** 53 + 1, 2 ** 62, 2 ** 62 + 1]
    items = [(lab, tp(v), v) for v in ints for lab, tp in (("int", int), ("np.int64", np.int64), ("np.uint64", np.uint64))]
    names = []
    for lab, x, v in items:
        with guard(c, ("file_name", "one_placeholder"), {"part": "N", "group": "typed:int", "values": [x]}):
            names.append(file_name([x])[0])
            c.count("eval_file_names")
    if len(names) == len(items):
        for i in range(len(items)):
            for j in range(i + 1, len(items)):
                c.count("eval_file_name_pairs")
                if items[i][2] != items[j][2] and names[i] == names[j]:
                    c.fail(("file_name", "distinct_scalars_same_name", "numbers"),
                           {"part": "N", "group": "typed:int", "values": [items[i][1]], "other": [items[j][1]]},
                           observed=names[i], expected="different names")
    # children of an unpacked float ARRAY (np.float64 scalars): names and files
    arrays = dict(groups, arange=[float(v) for v in np.arange(0, 1, 0.1)])
    for gname, vals in arrays.items():
        for container in ("array", "list"):
            case = {"part": "N", "group": "children:" + gname, "container": container, "values": vals}
            with guard(c, ("file_name", "children_of_unpacked_parameter"), case):
                value = np.array(vals) if container == "array" else list(vals)
                p = SimulationParameters.create({"a": value, "b": 4})
                p.set_unpack_parameter("a")
                children = p.get_unpacked_params_list()
                d, _ = T.path("x")
                try:
                    saved = {}
                    for k, child in enumerate(children):
                        s = wrap_results(child, 1)
                        s.runned_reps = [k]
                        name = s.save_to_file(os.path.join(d, "res_{a}_{b}.json"))
                        c.count("eval_file_names")
                        saved.setdefault(name, []).append(k)
                    c.count("eval_children_file_sets")
                    c.nontriv(("N", "children", gname, container))
                    clash = {n: ks for n, ks in saved.items() if len(ks) > 1}
                    if clash:
                        n0 = sorted(clash)[0]
                        c.fail(("file_name", "distinct_scalars_same_name", "children_of_unpacked_parameter"),
                               dict(case, clash=[vals[k] for k in clash[n0]]), observed=os.path.basename(n0),
                               expected="one file per child")
                    files = [f for f in os.listdir(d) if not f.endswith(".tmp")]
                    if len(files) != len(children):
                        c.fail(("file_name", "children_files_overwrite_each_other"), case,
                               observed=sorted(files), expected="%d files" % len(children))
                    for name, ks in saved.items():
                        back = type(s).load_from_file(name)
                        want = wrap_results(children[ks[-1]], 1)
                        want.runned_reps = [ks[-1]]
                        if len(ks) == 1 and (diff(want, back) is not None or not (back == want)):
                            c.fail(("file_name", "child_file_holds_another_object"), dict(case, child=ks[0]),
                                   observed=diff(want, back))
                finally:
                    shutil.rmtree(d, ignore_errors=True)


def confusable_objects():
    """groups of parameter values that are EQUAL BY VALUE but differ in dtype /
    container / scalar type (label -> constructor; built anew wherever used)"""
    rng = lambda: np.arange(60, 85, 5)                       # noqa: E731
    return {
        "range5": [("arr_i64", rng), ("arr_f64", lambda: rng().astype(float)),
                   ("arr_f32", lambda: rng().astype(np.float32)), ("arr_i32", lambda: rng().astype(np.int32)),
                   ("list_int", lambda: rng().tolist()), ("list_float", lambda: rng().astype(float).tolist())],
        "short3": [("arr_i64", lambda: np.array([1, 2, 3])), ("arr_f64", lambda: np.array([1.0, 2.0, 3.0])),
                   ("list_int", lambda: [1, 2, 3])],
        "irregular": [("arr_i64", lambda: np.array([1, 2, 4, 8, 16])),
                      ("arr_f64", lambda: np.array([1.0, 2.0, 4.0, 8.0, 16.0]))],
        "scalar5": [("int", lambda: 5), ("float", lambda: 5.0), ("np.int64", lambda: np.int64(5)),
                    ("np.float64", lambda: np.float64(5.0)), ("np.float32", lambda: np.float32(5.0))],
    }


def in_forked_child(fn):
    """runs fn() in a forked child (its own copy of every process-wide state of
    the library) and returns its picklable result, or ('child_failed', text)"""
    r, w = os.pipe()
    pid = os.fork()
    if pid == 0:
        code = 0
        try:
            os.close(r)
            try:
                out = ("ok", fn())
            except BaseException as e:  # noqa
                out = ("exc", "%s: %s" % (type(e).__name__, e),
                       "library" if _origin(e) == "library" else "check")
            with os.fdopen(w, "wb") as f:
                pickle.dump(out, f)
        except BaseException:  # noqa
            code = 1
        finally:
            os._exit(code)
    os.close(w)
    with os.fdopen(r, "rb") as f:
        data = f.read()
    os.waitpid(pid, 0)
    if not data:
        raise Broken("forked child of part_names_history died without an answer")
    return pickle.loads(data)


def _names_and_files(group, labels, d):
    """in this order: build each object, save it through the SAME template into
    the directory d, then load every distinct file back"""
    objs = dict(confusable_objects()[group])
    out = []
    written = {}
    for k, lab in enumerate(labels):
        from pyphysim.simulations.parameters import SimulationParameters
        s = wrap_results(SimulationParameters.create({"a": objs[lab]()}), 1)
        s.runned_reps = [k + 1]
        first = s.get_filename_with_replaced_params(os.path.join(d, "res_{a}.json"))
        name = s.save_to_file(os.path.join(d, "res_{a}.json"))
        again = s.get_filename_with_replaced_params(os.path.join(d, "res_{a}.json"))
        out.append((lab, os.path.basename(first), os.path.basename(name), os.path.basename(again)))
        written[name] = (k, s)
    loads = {}
    for name, (k, s) in written.items():
        back = type(s).load_from_file(name)
        dd = diff(s, back)
        loads[labels[k]] = None if (dd is None and back == s) else (dd[2] if dd else "== False")
    return out, loads, sorted(f for f in os.listdir(d) if not f.endswith(".tmp"))


def part_names_history(c, T):
    """The file name is a function of the parameter VALUES of the object at
    hand - not of what this process formatted before.  For every pair of
    objects that are confusable by value (int vs float dtype, float32 vs
    float64, list vs array, Python vs numpy scalar): the name of each, computed
    alone in a fresh copy of the process, must be the name it gets after the
    other one in either order; and where the two lone names differ, saving both
    through the same template into one directory leaves two files, each
    loading back equal to what was written."""
    for group, members in confusable_objects().items():
        labels = [lab for lab, _ in members]
        lone = {}
        for lab in labels:
            d, _ = T.path("x")
            try:
                r = in_forked_child(lambda lab=lab, d=d: _names_and_files(group, [lab], d))
            finally:
                shutil.rmtree(d, ignore_errors=True)
            case = {"part": "N", "what": "history", "group": group, "order": [lab]}
            c.count("eval_file_names")
            if r[0] != "ok":
                if r[2] == "check":
                    raise Broken("part_names_history: check code failed in the child: %s" % r[1])
                c.fail(("file_name", "lone_computation", "exception"), case, observed=r[1])
                continue
            (lab_, first, name, again), loads, files = r[1][0][0], r[1][1], r[1][2]
            if not (first == name == again) or loads[lab] is not None or files != [name]:
                c.fail(("file_name", "lone_computation", "not_deterministic_or_not_loadable"), case,
                       observed=(first, name, again, loads[lab], files))
            lone[lab] = name
            c.outcome("lone_names", (group, name))
        for i in range(len(labels)):
            for j in range(len(labels)):
                if i == j or labels[i] not in lone or labels[j] not in lone:
                    continue
                order = [labels[i], labels[j]]
                case = {"part": "N", "what": "history", "group": group, "order": order}
                d, _ = T.path("x")
                try:
                    r = in_forked_child(lambda order=order, d=d: _names_and_files(group, order, d))
                finally:
                    shutil.rmtree(d, ignore_errors=True)
                c.count("eval_file_name_orders")
                c.nontriv(("N", "history", group, tuple(order)))
                if r[0] != "ok":
                    if r[2] == "check":
                        raise Broken("part_names_history: check code failed in the child: %s" % r[1])
                    c.fail(("file_name", "after_another_object", "exception"), case, observed=r[1])
                    continue
                rows, loads, files = r[1]
                for lab, first, name, again in rows:
                    if not (first == name == again == lone[lab]):
                        c.fail(("file_name", "depends_on_what_was_formatted_before"), dict(case, object=lab),
                               observed=(first, name, again), expected=lone[lab],
                               msg="name of %s computed %s %s" % (lab, "after" if lab == order[1] else "before",
                                                                  order[0] if lab == order[1] else order[1]))
                distinct = lone[order[0]] != lone[order[1]]
                c.outcome("confusable_pairs", (group, "distinct_names" if distinct else "same_name"))
                if distinct:
                    if len(files) != 2:
                        c.fail(("file_name", "files_of_confusable_objects_overwrite_each_other"), case,
                               observed=files, expected=sorted(lone[x] for x in order))
                    for lab in order:
                        if loads.get(lab, "not written") is not None:
                            c.fail(("file_name", "file_of_confusable_object_not_what_was_written"),
                                   dict(case, object=lab), observed=loads.get(lab, "not written"))


def part_names(c):
    nums, strs = scalar_names_alphabet()
    for group, vals in (("numbers", nums), ("strings", strs)):
        names = []
        for v in vals:
            case = {"part": "N", "group": group, "values": [v]}
            with guard(c, ("file_name", "one_placeholder"), case):
                a, b = file_name([v])
                c.count("eval_file_names")
                if a != b:
                    c.fail(("file_name", "not_deterministic"), case, observed=(a, b))
                names.append(a)
        if len(names) != len(vals):
            continue
        for i in range(len(vals)):
            for j in range(i + 1, len(vals)):
                c.count("eval_file_name_pairs")
                if distinct_scalars(vals[i], vals[j]):
                    c.nontriv(("N", group, i, j))
                    if names[i] == names[j]:
                        c.fail(("file_name", "distinct_scalars_same_name", group),
                               {"part": "N", "group": group, "values": [vals[i]], "other": [vals[j]]},
                               observed=names[i], expected="different names")
                elif names[i] != names[j]:
                    c.outcome("equal_values_different_names", (tname(vals[i]), tname(vals[j])))
    # two placeholders: all pairs of pairs over a sub-alphabet
    sub = nums[:12] + [1e-9, 2e-9, 2.4e9, 2.4e9 + 5e3, 1.0 + 2.0 ** -52, 0.1 + 0.2, np.float32(0.1), 2 ** 53 + 1] \
        + strs[:3]
    pairs = [(v, w) for v in sub for w in sub if isinstance(v, str) == isinstance(w, str)]
    names = {}
    for v, w in pairs:
        case = {"part": "N", "group": "two", "values": [v, w]}
        with guard(c, ("file_name", "two_placeholders"), case):
            a, b = file_name([v, w])
            c.count("eval_file_names")
            if a != b:
                c.fail(("file_name", "not_deterministic"), case, observed=(a, b))
            names.setdefault(a, []).append((v, w))
    for nm, lst in names.items():
        for (v1, w1), (v2, w2) in itertools.combinations(lst, 2):
            if distinct_scalars(v1, v2) or distinct_scalars(w1, w2):
                if isinstance(v1, str):
                    c.count("excluded_string_concatenation_ambiguity")
                    continue
                c.fail(("file_name", "distinct_scalars_same_name", "two_placeholders"),
                       {"part": "N", "group": "two", "values": [v1, w1], "other": [v2, w2]},
                       observed=nm, expected="different names")
    c.extra["two_placeholder_names_distinct"] = len(names)


# ----------------------------------------------------------------------
def probe_choice(chk):
    from pyphysim.simulations.results import Result as R
    case = {"part": "probe", "what": "Result('c', Result.CHOICETYPE, choice_num=3).update(0)"}
    ok = []
    with guard(chk, ("Result.update", "CHOICETYPE"), case):
        r = R("c", R.CHOICETYPE, choice_num=CHOICE_NUM)
        r.update(0)
        ok.append(1)
    return bool(ok)


def work_items(tier, types_ok):
    for it in bookkeeping_cases():
        yield it
    for it in history_cases(tier):
        yield it
    for it in result_cases(tier, types_ok):
        yield it
    for it in params_cases(tier):
        yield it


def make_tmpdir():
    base = "/dev/shm" if os.path.isdir("/dev/shm") else tempfile.gettempdir()
    return tempfile.mkdtemp(prefix="vmc-c17-", dir=base)


def main(chk: Check):
    chk.assume("supported values = the stated alphabet (Python/numpy real scalars, str, list, set, real ndarray); "
               "NaN/inf, complex, tuples, dicts and None as parameter values are outside the property")
    chk.assume("a numpy scalar / narrow array may come back as the Python number / a wider array of exactly the "
               "same values: compared as numbers, dtype changes are recorded as outcomes only")
    chk.assume("JSON text comparison ignores the order of encoded sets (a set has no order)")
    chk.assume("the relation 'unpack_index still denotes the same combination' is not evaluated when a SET-valued "
               "parameter is unpacked (iteration order of a set is unspecified); counted as excluded")
    chk.assume("file-name injectivity is required between numbers and between strings, not between a number and "
               "the string spelling it; with two placeholders string pairs that concatenate equally are excluded")
    choice_ok = probe_choice(chk)
    types_ok = [t for t in ("SUM", "RATIO", "CHOICE", "MISC") if t != "CHOICE" or choice_ok]
    if not choice_ok:
        chk.cap("CHOICETYPE results not explored: every Result.update of a CHOICETYPE result raises "
                "(reported under its own signature Result.update|CHOICETYPE|exception|...)")
    chk.extra["choice_branch_explored"] = choice_ok
    chk.extra["value_alphabet"] = [lab for lab, _ in full_alphabet()]
    tier = chk.tier
    top = make_tmpdir()
    try:
        with guard(chk, ("file_name",), {"part": "N"}):
            # first of all: every forked child then starts from a process in which no name was formatted yet
            part_names_history(chk, Targets(chk, tempfile.mkdtemp(prefix="nameshist-", dir=top)))
            part_names(chk)
            part_names_types(chk, Targets(chk, tempfile.mkdtemp(prefix="names-", dir=top)))
        with guard(chk, ("error_paths",), {"part": "E"}):
            part_errors(chk, Targets(chk, tempfile.mkdtemp(prefix="errors-", dir=top)))

        def worker(i, n, c):
            d = tempfile.mkdtemp(prefix="shard%d-" % i, dir=top)
            T = Targets(c, d)
            try:
                for item in shard(work_items(tier, types_ok), i, n):
                    if item[0] == "R":
                        run_result_case(c, item[1], T)
                    elif item[0] == "B":
                        run_bookkeeping_case(c, item[1], T)
                    elif item[0] == "H":
                        run_history_case(c, item[1], T)
                    else:
                        expand_params_item(c, item, tier, T)
            finally:
                shutil.rmtree(d, ignore_errors=True)

        run_shards(chk, worker)
    finally:
        shutil.rmtree(top, ignore_errors=True)
    chk.extra["scratch_dir_removed"] = not os.path.exists(top)
    chk.extra["oracle_input_unavailable"] = chk.counters.get("oracle_input_unavailable", 0)
    if chk.counters.get("eval_roundtrips", 0) == 0:
        raise Broken("vacuous: no round trip was evaluated")
    chk.sample({"part": "P", "labels": ["np.float32", "list_int"], "unpacked": ["b"], "object": 1, "target": "SR:file_json"})
    chk.sample({"part": "R", "type": "RATIO", "acc": True, "history": [0, 3], "target": "json"})
    chk.sample({"part": "N", "group": "numbers", "values": [2.5], "other": [2.54]})
    chk.require_outcomes("value_classes", 30)
    chk.require_outcomes("children_counts", 4)
    chk.require_outcomes("file_names", 50)
    chk.require_outcomes("result_histories", 6)
    chk.require_outcomes("roundtrip_outcomes", 4)
    chk.require_outcomes("bookkeeping_shapes", len(BK_PARAMS) * len(BK_RESULTS))
    chk.require_outcomes("invalid_call", 10)
    chk.require_outcomes("history_final_states", 20)
    chk.require_outcomes("typed_name_pairs", 6)
    chk.require_outcomes("confusable_pairs", 5)
    chk.require_outcomes("lone_names", 6)


def replay(case, chk: Check):
    top = make_tmpdir()
    try:
        T = Targets(chk, top)
        part = case.get("part")
        if part == "probe":
            probe_choice(chk)
        elif part == "N":
            if case.get("what") == "history":
                part_names_history(chk, T)
            else:
                part_names(chk)
                part_names_types(chk, T)
        elif part == "E":
            part_errors(chk, T)
        elif part == "H":
            run_history_case(chk, {k: v for k, v in case.items() if k not in ("target", "level")}, T)
        elif part == "B":
            cs = dict(case)
            if str(cs.get("target", "")).startswith(("params:", "result:")):
                cs.pop("target")
            run_bookkeeping_case(chk, cs, T)
        elif part == "P":
            cs = {k: v for k, v in case.items() if k != "target"}
            if "target" in case:
                cs["targets"] = [case["target"]]
            run_params_case(chk, cs, T)
        elif part == "R":
            cs = {k: v for k, v in case.items() if k not in ("target", "variant")}
            if case.get("sub") == "set":
                cs["only"] = [case["variant"], case["target"]]
            else:
                cs["sub"] = "result"
            run_result_case(chk, cs, T)
    finally:
        shutil.rmtree(top, ignore_errors=True)
