"""Common bootstrap for every check process.

* puts the working tree of the repository under test first on sys.path
  (VERIF_REPO, default /repo) and asserts that `pyphysim` really comes from it
  (the copy in /venv/lib/.../site-packages is stale and must never be used);
* never writes byte code or numba caches into the repository;
* exposes tier / seed.
"""
import math
import os
import sys

VERIF_DIR = os.path.dirname(os.path.dirname(os.path.abspath(__file__)))
REPO = os.path.abspath(os.environ.get("VERIF_REPO", "/repo"))
sys.dont_write_bytecode = True
os.environ.setdefault("PYTHONDONTWRITEBYTECODE", "1")

if REPO in sys.path:
    sys.path.remove(REPO)
sys.path.insert(0, REPO)
if VERIF_DIR not in sys.path:
    sys.path.insert(1, VERIF_DIR)


def seed() -> int:
    try:
        return int(os.environ.get("VERIF_SEED", "0"))
    except ValueError:
        return 0


def tier() -> str:
    t = os.environ.get("VERIF_TIER", "quick")
    return t if t in ("quick", "thorough") else "quick"


def seed_offset(k: int = 0) -> float:
    """Irrational offset in [0,1) derived from the seed (golden-ratio Weyl
    sequence).  The only way a seed enters any enumeration: it rotates the
    phases / jitters of the deterministic families, never their discrete
    structure."""
    s = seed() * 7919 + k * 104729 + 1
    return (s * 0.6180339887498949) % 1.0


def import_pyphysim():
    import warnings
    warnings.filterwarnings("ignore")
    import pyphysim  # noqa
    f = os.path.abspath(pyphysim.__file__)
    if not f.startswith(REPO + os.sep):
        raise SystemExit(
            "BROKEN: pyphysim imported from %s, not from %s" % (f, REPO))
    return pyphysim


def ncores() -> int:
    try:
        return max(1, min(16, len(os.sched_getaffinity(0))))
    except Exception:
        return max(1, min(16, os.cpu_count() or 1))


def isfinite(x) -> bool:
    try:
        return math.isfinite(x)
    except TypeError:
        return False
