"""python -m vmc.driver <ID> [--tier quick|thorough] [--replay FILE]

Loads checks/<id>*.py, which must define

    PID, LEVEL, ENGINE, RULE
    def main(chk)                    enumerate + check, feeding `chk`
    def replay(case, chk)            re-execute exactly one stored case

Exit status: 0 property held on everything explored (known findings are
printed, not counted), 1 new violation (VIOLATION line + replay file), 2 the
machinery itself is broken (never a verdict about the property).
"""
import argparse
import glob
import importlib
import json
import os
import re
import sys
import traceback

from . import common
from .parallel import WorkerError
from .report import Broken, Check, from_jsonable


def load(pid):
    pat = os.path.join(common.VERIF_DIR, "checks", pid.lower() + "_*.py")
    files = sorted(glob.glob(pat))
    if len(files) != 1:
        raise SystemExit("BROKEN: no unique check module for %s (%s)" % (pid, files))
    name = os.path.basename(files[0])[:-3]
    return importlib.import_module("checks." + name)


def main(argv=None):
    ap = argparse.ArgumentParser()
    ap.add_argument("pid")
    ap.add_argument("--tier", default=None)
    ap.add_argument("--replay", default=None)
    a = ap.parse_args(argv)
    if a.tier:
        os.environ["VERIF_TIER"] = a.tier
    pid = a.pid.upper()
    common.import_pyphysim()
    mod = load(pid)
    chk = Check(pid, mod.LEVEL, mod.ENGINE, mod.RULE)
    try:
        if a.replay:
            rp = json.load(open(a.replay))
            case = from_jsonable(rp["case"])
            obs = []
            for _ in range(2):
                c = Check(pid, mod.LEVEL, mod.ENGINE, mod.RULE, child=True)
                mod.replay(case, c)
                obs.append(sorted((k, v["observed"]) for k, v in c.violations.items()))
            if obs[0] != obs[1]:
                print("BROKEN: replay is not deterministic: %r vs %r" % (obs[0], obs[1]))
                sys.exit(2)
            want = "|".join(rp["signature"])
            got = [k for k, _ in obs[0]]
            print("REPLAY property=%s file=%s stored_signature=%s reproduced=%s observed_signatures=%s"
                  % (pid, a.replay, want, want in got, got))
            for k, o in obs[0]:
                print("  %s -> %s" % (k, o))
            sys.exit(1 if got else 0)
        mod.main(chk)
        chk.finish()
    except Broken as e:
        # a vacuity / self-test failure raised by the check while violations are already
        # recorded is a consequence of the defect (e.g. everything raises, so an outcome class
        # never occurs): report the violations, not BROKEN
        known_open = set("|".join(f["signature"]) for f in chk.known_findings() if f.get("status") == "open")
        if any(k not in known_open for k in chk.violations):
            print("NOTE: %s: self-check failed after violations were recorded: %s" % (pid, e))
            chk.cap("self-check failed: %s" % e)
            chk._required = []
            chk.finish()
        print("BROKEN: %s: %s" % (pid, e))
        sys.exit(2)
    except (SystemExit, BrokenPipeError):
        raise
    except BaseException as e:  # noqa
        # An exception escaping a check's own guards: the implementation
        # behaved in a way the oracle could not even evaluate.  Never happens
        # on the unchanged tree (that would be a broken check); on a changed
        # tree it is reported as a violation together with the traceback.
        traceback.print_exc()
        tb = traceback.extract_tb(e.__traceback__)
        where = "%s:%s" % (os.path.basename(tb[-1].filename), tb[-1].name) if tb else "?"
        # WHO raised?  If the innermost frame is code of the implementation, the implementation
        # answered a call of the check with an exception nobody expected: reported as a violation.
        # If the innermost frame is the check's own code (an attribute the check assumed, a shape it
        # did not foresee), the CHECK is at fault: BROKEN (exit 2), never a violation claim.
        inner = tb[-1].filename if tb else ""
        text = str(e)
        if isinstance(e, WorkerError):
            files = re.findall(r'File "([^"]+)", line', text)
            inner = files[-1] if files else inner
        verif_root = os.path.dirname(os.path.dirname(os.path.abspath(__file__)))
        if os.path.abspath(inner).startswith(verif_root + os.sep):
            print("BROKEN: %s: an exception was raised by the check's own code (%s): %s"
                  % (pid, inner, text.strip().splitlines()[-1] if text.strip() else type(e).__name__))
            sys.exit(2)
        chk.fail(("unguarded-exception", type(e).__name__, where), None,
                 observed="%s: %s" % (type(e).__name__, e), expected="no exception",
                 msg="exception escaped the check; re-run the check to reproduce")
        chk.cap("aborted by exception")
        chk.nontriv("aborted-1"); chk.nontriv("aborted-2"); chk.count("eval_aborted")
        if not chk.samples:
            chk.sample({"aborted_by": "%s: %s" % (type(e).__name__, str(e)[:200]), "where": where})
        try:
            chk.finish()
        except Broken as e2:
            print("BROKEN: %s: %s" % (pid, e2))
            sys.exit(2)


if __name__ == "__main__":
    main()
