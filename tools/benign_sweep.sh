#!/bin/bash
# tools/benign_sweep.sh TIER [NAME_GLOB]  - run TIER of the property's check against every filed benign change
tier=${1:-thorough}; glob=${2:-*}
cd /verif
for d in benign/$glob/; do
  n=$(basename $d); pid=${n%%-*}
  [ -f $d/patch.diff ] || continue
  python3 tools/validate_benign.py $d $pid $n --tier $tier --no-baseline 2>&1 | python3 -c "
import sys,json
t=sys.stdin.read()
try:
    d=json.loads(t[t.index('{'):]); print(d['name'], d.get('tier','quick'), 'QUIET' if d['quiet'] else 'ALARM', {k:(v['exit'],v['signatures'][:4],v['wall_s']) for k,v in d['checks'].items()})
except Exception as e: print('$n ERR', t[-300:])
"
done
