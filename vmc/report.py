"""Check bookkeeping: counters, distinct outcomes, violations -> replay files,
known findings, evidence/<id>.json, exit status.

A check process creates one `Check`, feeds it while enumerating, and ends with
`chk.finish()`.  Shards running in forked workers create child `Check`s whose
`state()` is absorbed by the parent.
"""
import hashlib
import json
import os
import sys
import time
import traceback
from contextlib import contextmanager

import numpy as np

from . import common

LEVELS = ("exploration", "fault_enumeration", "model_checking")
MAX_REPLAYS_PER_RUN = 12
MAX_SAMPLES = 6


# --------------------------------------------------------------------------
# JSON encoding of cases (exact for floats: Python's repr round-trips doubles)
# --------------------------------------------------------------------------
def to_jsonable(x):
    if x is None or isinstance(x, (bool, str)):
        return x
    if isinstance(x, (int,)) and not isinstance(x, bool):
        return x if abs(x) < 2**62 else {"__int__": str(x)}
    if isinstance(x, float):
        if x != x or x in (float("inf"), float("-inf")):
            return {"__float__": repr(x)}
        return x
    if isinstance(x, complex):
        return {"__complex__": [to_jsonable(x.real), to_jsonable(x.imag)]}
    if isinstance(x, np.generic):
        if isinstance(x, np.bool_):
            return bool(x)
        if isinstance(x, np.integer):
            return {"__np__": x.dtype.name, "v": int(x)}
        if isinstance(x, np.floating):
            return {"__np__": x.dtype.name, "v": to_jsonable(float(x))}
        if isinstance(x, np.complexfloating):
            return {"__np__": x.dtype.name, "v": to_jsonable(complex(x))}
    if isinstance(x, np.ndarray):
        if x.dtype == object:
            return {"__ndobj__": [to_jsonable(e) for e in x.ravel().tolist()],
                    "shape": list(x.shape)}
        if np.iscomplexobj(x):
            return {"__nd__": x.dtype.name, "shape": list(x.shape),
                    "re": [to_jsonable(float(v)) for v in x.real.ravel()],
                    "im": [to_jsonable(float(v)) for v in x.imag.ravel()]}
        if x.dtype.kind == "f":
            return {"__nd__": x.dtype.name, "shape": list(x.shape),
                    "re": [to_jsonable(float(v)) for v in x.ravel()]}
        return {"__nd__": x.dtype.name, "shape": list(x.shape),
                "re": x.ravel().tolist()}
    if isinstance(x, dict):
        return {str(k): to_jsonable(v) for k, v in x.items()}
    if isinstance(x, (list, tuple)):
        return [to_jsonable(v) for v in x]
    if isinstance(x, (set, frozenset)):
        return {"__set__": sorted((to_jsonable(v) for v in x), key=repr)}
    if isinstance(x, slice):
        return {"__slice__": [x.start, x.stop, x.step]}
    if isinstance(x, BaseException):
        return {"__exc__": type(x).__name__, "msg": str(x)[:300]}
    return {"__repr__": repr(x)[:400]}


def from_jsonable(x):
    if isinstance(x, list):
        return [from_jsonable(v) for v in x]
    if isinstance(x, dict):
        if "__int__" in x:
            return int(x["__int__"])
        if "__float__" in x:
            return float(x["__float__"])
        if "__complex__" in x:
            r, i = x["__complex__"]
            return complex(from_jsonable(r), from_jsonable(i))
        if "__np__" in x:
            return np.dtype(x["__np__"]).type(from_jsonable(x["v"]))
        if "__ndobj__" in x:
            els = [from_jsonable(e) for e in x["__ndobj__"]]
            a = np.empty(len(els), dtype=object)
            for i, e in enumerate(els):
                a[i] = e
            return a.reshape(x["shape"])
        if "__nd__" in x:
            re = np.array([from_jsonable(v) for v in x["re"]])
            if "im" in x:
                im = np.array([from_jsonable(v) for v in x["im"]])
                a = re + 1j * im
            else:
                a = re
            return a.astype(x["__nd__"]).reshape(x["shape"])
        if "__set__" in x:
            return set(from_jsonable(v) if not isinstance(v, list) else
                       tuple(from_jsonable(v)) for v in x["__set__"])
        if "__slice__" in x:
            return slice(*x["__slice__"])
        if "__repr__" in x or "__exc__" in x:
            return x
        return {k: from_jsonable(v) for k, v in x.items()}
    return x


def short(x, n=300):
    s = x if isinstance(x, str) else repr(x)
    return s if len(s) <= n else s[:n] + "..."


def sig_key(sig):
    return "|".join(str(s) for s in sig)


# --------------------------------------------------------------------------
class Broken(Exception):
    """The checking machinery itself is unsound/vacuous on this run."""


class Check:
    def __init__(self, pid, level, engine, rule, child=False):
        assert level in LEVELS
        self.pid = pid
        self.level = level
        self.engine = engine
        self.rule = rule
        self.child = child
        self.tier = common.tier()
        self.seed = common.seed()
        self.t0 = time.time()
        self.counters = {}
        self.outcomes = {}       # class -> set of hashable outcome keys
        self.nontrivial = set()  # hashable keys of distinct non-trivial cases
        self.samples = []
        self.violations = {}     # sig_key -> dict(sig, count, case, obs, exp, msg)
        self.assumptions = []
        self.extra = {}
        self.caps_hit = []
        self.states = 0
        self.transitions = 0
        self.traces_validated = 0
        self.exhaustive = True
        self._known = None
        self._required = []

    # ---- counting ------------------------------------------------------
    def count(self, key, n=1):
        self.counters[key] = self.counters.get(key, 0) + n

    def outcome(self, cls, key):
        """record a distinct observed outcome (non-vacuity evidence)"""
        s = self.outcomes.setdefault(cls, set())
        if len(s) < 2000000:
            s.add(key)

    def nontriv(self, key):
        if len(self.nontrivial) < 2000000:
            self.nontrivial.add(key)

    def sample(self, case):
        if len(self.samples) < MAX_SAMPLES:
            self.samples.append(to_jsonable(case))

    def cap(self, what):
        self.exhaustive = False
        if what not in self.caps_hit:
            self.caps_hit.append(what)

    def assume(self, text):
        if text not in self.assumptions:
            self.assumptions.append(text)

    # ---- violations ----------------------------------------------------
    def fail(self, sig, case, observed=None, expected=None, msg=""):
        """Report that the property is violated on `case`.
        `sig` is a tuple of short strings naming WHAT fails (used for matching
        the committed known-findings list and for de-duplicating replays)."""
        sig = tuple(str(s) for s in sig)
        k = sig_key(sig)
        v = self.violations.get(k)
        if v is None:
            self.violations[k] = dict(
                sig=list(sig), count=1, case=to_jsonable(case),
                observed=short(observed), expected=short(expected),
                msg=short(msg, 600))
        else:
            v["count"] += 1

    @contextmanager
    def guard(self, sig_prefix, case):
        """Any exception escaping the block (library or oracle evaluation on
        library output) is a violation: on the unchanged tree the oracles
        evaluate without error on every enumerated case."""
        try:
            yield
        except (KeyboardInterrupt, SystemExit, Broken):
            raise
        except BaseException as e:  # noqa
            tb = traceback.extract_tb(e.__traceback__)
            where = ""
            for fr in reversed(tb):
                if "/pyphysim/" in fr.filename:
                    where = "%s:%s" % (os.path.basename(fr.filename), fr.name)
                    break
            if not where and tb:
                where = "%s:%s" % (os.path.basename(tb[-1].filename), tb[-1].name)
            self.fail(tuple(sig_prefix) + ("exception", type(e).__name__, where),
                      case, observed="%s: %s" % (type(e).__name__, e),
                      expected="no exception",
                      msg="".join(traceback.format_exception_only(type(e), e))[-500:])

    # ---- sharding ------------------------------------------------------
    def state(self):
        return dict(counters=self.counters,
                    outcomes={k: list(v) for k, v in self.outcomes.items()},
                    nontrivial=list(self.nontrivial), samples=self.samples,
                    violations=self.violations, assumptions=self.assumptions,
                    caps_hit=self.caps_hit, states=self.states,
                    transitions=self.transitions,
                    traces_validated=self.traces_validated,
                    exhaustive=self.exhaustive, extra=self.extra)

    def absorb(self, st):
        for k, n in st["counters"].items():
            self.count(k, n)
        for c, keys in st["outcomes"].items():
            s = self.outcomes.setdefault(c, set())
            for key in keys:
                s.add(key if not isinstance(key, list) else tuple(key))
        self.nontrivial.update(st["nontrivial"])
        for s in st["samples"]:
            if len(self.samples) < MAX_SAMPLES:
                self.samples.append(s)
        for k, v in st["violations"].items():
            if k in self.violations:
                self.violations[k]["count"] += v["count"]
            else:
                self.violations[k] = v
        for a in st["assumptions"]:
            self.assume(a)
        for c in st["caps_hit"]:
            self.cap(c)
        self.states += st["states"]
        self.transitions += st["transitions"]
        self.traces_validated += st["traces_validated"]
        self.exhaustive = self.exhaustive and st["exhaustive"]
        for k, v in st.get("extra", {}).items():
            if isinstance(v, (int, float)) and isinstance(self.extra.get(k), (int, float)):
                if k.startswith("max_"):
                    self.extra[k] = max(self.extra[k], v)
                else:
                    self.extra[k] += v
            else:
                self.extra.setdefault(k, v)

    def child_check(self):
        c = Check(self.pid, self.level, self.engine, self.rule, child=True)
        return c

    # ---- known findings --------------------------------------------------
    def known_findings(self):
        if self._known is None:
            path = os.path.join(common.VERIF_DIR, "known_findings.json")
            self._known = []
            if os.path.exists(path):
                data = json.load(open(path))
                self._known = [e for e in data.get("findings", [])
                               if e.get("property") == self.pid]
        return self._known

    # ---- finishing -------------------------------------------------------
    def require_outcomes(self, cls, minimum):
        """non-vacuity requirement, evaluated in finish(): a run that reports a
        violation is never turned into BROKEN by a collapsed outcome count (a
        defect that makes everything raise also collapses the outcomes)."""
        self._required.append((cls, minimum))

    def finish(self, exit_process=True):
        wall = time.time() - self.t0
        known_open = {sig_key(e["signature"]): e for e in self.known_findings()
                      if e.get("status") == "open"}
        new, known = [], []
        for k, v in sorted(self.violations.items()):
            (known if k in known_open else new).append((k, v))
        lines = []
        for k, v in known:
            lines.append("KNOWN-FINDING: property=%s %s [signature=%s cases=%d]"
                         % (self.pid, known_open[k].get("what", k), k, v["count"]))
        # known findings that this run did not reach: informational only
        for k, e in known_open.items():
            if k not in self.violations:
                tiers = e.get("tiers")
                if not tiers or self.tier in tiers:
                    lines.append("NOTE: listed finding not observed on this run: "
                                 "property=%s signature=%s" % (self.pid, k))
        if not new:
            for cls, minimum in self._required:
                n = len(self.outcomes.get(cls, ()))
                if n < minimum:
                    raise Broken("vacuous: only %d distinct '%s' outcomes (need >= %d)"
                                 % (n, cls, minimum))
        # runs against a scratch tree (VERIF_REPO) never touch the replays / evidence of /repo
        scratch = common.REPO != "/repo"
        rdir = os.path.join(common.VERIF_DIR, "replays", "scratch") if scratch else \
            os.path.join(common.VERIF_DIR, "replays")
        os.makedirs(rdir, exist_ok=True)
        nrep = 0
        for k, v in new:
            h = hashlib.sha1(k.encode()).hexdigest()[:10]
            path = os.path.join(rdir, "%s-%s.json" % (self.pid, h))
            if nrep < MAX_REPLAYS_PER_RUN:
                with open(path, "w") as f:
                    json.dump(dict(property=self.pid, signature=v["sig"],
                                   tier=self.tier, seed=self.seed,
                                   engine=self.engine, case=v["case"],
                                   observed=v["observed"], expected=v["expected"],
                                   message=v["msg"], cases_with_this_signature=v["count"]),
                              f, indent=1)
                nrep += 1
                lines.append("VIOLATION property=%s replay=%s" % (self.pid, path))
                lines.append("  signature=%s cases=%d observed=%s expected=%s %s"
                             % (k, v["count"], short(v["observed"], 160),
                                short(v["expected"], 160), short(v["msg"], 200)))
            else:
                lines.append("  (further violation signature without replay file: %s)" % k)
        evaluations = sum(n for k, n in self.counters.items() if k.startswith("eval"))
        if evaluations == 0:
            evaluations = sum(self.counters.values())
        distinct_out = {c: len(s) for c, s in self.outcomes.items()}
        cov = dict(
            evaluations=int(evaluations),
            distinct_nontrivial=int(len(self.nontrivial)),
            rule=self.rule,
            samples=self.samples[:MAX_SAMPLES],
            exhaustive=bool(self.exhaustive and not self.caps_hit),
            caps_hit=self.caps_hit,
            counters={k: int(v) for k, v in sorted(self.counters.items())},
            distinct_outcomes=distinct_out,
            engine=self.engine,
            known_findings_observed=[k for k, _ in known],
            new_violation_signatures=[k for k, _ in new],
        )
        if self.level == "model_checking" or self.states:
            cov.update(states=int(self.states), transitions=int(self.transitions),
                       traces_validated_against_impl=int(self.traces_validated))
        cov.update(self.extra)
        ev = dict(property_id=self.pid, tier=self.tier, seed=self.seed,
                  level=self.level, coverage=cov, assumptions=self.assumptions,
                  wall_s=round(wall, 3), violations=len(new))
        if not self.child:
            edir = os.path.join(common.VERIF_DIR, "evidence", "scratch") if scratch else \
                os.path.join(common.VERIF_DIR, "evidence")
            os.makedirs(edir, exist_ok=True)
            tmp = os.path.join(edir, ".%s.json.tmp" % self.pid)
            with open(tmp, "w") as f:
                json.dump(ev, f, indent=1, sort_keys=False)
            os.replace(tmp, os.path.join(edir, "%s.json" % self.pid))
            _validate_evidence(ev)
        code = 1 if new else 0
        try:
            self._print_summary(lines, evaluations, distinct_out, cov, wall, new, known)
        except BrokenPipeError:
            pass
        if exit_process:
            try:
                sys.stdout.flush()
            except BrokenPipeError:
                pass
            sys.exit(code)
        return code

    def _print_summary(self, lines, evaluations, distinct_out, cov, wall, new, known):
        print("%s tier=%s seed=%d engine=%s evaluations=%d distinct_nontrivial=%d "
              "states=%d transitions=%d outcomes=%s exhaustive=%s wall=%.1fs"
              % (self.pid, self.tier, self.seed, self.engine, evaluations,
                 len(self.nontrivial), self.states, self.transitions,
                 distinct_out, cov["exhaustive"], wall))
        for ln in lines:
            print(ln)
        print("%s RESULT: %s (new violations: %d, known findings observed: %d)"
              % (self.pid, "VIOLATED" if new else "HOLDS on everything explored",
                 len(new), len(known)))
        sys.stdout.flush()


def _validate_evidence(ev):
    schema_path = "/root/.vp/EVIDENCE.schema.json"
    local = os.path.join(common.VERIF_DIR, "tools", "EVIDENCE.schema.json")
    for p in (schema_path, local):
        if os.path.exists(p):
            try:
                import jsonschema
                jsonschema.validate(ev, json.load(open(p)))
            except ImportError:
                return
            except Exception as e:  # noqa
                raise Broken("evidence does not validate: %s" % short(e, 400))
            return
