"""C07 - a simulation stopped at any point resumes without losing or double
counting work.

Engines E2 + E4 (fault enumeration): a scenario is run 0 of a scripted
`SimulationRunner` with a results file inside a private tmpfs directory, killed
at an explored crash point, followed by restart runs (fresh runner objects =
fresh processes) until one completes.  Crash points: before every
`_run_simulation` call (every repetition boundary of every variation) and
before / inside (every torn prefix) / after every file-layer operation issued
while saving partial or final results (open-truncate, write, close, replace,
mkdir, remove).  Partial saves at arbitrary repetitions are provoked by a
virtual-clock jump (> 300 s) and by the real 500-repetition period.

Every `_run_simulation` call returns a unique token (its global call id) in a
SUM result that accumulates its values, so the merged `_value_list` is the exact
multiset of calls that were counted.
"""
import os
import re
import pickle

import numpy as np

from vmc import choice, crashfs, seams
from vmc.parallel import run_shards, shard

PID = "C07"
LEVEL = "fault_enumeration"
ENGINE = "E2 deviation-bounded explorer + E4 crash-point / torn-write file layer"
RULE = ("scenarios = grid x rep_max (small 2..4; 499,500,501,1001 around the 500-repetition save period) "
        "x result format (.pickle/.json) x delete_partial_results x restart variant (same parameters / "
        "rep_max raised / changed fixed value / changed unpacked values); per scenario every placement of "
        "<= C crashes (before each call; before/after each file operation; every torn prefix of each write), "
        "<= J clock jumps, <= S skips; oracle = exactly-once accounting of unique call tokens against the "
        "durable image found at each restart. Non-trivial = scenario with >= 1 crash; distinct = distinct "
        "(scenario, choice vector)")

OK, CRASH, SKIP, JUMP = 0, 1, 2, 3


def scenarios(tier):
    out = []
    small = [({"b": 2}, 3), ({"b": 2}, 2), ({"b": 2, "a": 2}, 2), ({}, 3), ({"b": 3}, 4)]
    thorough = tier == "thorough"
    for gi, (lengths, rep_max) in enumerate(small):
        for fmt in ("res", "res.json"):
            for delete in (False, True):
                diag = (fmt == "res.json") == delete      # (res, keep) and (res.json, delete)
                if gi >= 2 and not diag:
                    continue        # larger grids: two of the four format/delete combinations
                if not thorough and not diag:
                    continue        # quick: the two diagonal combinations only
                base = dict(kind="resume", lengths=lengths, rep_max=rep_max, fmt=fmt, delete=delete,
                            keep=["true", 0], variant="same", calls="all")
                # (a) crashes only; every byte offset of every write is a torn-write crash point
                if gi < 2 or (gi == 2 and thorough):
                    if thorough or gi == 0 or not delete:
                        out.append(dict(base, budget=[2, 0, 0] if thorough and gi == 0 and diag else [1, 0, 0],
                                        torn="every"))
                # (b) crashes combined with skipped repetitions and clock jumps (partial saves at
                #     arbitrary repetitions), coarse torn prefixes {1, n/2, n-1}
                if thorough:
                    budget = [2, 1, 1] if (gi == 0 and diag) else ([2, 0, 1] if gi < 2 else [1, 1, 1])
                else:
                    budget = [1, 1, 1] if gi in (0, 1, 3) else ([1, 1, 0] if gi == 2 else [1, 0, 1])
                    if gi == 4 and delete:
                        continue
                out.append(dict(base, budget=budget, torn="coarse"))
    # the per-variation workflow: simulate(0), simulate(1) as separate processes, then simulate() assembles
    out.append(dict(kind="resume", lengths={"b": 2}, rep_max=3, fmt="res", delete=False, keep=["true", 0],
                    variant="same", budget=[2, 1, 1] if thorough else [1, 1, 1], torn="coarse", calls="all",
                    plan=["single:0", "single:1", "all"]))
    out.append(dict(kind="resume", lengths={"b": 2}, rep_max=2, fmt="res.json", delete=True, keep=["true", 0],
                    variant="same", budget=[1, 0, 1], torn="coarse", calls="all",
                    plan=["single:1", "all"]))
    # a second simulate() on the SAME runner object after completion (partial files kept / deleted)
    for delete in (False, True):
        out.append(dict(kind="resume", lengths={"b": 2}, rep_max=2, fmt="res", delete=delete, keep=["true", 0],
                        variant="same", budget=[1, 1, 1], torn="coarse", calls="all",
                        plan=["all", "all_same_runner"]))
    # parameter values whose type a text format does not keep (tuple, numpy scalar, nested list):
    # "the same parameters" must be recognised after any interruption, in both result formats
    for fmt in ("res", "res.json"):
        out.append(dict(kind="resume", lengths={"b": 2}, rep_max=2, fmt=fmt, delete=False, keep=["true", 0],
                        variant="same", typed_params=True, budget=[1, 0, 1], torn="coarse", calls="all"))
    # early stop rule: resume must re-evaluate it on the loaded results
    out.append(dict(kind="resume", lengths={"b": 2}, rep_max=4, fmt="res", delete=False, keep=["rep", 3],
                    variant="same", budget=[1, 1, 1], torn="coarse", calls="all"))
    # around the real 500-repetition save period
    bigs = (499, 500, 501, 1001) if tier == "thorough" else (500, 501)
    for rep_max in bigs:
        out.append(dict(kind="resume", lengths={"b": 2} if rep_max < 1001 else {}, rep_max=rep_max,
                        fmt="res", delete=False, keep=["true", 0], variant="same", budget=[1, 0, 0],
                        torn="coarse", calls="all" if tier == "thorough" else "near500"))
    # the interrupted runner OBJECT itself is asked to simulate again (Ctrl-C in a notebook, run the cell
    # again), below and beyond the periodic save
    out.append(dict(kind="resume", lengths={"b": 2}, rep_max=2, fmt="res", delete=False, keep=["true", 0],
                    variant="same", budget=[2, 0, 1] if thorough else [1, 0, 1], torn="coarse", calls="all",
                    keep_runner_after_crash=True))
    out.append(dict(kind="resume", lengths={"b": 2}, rep_max=501, fmt="res", delete=False, keep=["true", 0],
                    variant="same", budget=[1, 0, 0], torn="coarse", calls="all" if thorough else "near500",
                    keep_runner_after_crash=True))
    # restart with other parameters
    for variant in ("rep_max+1", "fixed_changed", "unpacked_value_changed", "unpacked_longer",
                    "unpacked_array_other_shape", "param_removed", "param_added", "fixed_type_changed"):
        out.append(dict(kind="foreign", lengths={"b": 2}, rep_max=2, fmt="res", delete=False,
                        keep=["true", 0], variant=variant, budget=[1, 0, 1], torn="coarse", calls="all"))
    # restart with a float parameter changed by an amount a tolerance-based comparison would not see
    out.append(dict(kind="foreign", lengths={"b": 2}, rep_max=2, fmt="res", delete=False, keep=["true", 0],
                    variant="fixed_float_close_changed", budget=[1, 0, 1], torn="coarse", calls="all"))
    out.append(dict(kind="foreign", lengths={"d": 2}, rep_max=2, fmt="res", delete=False, keep=["true", 0],
                    variant="unpacked_float_close_changed", budget=[1, 0, 1], torn="coarse", calls="all"))
    # restart with a list / tuple parameter that differs only in LENGTH (common part identical)
    for variant in ("fixed_list_extended", "fixed_tuple_shortened"):
        out.append(dict(kind="foreign", lengths={"b": 2}, rep_max=2, fmt="res", delete=False, keep=["true", 0],
                        variant=variant, budget=[1, 0, 1], torn="coarse", calls="all"))
    # the single-index entry point on a runner object that is REUSED after one of its parameters was
    # changed in place (params.add): the partial result of the earlier call belongs to other parameters
    out.append(dict(kind="foreign", lengths={"b": 2}, rep_max=2, fmt="res", delete=False, keep=["true", 0],
                    variant="fixed_changed", budget=[1, 0, 1], torn="coarse", calls="all",
                    plan=["single:1", "single:1!changed_in_place"]))
    # restart with the SAME parameters, given to the restarted runner in another insertion order
    # (what a restart in a fresh process with another string-hash seed can produce on its own)
    for no_unpack in (False, True):
        out.append(dict(kind="foreign", lengths={"b": 2}, rep_max=2, fmt="res", delete=False, keep=["true", 0],
                        variant="same_other_insertion_order", no_unpack=no_unpack, budget=[1, 0, 1],
                        torn="coarse", calls="all"))
    return out


def grid_for(sc, run_no):
    from models import runner_model as RM
    pd, unpacked = RM.make_grid(sc["lengths"])
    if sc.get("no_unpack"):
        unpacked = []           # the list-valued parameter stays one fixed parameter
    rep_max = sc["rep_max"]
    if sc.get("typed_params"):
        pd["ant"] = (2, 2)
        pd["npint"] = np.int64(3)
        pd["nested"] = [[1, 2], [3]]
    if sc["variant"] == "fixed_list_extended":
        pd["pilots"] = [0, 4, 8] if run_no == 0 else [0, 4, 8, 12]
    if sc["variant"] == "fixed_tuple_shortened":
        pd["pilots"] = (0, 4, 8) if run_no == 0 else (0, 4)
    if sc["variant"] == "fixed_float_close_changed":
        pd["nv"] = 1e-9 if run_no == 0 else 3e-9          # |difference| < 1e-8: "close" for np.allclose
    if run_no >= 1:
        v = sc["variant"]
        if v == "unpacked_float_close_changed":
            pd["d"] = [1e-9, 4e-9]                          # was [1e-9, 2e-9]
        if v == "same_other_insertion_order":
            pd = dict(reversed(list(pd.items())))
            unpacked = unpacked[::-1]
        if v == "rep_max+1":
            rep_max += 1
        elif v == "fixed_changed":
            pd["fixed"] = 8
        elif v == "param_removed":
            del pd["fixed"]
        elif v == "param_added":
            pd["extra"] = 5
        elif v == "fixed_type_changed":
            pd["fixed"] = [7, 7]
        elif v == "unpacked_value_changed":
            pd["b"] = [10, 21]
        elif v == "unpacked_longer":
            pd["b"] = [10, 20, 30]
        elif v == "unpacked_array_other_shape":
            pd["b"] = [np.array([10, 11]), np.array([20, 21, 22])]
    return pd, unpacked, rep_max


class Scenario:
    """one complete execution: runs until a run completes (or refuses)"""

    def __init__(self, sc, ctx, chk):
        self.sc, self.ctx, self.chk = sc, ctx, chk
        self.next_call_id = 0
        self.crashes = 0
        self.other_devs = 0
        self.run_no = 0
        self.in_run_call = 0
        self.clock = seams.VirtualClock()
        self.fs = crashfs.CrashFS(decide=self.decide, torn=self.torn)

    # ---- choice points -------------------------------------------------
    def torn(self, n):
        return self._torn_list

    def decide(self, op, info):
        if op == "write":
            # every byte offset only in scenarios whose sole deviation is this crash
            coarse = self.sc["torn"] == "coarse" or self.crashes >= 1 or self.other_devs >= 1
            self._torn_list = crashfs.torn_prefixes(info[1], coarse=coarse)
            arity = 2 + len(self._torn_list)
        elif op == "close":
            arity = 2
        else:
            arity = 3
        c = self.ctx.choose(arity, "fs:" + op)
        if c:
            self.crashes += 1
        return c

    def answer(self, k, cp):
        c = self.ctx.choose(4, "call:%d" % self.in_run_call)
        self.in_run_call += 1
        if c == CRASH:
            self.crashes += 1
            raise crashfs.Crash("before call %d of run %d" % (k, self.run_no))
        cid = self.next_call_id
        self.next_call_id += 1
        self.calls_this_run.append((cp.unpack_index, cid, c))
        if c == SKIP:
            self.other_devs += 1
            return ("skip",)
        if c == JUMP:
            self.other_devs += 1
            self.clock.advance(301.0)
        return ("ok", cid)

    # ---- durable image ---------------------------------------------------
    def final_names(self):
        fmt = self.sc["fmt"]
        return {fmt, fmt + ".pickle"}

    def durable(self, idxs, nvar, runner=None):
        """what a restart can find: per variation (kind, (rep, tokens, params, relative path)).
        The file a restart reads for a variation is asked from the library's PUBLIC helper
        `runner.get_partial_results_filename(base, params_of_the_variation, folder)`, so neither the
        naming scheme of the partial files nor that of temporary / scratch files is assumed; only if
        that helper does not exist are the files identified by content (durable_by_content)."""
        from pyphysim.simulations import runner as R
        helper = getattr(R, "get_partial_results_filename", None)
        if helper is None or runner is None:
            return self.durable_by_content(idxs, nvar)
        try:
            plist = runner.params.get_unpacked_params_list()
            folder = runner.partial_results_folder
            paths = {i: helper(self.sc["fmt"], plist[pos], folder) for pos, i in enumerate(idxs)}
        except Exception:  # noqa
            return self.durable_by_content(idxs, nvar)
        out = {}
        for i in idxs:
            full = os.path.abspath(paths[i])
            kind, st = "absent", None
            if os.path.exists(full):
                try:
                    with open(full, "rb") as f:
                        obj = pickle.load(f)
                except Exception:  # noqa
                    obj = None
                    if full.endswith(".json"):
                        try:
                            from pyphysim.simulations.results import SimulationResults
                            obj = SimulationResults.load_from_file(full)
                        except Exception:  # noqa
                            obj = None
                try:
                    st = (int(obj.current_rep), list(obj["v"][-1].get_result_accumulated_values()), obj.params,
                          os.path.relpath(full, self.fs.root))
                    kind = "complete"
                except Exception:  # noqa
                    kind, st = "torn", None
            out[i] = (kind, st)
        return out

    def durable_by_content(self, idxs, nvar):
        """fallback of durable(): per variation (rep, tokens, params, relative path) of a loadable
        partial-results file.  Files are identified by CONTENT (every loadable results object in the
        scenario's directory other than the final results file, attributed to the variation its own
        parameters name), not by the name the library currently gives them.  An unloadable file is a
        torn file (temporaries of an atomic save - "*.tmp*" - are skipped altogether, as a restart
        never reads them): attributed through the index in its name when there is one, else
        to every variation without a loadable file."""
        out = {i: ("absent", None) for i in idxs}
        loose = []
        for d, _, files in os.walk(self.fs.root):
            for fn in sorted(files):
                full = os.path.join(d, fn)
                rel = os.path.relpath(full, self.fs.root)
                if rel in self.final_names():
                    continue
                if ".tmp" in fn or fn.endswith("~"):
                    continue            # temporary of an (interrupted) atomic save: never read back
                obj = None
                try:
                    with open(full, "rb") as f:
                        obj = pickle.load(f)
                except Exception:  # noqa
                    if fn.endswith(".json"):
                        try:
                            from pyphysim.simulations.results import SimulationResults
                            obj = SimulationResults.load_from_file(full)
                        except Exception:  # noqa
                            obj = None
                if obj is None:
                    m = re.search(r"_unpack_(-?\d+)", fn)
                    if m and int(m.group(1)) in out:
                        if out[int(m.group(1))][0] != "complete":
                            out[int(m.group(1))] = ("torn", None)
                    else:
                        loose.append(rel)
                    continue
                try:
                    idx = int(obj.params.unpack_index)
                    st = (int(obj.current_rep), list(obj["v"][-1].get_result_accumulated_values()), obj.params, rel)
                except Exception:  # noqa
                    continue            # not a partial-results object
                if idx in out:
                    out[idx] = ("complete", st)
        if loose:
            for i in idxs:
                if out[i][0] == "absent":
                    out[i] = ("torn", None)
        return out


def in_place_plan(sc):
    return any(m.endswith("!changed_in_place") for m in (sc.get("plan") or []))


def make_runner(sc, S, run_no):
    from models import runner_model as RM
    from pyphysim.simulations.results import Result, SimulationResults
    pd, unpacked, rep_max = grid_for(sc, run_no)

    class TokenRunner(RM.ScriptedRunner):
        def _run_simulation(self, current_parameters):
            k = self.ncalls
            self.ncalls += 1
            a = self.answer(k, current_parameters)
            if a[0] == "skip":
                from pyphysim.simulations.runner import SkipThisOne
                raise SkipThisOne("scripted skip")
            res = SimulationResults()
            res.add_result(Result.create("v", Result.SUMTYPE, a[1], accumulate_values=True))
            return res

        def _keep_going(self, current_params, current_sim_results, current_rep):
            return RM.eval_keep_going(tuple(sc["keep"]), 0, current_rep)

    r = TokenRunner(pd, unpacked, rep_max, tuple(sc["keep"]), S.answer)
    r.set_results_filename(sc["fmt"])       # relative: the scenario runs with cwd = its private directory
    r.delete_partial_results_bool = bool(sc["delete"])
    return r, pd, unpacked, rep_max


def execute(sc, ctx, chk):
    from models import runner_model as RM
    from pyphysim.simulations import results as RES
    from pyphysim.simulations import runner as R
    from pyphysim.simulations.results import SimulationResults
    S = Scenario(sc, ctx, chk)
    case = dict(scenario=sc, choices="filled below")
    paths = []
    cwd0 = os.getcwd()
    try:
        os.chdir(S.fs.root)
        # the clock and the file layer are installed process-wide (not only as attributes of the two
        # library modules that use them today)
        with S.clock.installed(R, RES), S.fs.installed():
            # plan = sequence of steps; a crashed step is retried by a fresh runner (= restarted process)
            plan = sc.get("plan") or ["all"]
            step = 0
            runner = None
            for run_no in range(8):
                S.run_no = run_no
                S.in_run_call = 0
                S.calls_this_run = []
                mode = plan[step]
                in_place = mode.endswith("!changed_in_place")
                if in_place_plan(sc):
                    # step 0: the original parameters (also when the step is retried after a crash);
                    # changed step: the SAME object with one parameter changed through its live
                    # parameters object, or - after a crash of that step - a fresh object that has
                    # the changed parameters from the start
                    if in_place and runner is not None:
                        pd, unpacked, rep_max = grid_for(sc, 1)
                        runner.params.add("fixed", pd["fixed"])
                    elif runner is None or not in_place:
                        runner, pd, unpacked, rep_max = make_runner(sc, S, 1 if in_place else 0)
                elif not ((mode == "all_same_runner" or sc.get("keep_runner_after_crash")) and runner is not None):
                    runner, pd, unpacked, rep_max = make_runner(sc, S, run_no)
                vars_ = RM.variations(RM._plain(pd) if run_no == 0 or sc["variant"] != "unpacked_array_other_shape"
                                      else {"b": [0, 1]}, unpacked)
                nvar = len(vars_)
                idxs = list(range(nvar)) if unpacked else [-1]
                dur = S.durable(idxs, nvar, runner)
                for i in idxs:
                    paths.append(dur[i][0])
                foreign = sc["kind"] == "foreign" and (step >= 1 if in_place_plan(sc) else run_no >= 1)
                before_img = S.fs.image() if foreign else None
                try:
                    if mode.startswith("single:"):
                        runner.simulate(int(mode[7:].split("!")[0]))
                    else:
                        runner.simulate()
                    status = "completed"
                except crashfs.Crash:
                    status = "crashed"
                    if not sc.get("keep_runner_after_crash"):
                        runner = None
                except BaseException as e:  # noqa
                    status = ("raised", e)
                if status == "completed" and step < len(plan) - 1:
                    step += 1
                    continue
                case = dict(scenario=sc, choices=list(ctx.choices))
                if status == "crashed":
                    continue
                # ------------------------- oracle -------------------------
                torn_now = [i for i in idxs if dur[i][0] == "torn"]
                if foreign and not (torn_now and status != "completed"):
                    return judge_foreign(sc, S, chk, case, status, dur, before_img, runner, idxs, nvar, paths)
                if status != "completed":
                    e = status[1]
                    torn = [i for i in idxs if dur[i][0] == "torn"]
                    chk.fail(("restart_fails", type(e).__name__,
                              "torn_partial_file" if torn else "no_torn_file"), case,
                             observed="run %d raised %s: %s" % (run_no, type(e).__name__, e),
                             expected="the (re)started simulation completes")
                    return ("restart_failed", type(e).__name__, tuple(sorted(set(paths))))
                judge_completed(sc, S, chk, case, runner, dur, idxs, rep_max, run_no)
                return ("completed", run_no, tuple(sorted(set(paths))))
            chk.fail(("no_progress",), case, observed="8 runs without completion", expected="completion")
            return ("no_progress",)
    finally:
        os.chdir(cwd0)
        S.fs.cleanup()


def judge_completed(sc, S, chk, case, runner, dur, idxs, rep_max, run_no):
    from models import runner_model as RM
    from pyphysim.simulations.results import SimulationResults
    keep = tuple(sc["keep"])
    got_reps = list(runner.runned_reps)
    res = runner.results
    for pos, i in enumerate(idxs):
        kind, st = dur[i]
        loaded = None
        base_tokens = []
        if kind == "complete":
            loaded = (st[0], 0, 0)
            base_tokens = st[1]
        # reference: the documented loop fed with this run's answers for this variation
        mine = [(cid, c) for (ui, cid, c) in S.calls_this_run if ui == i]
        it = iter(mine)
        consumed = []

        def next_answer(rv):
            cid, c = next(it)
            consumed.append(cid)
            return ("skip",) if c == SKIP else ("ok", cid)

        rv = RM.RefVariation(i, {})
        try:
            RM.ref_run_variation(rv, rep_max, keep, next_answer, loaded=loaded)
            leftover = list(it)
        except StopIteration:
            leftover = None
        want_tokens = sorted(base_tokens + rv.succ)
        r = res["v"][pos]
        got_tokens = sorted(r.get_result_accumulated_values())
        how = "resumed_from_%s_file" % kind
        if leftover is None or leftover:
            chk.fail(("calls_in_restarted_run", how), dict(case, variation=i),
                     observed="calls made for this variation: %r" % (mine,),
                     expected="exactly the calls the documented loop makes from rep %r"
                     % (loaded[0] if loaded else 0,))
        if got_tokens != want_tokens:
            dup = sorted(set(t for t in got_tokens if got_tokens.count(t) > 1))
            lost = sorted(set(want_tokens) - set(got_tokens))
            extra = sorted(set(got_tokens) - set(want_tokens))
            what = "double_counted" if dup else ("lost" if lost else "foreign_tokens")
            chk.fail(("token_accounting", what, how), dict(case, variation=i),
                     observed="tokens=%r dup=%r lost=%r extra=%r" % (got_tokens[:12], dup[:5], lost[:5], extra[:5]),
                     expected="tokens=%r (durable %r + this run %r)" % (want_tokens[:12], base_tokens[:8], rv.succ[:8]))
        if got_reps[pos] != rv.rep or len(got_tokens) != got_reps[pos] or r.num_updates != len(got_tokens):
            chk.fail(("repetition_count", how), dict(case, variation=i),
                     observed="runned_reps=%r tokens=%d num_updates=%d" % (got_reps[pos], len(got_tokens), r.num_updates),
                     expected="all equal to %d" % rv.rep)
        if r.get_result() != sum(want_tokens):
            chk.fail(("merged_value", how), dict(case, variation=i), observed=r.get_result(),
                     expected=sum(want_tokens))
    # final results file loads and equals runner.results
    fn = os.path.join(S.fs.root, sc["fmt"] if sc["fmt"].endswith(".json") else sc["fmt"] + ".pickle")
    try:
        loaded = SimulationResults.load_from_file(fn)
        same = [sorted(a.get_result_accumulated_values()) for a in loaded["v"]] == [sorted(a.get_result_accumulated_values()) for a in res["v"]] \
            and list(loaded.runned_reps) == got_reps
    except Exception as e:  # noqa
        loaded, same = None, False
        chk.fail(("final_file", "unloadable", type(e).__name__), case, observed=str(e), expected="loads")
    if loaded is not None and not same:
        chk.fail(("final_file", "differs_from_runner_results"), case,
                 observed=[a.get_result_accumulated_values() for a in loaded["v"]], expected=[a.get_result_accumulated_values() for a in res["v"]])
    if sc["delete"]:
        left = [st[3] for kind, st in S.durable(idxs, len(idxs), runner).values() if kind == "complete"]
        if left:
            chk.fail(("delete_partial_results", "files_left"), case, observed=left, expected="[]")


def judge_foreign(sc, S, chk, case, status, dur, before_img, runner, idxs, nvar, paths):
    """restart with other parameters: combinations whose own parameters changed must be
    refused with an error and their saved file left untouched; unchanged ones may be reused."""
    from models import runner_model as RM
    v = sc["variant"]
    pd0, unpacked0 = RM.make_grid(sc["lengths"])
    if sc.get("no_unpack"):
        unpacked0 = []
    old_vars = RM.variations(RM._plain(pd0), unpacked0)
    have = [i for i in idxs if dur[i][0] == "complete"]
    if v in ("rep_max+1", "same_other_insertion_order"):
        if status != "completed":
            chk.fail(("foreign", v, "refused"), case, observed=repr(status),
                     expected="resumes up to the new rep_max" if v == "rep_max+1" else
                     "resumes: the parameters are the same, only their insertion order differs")
            return ("foreign", v, "raised")
        judge_completed(sc, S, chk, case, runner, dur, idxs, sc["rep_max"] + (v == "rep_max+1"), S.run_no)
        return ("foreign", v, "resumed")
    changed = []
    for i in have:
        if v in ("fixed_changed", "param_removed", "param_added", "fixed_type_changed", "fixed_float_close_changed",
                 "fixed_list_extended", "fixed_tuple_shortened"):
            changed.append(i)
        elif v in ("unpacked_value_changed", "unpacked_float_close_changed") and i == 1:
            changed.append(i)
        elif v == "unpacked_array_other_shape":
            changed.append(i)
    after = S.fs.image()
    if changed:
        if status == "completed":
            try:
                toks = [r.get_result_accumulated_values() for r in runner.results["v"]]
            except Exception:  # noqa  (single-index runs keep their result in the partial file only)
                toks = "(single-index run)"
            chk.fail(("foreign", v, "merged_instead_of_refused"), case,
                     observed="restart completed; tokens %r" % (toks,),
                     expected="an error: saved partial results belong to other parameters")
            return ("foreign", v, "merged")
        first = changed[0]
        rel = dur[first][1][3]
        if before_img.get(rel) != after.get(rel):
            chk.fail(("foreign", v, "refused_but_file_modified"), case, observed="file changed", expected="untouched")
        return ("foreign", v, "refused")
    if status != "completed":
        chk.fail(("foreign", v, "refused_without_foreign_file"), case, observed=repr(status),
                 expected="completes: no saved file with other parameters exists")
        return ("foreign", v, "raised")
    return ("foreign", v, "completed_nothing_to_refuse")


# ----------------------------------------------------------------------
def make_cost(sc):
    near = None
    if sc["calls"] == "near500":
        near = set([0, 1, 2, 498, 499, 500, 501, 502, 998, 999, 1000, 1001])

    def cost(label, alt):
        if label.startswith("call:"):
            k = int(label[5:])
            if alt == CRASH:
                if near is not None and (k % 501 not in near and k not in near):
                    return None
                return (1, 0, 0)
            if alt == SKIP:
                return (0, 1, 0)
            return (0, 0, 1)
        return (1, 0, 0)
    return cost


def explore_scenario(sc, chk, shard=None):
    ex_holder = []

    def run(ctx):
        case = dict(scenario=sc, choices="(see message)")
        # the default (deviation-free) run is executed by every shard of a split family but
        # judged and counted by shard 0 only
        judge = chk if (shard is None or shard[0] == 0 or any(ctx.prefix)) else chk.child_check()
        with judge.guard(("scenario",), case):
            o = execute(sc, ctx, judge)
            if judge is not chk:
                return
            chk.count("eval_scenarios")
            chk.outcome("result", o[:2])
            for p in (o[-1] if o and isinstance(o[-1], tuple) else ()):
                chk.outcome("restart_path", p)
            if o[0] == "foreign":
                chk.outcome("restart_path", "foreign_parameters:" + o[2])
            ncr = sum(1 for (a, l), c in zip(ctx.points, ctx.choices)
                      if c and (l.startswith("fs:") or c == CRASH))
            if ncr:
                chk.nontriv((_key(sc), tuple(ctx.choices)))
                chk.count("eval_crash_scenarios")
            if ncr and len(chk.samples) < 5 and len(ctx.choices) < 40:
                chk.sample(dict(scenario=sc, choices=list(ctx.choices),
                                points=[l for a, l in ctx.points], outcome=[str(x) for x in o]))

    ex = choice.Explorer(run, tuple(sc["budget"]), cost=make_cost(sc), horizon=20000)
    if shard is None:
        ex.explore()
    else:
        ex.explore_sharded(shard[0], shard[1])
    if shard is None or shard[0] == 0:
        chk.count("scenario_families")
    chk.extra["max_choice_points"] = max(chk.extra.get("max_choice_points", 0), ex.max_points)


def _key(sc):
    return (tuple(sorted(sc["lengths"].items())), sc["rep_max"], sc["fmt"], sc["delete"], sc["variant"],
            tuple(sc["keep"]), tuple(sc.get("plan") or ()), sc["torn"], tuple(sc["budget"]))


def main(chk):
    scs = scenarios(chk.tier)
    chk.assume("crash model = process kill: completed write() calls and open-truncations are durable, a crash "
               "inside a write keeps an arbitrary prefix; power-loss reordering is not modelled (no fsync exists)")
    chk.assume("a restart is a fresh runner object with the same (or the stated variant) parameters")
    tmp = chk.child_check()
    choice.check_determinism(lambda ctx: execute(scs[0], ctx, tmp), prefix=[0, 3, 0])

    order = sorted(range(len(scs)), key=lambda k: (-scs[k]["rep_max"] * (3 if scs[k]["torn"] == "every" else 1), k))

    # big families (every-byte torn writes, two crashes, 500-repetition runs) are split over all
    # shards below their first deviation; small ones are dealt whole
    def big(sc):
        return sc["torn"] == "every" or sc["budget"][0] >= 2 or sc["rep_max"] >= 499

    def worker(i, n, c):
        for k in order:
            if big(scs[k]):
                explore_scenario(scs[k], c, shard=(i, n))
        small = [k for k in order if not big(scs[k])]
        for k in shard(iter(small), i, n):
            explore_scenario(scs[k], c)

    run_shards(chk, worker)
    chk.extra["scenario_families"] = len(scs)
    chk.require_outcomes("restart_path", 4)


def replay(case, chk):
    sc = case["scenario"]
    ctx = choice.Ctx(list(case["choices"]), None, 20000)
    with chk.guard(("scenario",), case):
        execute(sc, ctx, chk)
