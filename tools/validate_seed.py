#!/usr/bin/env python3
"""tools/validate_seed.py SEED_DIR PID NAME [--also PID,PID] [--tier quick]

Validates one independently produced property-breaking change (SEED_DIR holds
patch.diff, demo.py, notes.md) and files it under /verif/seeded/NAME/:

 1. fresh scratch worktree of /repo HEAD under /tmp; the demo must exit 0 there;
 2. the patch must apply; the pinned test suite must still pass with it;
 3. the demo must exit 1 with it;
 4. `./check PID` (and --also) is run with VERIF_REPO=<worktree>: detected or missed;
 5. meta.json records all of that; the worktree is removed.
"""
import argparse
import json
import os
import shutil
import subprocess
import sys
import tempfile
import time

here = os.path.dirname(os.path.abspath(__file__))
root = os.path.dirname(here)

ap = argparse.ArgumentParser()
ap.add_argument("seed_dir")
ap.add_argument("pid")
ap.add_argument("name")
ap.add_argument("--also", default="")
ap.add_argument("--tier", default="quick")
ap.add_argument("--keep-unconfirmed", action="store_true")
ap.add_argument("--no-baseline", action="store_true", help="re-validation: reuse the recorded baseline result")
ap.add_argument("--base", default="HEAD", help="commit of /repo the patch is based on (default HEAD); used for seeds "
                "that a later fix: commit neutralised or that only apply to their original base")
a = ap.parse_args()

sd = os.path.abspath(a.seed_dir)
patch = os.path.join(sd, "patch.diff")
demo = os.path.join(sd, "demo.py")
assert os.path.exists(patch) and os.path.exists(demo), "patch.diff / demo.py missing in " + sd


def run(cmd, **kw):
    return subprocess.run(cmd, stdout=subprocess.PIPE, stderr=subprocess.STDOUT, text=True, **kw)


wt = tempfile.mkdtemp(prefix="vmc-seedwt-", dir="/tmp")
os.rmdir(wt)
meta = dict(property=a.pid, name=a.name, base_commit=run(["git", "-C", "/repo", "rev-parse", a.base]).stdout.strip(),
            validated_at=time.strftime("%Y-%m-%dT%H:%M:%S"), ran=[])
ok = True
try:
    run(["git", "-C", "/repo", "worktree", "add", "--detach", wt, a.base])
    env = dict(os.environ, PYTHONDONTWRITEBYTECODE="1", MPLBACKEND="Agg")
    r = run(["/venv/bin/python", "-B", demo, wt], env=env, cwd=wt)
    meta["demo_exit_clean"] = r.returncode
    meta["ran"].append("demo.py on clean tree -> exit %d" % r.returncode)
    r = run(["git", "-C", wt, "apply", patch])
    if r.returncode:
        print("PATCH DOES NOT APPLY:", r.stdout[-500:])
        sys.exit(3)
    prev = os.path.join(root, "seeded", a.name, "meta.json")
    if a.no_baseline and os.path.exists(prev) and json.load(open(prev)).get("baseline_ok"):
        pm = json.load(open(prev))
        meta["baseline_with_patch"] = pm.get("baseline_with_patch")
        meta["baseline_ok"] = True
        meta["ran"].append("tools/baseline.py <patched tree> -> passed when the seed was first validated (%s)"
                           % pm.get("validated_at"))
    else:
        r = run([sys.executable, os.path.join(here, "baseline.py"), wt])
        meta["baseline_with_patch"] = r.stdout.strip().splitlines()[-1] if r.returncode == 0 else r.stdout[-800:]
        meta["baseline_ok"] = r.returncode == 0
        meta["ran"].append("tools/baseline.py <patched tree> -> exit %d" % r.returncode)
    r = run(["/venv/bin/python", "-B", demo, wt], env=env, cwd=wt)
    meta["demo_exit_patched"] = r.returncode
    meta["demo_output_patched"] = r.stdout[-600:]
    meta["ran"].append("demo.py on patched tree -> exit %d" % r.returncode)
    confirmed = meta["demo_exit_clean"] == 0 and meta["demo_exit_patched"] != 0 and meta["baseline_ok"]
    meta["confirmed"] = confirmed
    det = {}
    for pid in [a.pid] + [p for p in a.also.split(",") if p]:
        env2 = dict(os.environ, VERIF_REPO=wt)
        t0 = time.time()
        r = run([os.path.join(root, "check"), pid, "--tier", a.tier], env=env2, cwd=root)
        sigs = [l.strip()[len("signature="):].split(" cases=")[0] for l in r.stdout.splitlines()
                if l.strip().startswith("signature=")]
        viol = [l for l in r.stdout.splitlines() if l.startswith("VIOLATION")]
        det[pid] = dict(exit=r.returncode, detected=(r.returncode == 1 and bool(viol)), signatures=sigs[:12],
                        wall_s=round(time.time() - t0, 1))
        meta["ran"].append("VERIF_REPO=<patched tree> ./check %s --tier %s -> exit %d" % (pid, a.tier, r.returncode))
        if r.returncode not in (0, 1):
            det[pid]["tail"] = r.stdout[-600:]
    meta["checks"] = det
    meta["detected"] = any(d["detected"] for d in det.values())
finally:
    run(["git", "-C", "/repo", "worktree", "remove", "--force", wt])
    shutil.rmtree(wt, ignore_errors=True)

out = os.path.join(root, "seeded", a.name)
if meta.get("confirmed") or a.keep_unconfirmed:
    os.makedirs(out, exist_ok=True)
    same = os.path.abspath(out) == sd
    if not same:
        shutil.copy(patch, os.path.join(out, "patch.diff"))
        shutil.copy(demo, os.path.join(out, "demo.py"))
    notes = os.path.join(sd, "notes.md")
    if os.path.exists(notes):
        if not same:
            shutil.copy(notes, os.path.join(out, "notes.md"))
        meta["needs_to_manifest"] = open(notes).read()[:1500]
    json.dump(meta, open(os.path.join(out, "meta.json"), "w"), indent=1)
print(json.dumps({k: meta.get(k) for k in ("name", "confirmed", "baseline_ok", "demo_exit_clean",
                                           "demo_exit_patched", "detected", "checks")}, indent=1))
