"""C03 - the output of a tapped-delay-line channel is the (time-varying)
convolution of the input with the impulse response the channel REPORTS AFTER
that transmission; the frequency-domain transmission is the per-block product
with the DFT of that same reported response at the selected bins; discretizing
a tap profile gives sorted unique integer delays with merged, normalised powers.

Engine E1 (exhaustive products over stated finite alphabets) plus short
histories (1-3 consecutive transmissions on the same channel object).

Part D  discretization: every ordered tuple of 1..4 raw taps at multiples of
        Ts/4 in [0, 3 Ts] (unsorted, colliding, round-half-even ties) x power
        patterns x Ts, against a pure-Python round/merge/normalise reference.
Part T  transmissions.  One *scenario* = channel configuration + a history of
        operations on ONE channel object.  Families:
          time   every profile x antennas x direction x generator x input
                 (thorough: additionally every ordered pair of raw taps)
          freq   every fft x selection (None / index arrays / all slices) x
                 blocks x antennas x direction x generator x profile
          hist   every sequence (<= 3) over a step alphabet mixing time and
                 frequency domain, every wrapper class
          ploss  every sequence (<= 2) of set_pathloss operations interleaved
                 with transmissions, Su/Mu wrappers
          lin    x1, x2, a x1 + b x2 on Fd = 0 channels (direct linearity)
          cost   built-in COST259 profiles at Ts = 3.25e-8 and 1e-6
          forms  1-D input for a single transmit antenna / transmitter, list
                 input, profile passed as object / discretized object
          longm  channel memory >= fft_size
          events set_num_antennas (incl. the documented None/None reset), switched_direction
                 toggled, generate_impulse_response called directly, set_pathloss - as
                 history events between transmissions (every sequence <= 2)
          scale  amplitudes 1e-12 / 1e12, path loss 1e-12 / 1, Ts 1e-9, tap spans of 150 dB
          dtype  complex64 / float / int signals x C / Fortran / strided / negative-stride /
                 time-major / read-only memory layouts (and lists)
          sizes  signal lengths and fft sizes around powers of two, 1023..1025, 4097
          multi  two live objects used alternately (separate / same profile object / second on a
                 get_similar_fading_generator() generator): each behaves like a lone object and
                 no operation on one changes the state digest of the other
          long   8 transmissions with an event (incl. invalid calls) after each
        Invalid calls ("bad_call" events in events/long: wrong number of streams / users, 1-D for
        MIMO, 2-D for SISO, length not a multiple of the block, carrier index out of range, path
        loss of the wrong shape / out of [0,1], non-bool direction; Part E for constructors and
        accessors) are OUTSIDE the property: whether they raise and whether they advance the
        fading / consume RNG draws / replace the stored response / apply part of a path-loss
        matrix is recorded as an outcome only.  Required is that the object stays a coherent
        channel: the reference model is re-synchronised from the object's own state (fading
        position, direction, per-link path loss) and every later VALID transmission must satisfy
        all relations; a failure there is signed after_invalid_call|<what>|....
        Falsy-but-valid arguments: path loss 0 / 0.0 / int 0 / int 1, Fd 0, a zero-power
        (-inf dB) tap, single-sample signals, fft_size 1..3, direction toggled back and forth.
        Argument aliasing is exercised in EVERY scenario: signal / selection / profile /
        path-loss arrays must be bit-identical after each call; the caller re-uses ONE
        array object per shape for consecutive signals and selections (in-place new
        content) and overwrites its profile and path-loss arrays after handing them
        over; arrays returned by the library (outputs, reported taps, frequency
        responses) are overwritten with NaN by the caller (even transmissions) or
        kept and compared after the next call (odd transmissions).
        Defects of the library that stop a scenario (a valid request raising) are
        reported under their own precise signature and the scenario is counted
        as cut short; everything else an exception is a violation via chk.guard.
Oracle  gather-form nested loops
          y[o][m] = sum_d sum_a h[d][o][a][m-d] x[a][m-d]
        with h the taps of get_last_impulse_response() queried after the
        transmission (own dense expansion of the sparse taps), own output
        length N + max(own discretized delay); frequency domain: O(N^2) DFT
        sum_d h[d] exp(-2 pi j bin d / fft) at bins range(fft)[selection].
        Multi-user: superposition of the links.  For Jakes generators the
        reported taps are additionally compared with sqrt(P_tap [* pathloss]) times
        the samples of a COPY of the link's generator driven through the generator's
        public API by a reference model of the sample consumption (a time-domain
        transmission of N symbols consumes N fading samples, a frequency-domain
        block one sample + fft_size - 1 skipped).  No private field of the channel
        classes is named except the three that lead to a Mu link's generator
        (looked up by candidate names; the relation is skipped and counted when
        they are unavailable).  State digests are bfs.digest(bfs.state_of(obj)).
        An exception raised by the check's own code is Broken (exit 2), never a
        violation.
"""
import cmath
import itertools
import math

import numpy as np

import copy
import hashlib
import os
import traceback
from contextlib import contextmanager

from vmc import bfs, common, numerics
from vmc.parallel import run_shards
from vmc.report import Broken, Check

MISSING = object()
UNKNOWN = "unknown"        # a path loss the reference model cannot know (after an invalid set_pathloss)


def _private(obj, *candidate_names, default=MISSING):
    """the first existing attribute among the candidate (private) names, else `default` - never an
    AttributeError: a relation whose oracle input is unavailable is skipped and counted"""
    for name in candidate_names:
        v = getattr(obj, name, MISSING)
        if v is not MISSING:
            return v
    return default


@contextmanager
def own_errors_are_broken():
    """an exception whose innermost relevant frame is the check's own code (checks/ or vmc/) says
    nothing about the property: the check is broken (exit 2), it is not a violation"""
    try:
        yield
    except (Broken, KeyboardInterrupt, SystemExit):
        raise
    except BaseException as e:  # noqa
        own = (os.path.join(common.VERIF_DIR, "checks") + os.sep, os.path.join(common.VERIF_DIR, "vmc") + os.sep)
        for fr in reversed(traceback.extract_tb(e.__traceback__)):
            f = os.path.abspath(fr.filename)
            if "/pyphysim/" in f:
                raise                       # raised by the library: the caller's guard decides
            if f.startswith(own):
                raise Broken("exception in the check's own code (%s:%d in %s): %s: %s"
                             % (os.path.basename(f), fr.lineno, fr.name, type(e).__name__, e)) from e
        raise

PID = "C03"
LEVEL = "exploration"
ENGINE = "E1 exhaustive product + histories of 1-3 transmissions on one channel object"
RULE = ("D: every ordered tuple of 1..4 raw tap delays q*Ts/4, q in 0..12, x power patterns over "
        "{0,-3,-10,-30} dB x Ts in {1,1e-3,3.25e-8} (4-tap tuples: non-decreasing + reversed in quick, "
        "all ordered in thorough). T: every scenario of the families time/freq/hist/ploss/lin/cost/"
        "forms/longm (module docstring): wrapper class x antennas x direction x generator x profile x "
        "operation history; each transmission is compared with the nested-loop convolution / O(N^2) DFT "
        "of the impulse response reported after it; families events/scale/dtype/sizes add history events, "
        "numeric scales, dtypes/layouts and size thresholds; caller-side aliasing (re-used argument "
        "objects, overwritten returned arrays) is applied in every scenario. Non-trivial: a transmission with channel memory > 0 "
        "or more than one antenna/link or a proper subcarrier selection; distinct = distinct "
        "(family, wrapper, antennas, direction, generator, discretized delays, operation kinds)")

C_TOL = 64.0            # |lhs-rhs| <= C_TOL * eps * terms * max|h| * max|x|
POW_RTOL = 1e-12        # powers after the dB round trip
JAKES_L = 5
LIN_A = 2.0 - 1.0j
LIN_B = -0.5 + 3.0j
POWERS = (0.0, -3.0, -10.0, -30.0)
TS_ALL = (1.0, 1e-3, 3.25e-8)


# ----------------------------------------------------------------------
# reference model: discretization
# ----------------------------------------------------------------------
def raw_profile(qs, pws, Ts):
    """raw (un-discretized) delays in seconds and powers in dB"""
    return (np.array([q * (Ts / 4.0) for q in qs], dtype=float),
            np.array([float(p) for p in pws], dtype=float))


def ref_discretize(delays, powers_dB, Ts):
    """round-half-even of the float quotient, merge colliding taps, normalise.
    -> (sorted unique int delays, linear powers summing to one)"""
    idx = [round(float(d) / float(Ts)) for d in delays]     # Python round: half-even, exact
    lin = [10.0 ** (float(p) / 10.0) for p in powers_dB]
    acc = {}
    for i, v in zip(idx, lin):
        acc[i] = acc.get(i, 0.0) + v
    keys = sorted(acc)
    tot = math.fsum(acc[k] for k in keys)
    return keys, [acc[k] / tot for k in keys]


def cost_profile(name):
    from pyphysim.channels import fading
    return {"TU": fading.COST259_TUx, "RA": fading.COST259_RAx, "HT": fading.COST259_HTx}[name]


def profile_arrays(case):
    """raw delays / powers of the scenario's profile (own copy)"""
    p = case["profile"]
    if p[0] == "custom":
        return raw_profile(p[1], p[2], case["Ts"])
    prof = cost_profile(p[1])
    return np.array(prof.tap_delays, dtype=float), np.array(prof.tap_powers_dB, dtype=float)


# ----------------------------------------------------------------------
# Part D
# ----------------------------------------------------------------------
def power_patterns(k):
    if k == 1:
        return [(p,) for p in POWERS]
    if k == 2:
        return list(itertools.product(POWERS, repeat=2))
    if k == 3:
        return [(0.0, -3.0, -10.0), (-30.0, 0.0, -3.0), (-10.0, -10.0, 0.0), (0.0, -30.0, -30.0),
                (-3.0, -3.0, -3.0), (-30.0, -10.0, 0.0)]
    return [(0.0, -3.0, -10.0, -30.0), (-30.0, -10.0, -3.0, 0.0), (-3.0, 0.0, -3.0, 0.0)]


def d_cases(tier):
    qs_all = range(13)
    for k in (1, 2, 3, 4):
        if k < 4 or tier == "thorough":
            tuples = itertools.product(qs_all, repeat=k)
        else:
            nd = list(itertools.combinations_with_replacement(qs_all, 4))
            tuples = itertools.chain(nd, (t[::-1] for t in nd if t[::-1] != t))
        for qs in tuples:
            for pw in power_patterns(k):
                for Ts in TS_ALL:
                    yield {"part": "D", "q": list(qs), "p": list(pw), "Ts": Ts}


def d_cases_scale(tier):
    """numeric scale: Ts = 1e-9 and tap powers spanning 100+ dB"""
    for k, pats in ((1, [(0.0,), (-150.0,)]),
                    (2, [(0.0, -120.0), (-150.0, 0.0), (-60.0, -60.0)]),
                    (3, [(0.0, -60.0, -120.0), (-140.0, 0.0, -3.0)])):
        for qs in itertools.product(range(13), repeat=k):
            for pw in pats:
                for Ts in (1e-9, 1.0):
                    yield {"part": "D", "q": list(qs), "p": list(pw), "Ts": Ts}


def check_discretization(case, chk):
    from pyphysim.channels import fading
    qs, pw, Ts = case["q"], case["p"], case["Ts"]
    delays, powers = raw_profile(qs, pw, Ts)
    d0, p0 = delays.copy(), powers.copy()
    chk.count("eval_discretizations")
    keys, pl = ref_discretize(d0, p0, Ts)
    try:
        prof = fading.TdlChannelProfile(powers, delays)
    except ValueError as e:
        if "math domain error" in str(e) and len(set(d0.tolist())) == 1:
            # all raw taps at one delay: the delay spread is zero and its rounding residue is negative
            chk.count("zero_spread_profiles_rejected")
            chk.fail(("TdlChannelProfile", "constructor", "zero_delay_spread",
                      "sqrt_of_negative_rounding_residue"), case,
                     observed="%s: %s" % (type(e).__name__, e),
                     expected="a profile whose taps share one delay is valid (rms delay spread 0)")
            return
        raise
    # the caller's arrays are bit-identical after construction, and the profile owns its data: the
    # caller overwriting its arrays afterwards changes nothing
    if not (np.array_equal(delays, d0) and np.array_equal(powers, p0)):
        chk.fail(("discretize", "constructor_arguments_mutated"), case)
    delays[...] = delays * 3.0 + 7.0 * Ts
    powers[...] = -1.0
    disc = prof.get_discretize_profile(Ts)
    got_d = np.asarray(disc.tap_delays)
    k = len(qs)
    collide = len(keys) < k
    cond = "colliding" if collide else ("unsorted" if list(qs) != sorted(qs) else "sorted_distinct")
    if got_d.dtype.kind not in "iu" or got_d.tolist() != keys:
        chk.fail(("discretize", "delays", cond), case, observed=got_d, expected=keys)
        return
    got_p = np.asarray(disc.tap_powers_linear, dtype=float)
    if got_p.shape != (len(keys),) or not np.all(np.abs(got_p - np.array(pl)) <= POW_RTOL * np.array(pl)):
        chk.fail(("discretize", "powers", cond), case, observed=got_p, expected=pl)
        return
    if abs(float(np.sum(got_p)) - 1.0) > POW_RTOL:
        chk.fail(("discretize", "powers_sum", cond), case, observed=float(np.sum(got_p)), expected=1.0)
    got_db = np.asarray(disc.tap_powers_dB, dtype=float)
    if not np.all(np.abs(got_db - 10.0 * np.log10(np.array(pl))) <= 1e-9):
        chk.fail(("discretize", "powers_dB", cond), case, observed=got_db,
                 expected=10.0 * np.log10(np.array(pl)))
    if disc.Ts != Ts or not disc.is_discretized or prof.is_discretized or prof.Ts is not None:
        chk.fail(("discretize", "Ts_bookkeeping"), case, observed=(disc.Ts, prof.Ts), expected=(Ts, None))
    if disc.num_taps != len(keys) or int(disc.num_taps_with_padding) != keys[-1] + 1:
        chk.fail(("discretize", "num_taps", cond), case,
                 observed=(disc.num_taps, int(disc.num_taps_with_padding)),
                 expected=(len(keys), keys[-1] + 1))
    if not (np.array_equal(prof.tap_delays, d0) and np.array_equal(prof.tap_powers_dB, p0)):
        chk.fail(("discretize", "source_profile_changed"), case,
                 msg="by discretizing it or by the caller overwriting the arrays it was built from")
    # a discretized profile must refuse a second discretization
    try:
        disc.get_discretize_profile(Ts)
        chk.outcome("invalid_call_behaviour", ("rediscretize", "accepted", "-"))
    except RuntimeError:
        chk.outcome("invalid_call_behaviour", ("rediscretize", "RuntimeError", "-"))
    chk.outcome("delay_sets", tuple(keys))
    chk.outcome("merge_patterns", (k, len(keys)))
    if any(q % 4 == 2 for q in qs):          # q/4 = x.5: a round-half-even tie
        chk.count("d_cases_with_half_tie")
    if collide or list(qs) != sorted(qs):
        chk.nontriv(("D", tuple(qs), Ts == 1.0))


# ----------------------------------------------------------------------
# input signals (closed form; the seed only rotates the phase of "expo")
# ----------------------------------------------------------------------
def make_input(kind, users, ants, n):
    """-> complex/real array of shape (users, ants, n).  kind is a list:
    ["impulse", stream, pos] | ["ramp"] | ["ramp_int"] | ["expo"] | ["expo2"]"""
    name = kind[0]
    if name == "impulse":
        X = np.zeros((users, ants, n), dtype=complex)
        s, pos = int(kind[1]), int(kind[2])
        X[s // ants, s % ants, pos] = 1.0
        return X
    if name == "ramp_int":
        X = np.zeros((users, ants, n), dtype=np.int64)
        for u in range(users):
            for a in range(ants):
                X[u, a, :] = np.arange(1, n + 1) * (1 if (u + a) % 2 == 0 else -1) + 3 * u + a
        return X
    X = np.zeros((users, ants, n), dtype=complex)
    off = 2 * math.pi * common.seed_offset(3)
    for u in range(users):
        for a in range(ants):
            s = u * ants + a
            k = np.arange(n)
            if name == "ramp":
                X[u, a, :] = (k + 1) + 0.5 * s + 1j * (0.25 * (s + 1) * k - 0.5 * s)
            elif name == "expo":
                X[u, a, :] = (1 + 0.1 * s) * np.exp(1j * (0.7 * k + 1.3 * s + off))
            elif name == "expo2":
                X[u, a, :] = (0.8 + 0.05 * s) * np.exp(-1j * (1.1 * k * k / 7.0 + 0.4 * s + off)) + 0.1 * k
            else:
                raise ValueError(kind)
    return X


# ----------------------------------------------------------------------
# channel construction
# ----------------------------------------------------------------------
def pathloss_value(tag, shape):
    """deterministic path-loss values; tag 'v1'/'v2' (scalar or matrix)"""
    if shape is None:
        return {"v1": 0.25, "v2": 0.04, "tiny": 1e-12, "one": 1.0, "zero": 0.0, "izero": 0, "ione": 1}[tag]
    r, t = shape
    m = np.empty((r, t), dtype=float)
    for i in range(r):
        for j in range(t):
            if tag == "v1":
                m[i, j] = 1.0 / (1 + i * t + j)
            elif tag == "v2":
                m[i, j] = 0.9 ** (1 + 2 * i + 3 * j)
            elif tag == "tiny":
                m[i, j] = 1e-12 * (1 + i * t + j)
            elif tag == "one":
                m[i, j] = 1.0 if (i + j) % 2 == 0 else 1e-6
            elif tag in ("zero", "izero", "ione"):
                m[i, j] = (0.0 if (i + j) % 2 == 0 else 1.0) if tag != "ione" else 1.0
            else:
                raise ValueError(tag)
    return m.astype(np.int64) if tag in ("izero", "ione") else m


class Sut:
    """system under test + the little the reference model has to know"""

    def __init__(self, case, shared=None, index=0):
        """shared: pieces of an earlier Sut of the same scenario that this object is built on
        ({"gen": generator object, "cnt": its sample-counter cell} and/or {"profile_obj": profile})"""
        from pyphysim.channels import fading, fading_generators as fg, multiuser, singleuser
        shared = shared or {}
        self.case = case
        w = case["wrapper"]
        self.w = w
        self.family = "mu" if w.startswith("mu") else ("su" if w.startswith("su") else "tdl")
        ant = case.get("ant")
        self.ant = None if ant is None else (int(ant[0]), int(ant[1]))
        self.mimo = self.ant is not None
        N = case.get("N")
        if self.family == "mu":
            self.N = (int(N), int(N)) if isinstance(N, (int, np.integer)) else (int(N[0]), int(N[1]))
        else:
            self.N = (1, 1)
        self.Ts = float(case["Ts"])
        g = case["gen"]
        self.jakes = g[0] == "jakes"
        self.Fd = float(g[1]) if self.jakes else None
        seed = int(case["seed"]) + 50 * index
        np.random.seed(seed)        # owns Rayleigh taps and the phases of "similar" Jakes generators
        gshape = self.ant if (w in ("tdl", "tdlmimo", "su")) else None
        self._cnt = shared.get("cnt", [0])        # fading samples consumed (shared with the generator)
        if "gen" in shared:
            gen = shared["gen"]          # a "similar" generator derived from the first object's one
        elif self.jakes:
            gen = fg.JakesSampleGenerator(Fd=self.Fd, Ts=self.Ts, L=JAKES_L, shape=gshape,
                                          RS=np.random.RandomState(seed + 1))
        else:
            gen = fg.RayleighSampleGenerator(shape=gshape)
        if case.get("objects") == "similar_generator" and index == 0:
            # derived before any channel takes the generator over (as MuChannel does for its links)
            self.similar_gen = gen.get_similar_fading_generator()
        delays, powers = profile_arrays(case)
        self.ref_idx, self.ref_pow = ref_discretize(delays, powers, self.Ts)
        self.memory = self.ref_idx[-1]
        form = case.get("profile_form", "arrays")
        kw = {}
        p_arg, d_arg = powers.copy(), delays.copy()      # the caller's arrays (checked, then overwritten)
        if form == "arrays":
            kw = dict(tap_powers_dB=p_arg, tap_delays=d_arg)
        elif "profile_obj" in shared:
            kw = dict(channel_profile=shared["profile_obj"])
        elif form == "object":
            kw = dict(channel_profile=(cost_profile(case["profile"][1]) if case["profile"][0] == "cost259"
                                       else fading.TdlChannelProfile(p_arg, d_arg)))
        elif form == "discretized":
            kw = dict(channel_profile=fading.TdlChannelProfile(p_arg, d_arg)
                      .get_discretize_profile(self.Ts))
        else:
            raise ValueError(form)
        self.gen_obj = gen
        self.profile_obj = kw.get("channel_profile")
        Ts_arg = self.Ts if case.get("pass_Ts", True) else None
        if w == "tdl":
            ch = fading.TdlChannel(gen, Ts=Ts_arg, **kw)
        elif w == "tdlmimo":
            ch = fading.TdlMimoChannel(gen, Ts=Ts_arg, **kw)
        elif w == "su":
            ch = singleuser.SuChannel(gen, Ts=Ts_arg, **kw)
        elif w == "su_setant":
            ch = singleuser.SuChannel(gen, Ts=Ts_arg, **kw)
            ch.set_num_antennas(self.ant[0], self.ant[1])
        elif w == "sumimo":
            assert self.ant[0] == self.ant[1]
            ch = singleuser.SuMimoChannel(self.ant[0], gen, Ts=Ts_arg, **kw)
        elif w == "mu":
            ch = multiuser.MuChannel(self.N if self.N[0] != self.N[1] or case.get("N_as_tuple") else self.N[0],
                                     gen, Ts=Ts_arg, **kw)
        elif w == "mumimo":
            ch = multiuser.MuMimoChannel(self.N if self.N[0] != self.N[1] else self.N[0],
                                         self.ant[0], self.ant[1], gen, Ts=Ts_arg, **kw)
        else:
            raise ValueError(w)
        self.ch = ch
        # the caller's profile arrays are bit-identical after construction; afterwards the caller
        # re-uses them for something else (the channel must not alias them)
        self.profile_args_intact = bool(np.array_equal(p_arg, powers) and np.array_equal(d_arg, delays))
        if case["profile"][0] == "custom":
            p_arg[...] = -1.0
            d_arg[...] = d_arg * 3.0 + 7.0 * self.Ts
        self.buffers = {}                         # (kind, shape, dtype) -> array object re-used by the caller
        self.ntx = 0                              # transmissions so far
        self.retained = []                        # (what, array object, copy) returned earlier, kept by the caller
        self.switched = bool(case.get("switched", False))
        if self.switched:
            ch.switched_direction = True
        # reference model state
        self.pl = {}                              # (i,j) -> current linear path loss or None
        for i in range(self.N[0]):
            for j in range(self.N[1]):
                self.pl[(i, j)] = None
        self.results = []                         # (X, outputs) of the transmissions so far
        self.after_invalid = None                 # kind of the last invalid call made on this object
        self.clone = {}                           # (i,j) -> own copy of that link's fading generator
        self.reclone()

    def link_generator(self, i, j):
        """the fading generator object of a link: the one this check constructed and passed in (single
        link wrappers), else - Mu channels build their links' generators themselves - looked up by
        candidate names; None when unavailable"""
        if self.family != "mu":
            return self.gen_obj
        links = _private(self.ch, "_su_siso_channels", "_su_channels", "_links")
        if links is MISSING:
            return None
        try:
            su = links[i, j]
        except Exception:  # noqa
            return None
        tdl = _private(su, "_tdlchannel", "_tdl_channel", "_tdl", "_channel")
        g = MISSING if tdl is MISSING else _private(tdl, "_fading_generator", "_generator", "fading_generator")
        return None if g is MISSING else g

    def reclone(self):
        """(re)start the fading reference: a shallow copy of every link's (Jakes) generator, from now on
        driven through the generator's PUBLIC API (generate_more_samples / get_samples /
        skip_samples_for_next_generation) according to the reference model of the sample consumption.
        Called at construction, after the antenna shape changed (phases are redrawn) and after an
        invalid call (which may or may not have advanced the fading)."""
        self.clone = {}
        if not self.jakes:
            return
        for (i, j) in self.pl:
            g = self.link_generator(i, j)
            self.clone[(i, j)] = None if g is None else copy.copy(g)

    def resync_after_invalid_call(self, what):
        """an invalid call may or may not have advanced the fading, replaced the stored response or
        applied part of a path-loss matrix: continue from the state the object itself now holds.
        Direction: public property.  Fading: re-copied generators.  Path loss has no public per-link
        accessor: after an invalid set_pathloss it is UNKNOWN to the model until the next valid set
        (the fading reference is then compared up to one real factor in [0, 1] per link)."""
        self.reclone()
        self.switched = bool(self.ch.switched_direction)
        if what.startswith("pathloss"):
            for link in self.pl:
                self.pl[link] = UNKNOWN
        self.retained = []

    @property
    def counter(self):
        return self._cnt[0]

    @counter.setter
    def counter(self, v):
        self._cnt[0] = v

    def digest(self, rng=True):
        """everything a later transmission depends on: the generic digest of the whole object graph
        (no field is named) and, optionally, the state of the global numpy RNG"""
        d = bfs.digest(bfs.state_of(self.ch), 17)
        if rng:
            st = np.random.get_state()
            d += hashlib.sha1(np.asarray(st[1]).tobytes() + repr(st[2:]).encode()).hexdigest()[:12]
        return d

    # dimensions seen by a transmission
    def dims(self):
        """-> (users_in, ants_in, users_out, ants_out)"""
        nr, nt = self.ant if self.mimo else (1, 1)
        R, T = self.N
        if self.switched:
            return R, nr, T, nt
        return T, nt, R, nr

    def reported(self, i, j):
        if self.family == "mu":
            return self.ch.get_last_impulse_response(i, j)
        return self.ch.get_last_impulse_response()

    def api_signal(self, X, form):
        """canonical (users, ants, n) -> what the API takes"""
        users, ants, n = X.shape
        if self.family != "mu":
            if not self.mimo:
                return np.array(X[0, 0])
            if form == "1d":
                assert ants == 1
                return np.array(X[0, 0])
            return np.array(X[0])
        if not self.mimo:
            if form == "1d":
                assert users == 1
                return np.array(X[0, 0])
            if form == "list":
                return [np.array(X[u, 0]) for u in range(users)]
            return np.array(X[:, 0, :])
        if form == "list":
            return [np.array(X[u]) for u in range(users)]
        return np.array(X)

    def normalise_output(self, y, length):
        """API output -> list over out-users of 2-D arrays (ants_out, length); None + reason if malformed"""
        _, _, uo, ao = self.dims()
        if self.family != "mu":
            y = np.asarray(y)
            want = (ao, length) if self.mimo else (length,)
            if y.shape != want:
                return None, "shape %r expected %r" % (y.shape, want)
            return [y.reshape(ao, length)], None
        if not isinstance(y, np.ndarray) or y.shape != (uo,):
            return None, "container %r expected object array of shape (%d,)" % (np.shape(y), uo)
        out = []
        want = (ao, length) if self.mimo else (length,)
        for v in range(uo):
            e = np.asarray(y[v])
            if e.shape != want:
                return None, "receiver %d shape %r expected %r" % (v, e.shape, want)
            out.append(e.reshape(ao, length))
        return out, None


# ----------------------------------------------------------------------
# oracles
# ----------------------------------------------------------------------
def link_coefficients(sut, resp, nsamples, chk, sigbase, case):
    """validate one reported TdlImpulseResponse and return (idx list, C) with
    C[l][o][a][n] = coefficient from in-antenna a to out-antenna o (direction applied)."""
    idx = np.asarray(resp.tap_indexes_sparse)
    vals = np.asarray(resp.tap_values_sparse)
    if idx.dtype.kind not in "iu" or idx.tolist() != sut.ref_idx:
        chk.fail(sigbase + ("reported_tap_indexes",), case, observed=idx, expected=sut.ref_idx)
        return None
    L = len(sut.ref_idx)
    want = (L,) + (sut.ant if sut.mimo else ()) + (nsamples,)
    if vals.shape != want:
        chk.fail(sigbase + ("reported_response_shape",), case, observed=vals.shape, expected=want,
                 msg="one sample per input symbol (time) / per block (frequency)")
        return None
    if not np.all(np.isfinite(vals)):
        chk.fail(sigbase + ("reported_response_not_finite",), case)
        return None
    # own dense expansion vs the library's dense view
    dense = np.zeros((sut.memory + 1,) + want[1:], dtype=complex)
    for l, d in enumerate(sut.ref_idx):
        dense[d] = vals[l]
    lib_dense = np.asarray(resp.tap_values)
    if lib_dense.shape != dense.shape or not np.array_equal(lib_dense, dense):
        chk.fail(sigbase + ("reported_dense_taps",), case, observed=lib_dense.shape, expected=dense.shape)
        return None
    if resp.num_samples != nsamples:
        chk.fail(sigbase + ("reported_num_samples",), case, observed=resp.num_samples, expected=nsamples)
    C = vals.reshape(L, 1, 1, nsamples) if not sut.mimo else vals
    if sut.switched:
        C = np.transpose(C, (0, 2, 1, 3))
    return sut.ref_idx, C


def ref_conv(idx, C, X, n, memory):
    """gather form: y[o][m] = sum_l sum_a C[l][o][a][m-d_l] X[a][m-d_l]"""
    Cl = C.tolist()
    Xl = [[complex(v) for v in row] for row in X.tolist()]
    n_out, n_in = C.shape[1], C.shape[2]
    out = np.zeros((n_out, n + memory), dtype=complex)
    for o in range(n_out):
        for m in range(n + memory):
            acc = 0j
            for l, d in enumerate(idx):
                k = m - d
                if 0 <= k < n:
                    for a in range(n_in):
                        acc += Cl[l][o][a][k] * Xl[a][k]
            out[o, m] = acc
    return out


def ref_freq(idx, C, X, fft, bins, blocks, drop_beyond_fft=False):
    """y[o][b*bs+k] = sum_a (sum_l C[l][o][a][b] e^{-2 pi j bin_k d_l / fft}) X[a][b*bs+k]"""
    Cl = C.tolist()
    Xl = [[complex(v) for v in row] for row in X.tolist()]
    n_out, n_in = C.shape[1], C.shape[2]
    bs = len(bins)
    W = [[(0j if (drop_beyond_fft and d >= fft) else cmath.exp(-2j * math.pi * ((bn * d) % fft) / fft))
          for d in idx] for bn in bins]
    out = np.zeros((n_out, bs * blocks), dtype=complex)
    for b in range(blocks):
        for k in range(bs):
            w = W[k]
            for o in range(n_out):
                acc = 0j
                for a in range(n_in):
                    H = 0j
                    for l in range(len(idx)):
                        H += Cl[l][o][a][b] * w[l]
                    acc += H * Xl[a][b * bs + k]
                out[o, b * bs + k] = acc
    return out


def selection_bins(fft, sel):
    """the bins range(fft)[selection]"""
    if sel is None:
        return list(range(fft))
    if isinstance(sel, slice):
        return list(range(fft))[sel]
    r = list(range(fft))
    return [r[int(i)] for i in (sel.tolist() if isinstance(sel, np.ndarray) else sel)]


def fading_expected(sut, link, op, n, fft=None):
    """sqrt(P_tap) * the fading samples the link's generator yields when it is driven as the reference
    model says: a time-domain transmission (or a direct generate_impulse_response) of n symbols
    consumes n samples; a frequency-domain block uses one sample and skips fft_size - 1.
    -> array (L, [nr, nt,] n) without path loss, or None when the generator is unavailable"""
    cl = sut.clone.get(link)
    if cl is None:
        return None
    if op == "freq":
        parts = []
        for _ in range(n):
            cl.generate_more_samples(1)
            parts.append(np.array(cl.get_samples()))
            cl.skip_samples_for_next_generation(fft - 1)
        smp = np.concatenate(parts, axis=-1)
    else:
        cl.generate_more_samples(n)
        smp = np.array(cl.get_samples())
    p = np.sqrt(np.array(sut.ref_pow)).reshape((len(sut.ref_pow),) + (1,) * (smp.ndim - 1))
    return smp * p


def check_response_api(sut, resp, chk, base, case):
    """the other public views of a reported TdlImpulseResponse agree with its sparse taps"""
    from pyphysim.channels import fading
    vals = np.array(resp.tap_values_sparse)
    if resp.Ts != sut.Ts or not np.array_equal(np.asarray(resp.tap_delays_sparse),
                                               np.array(sut.ref_idx) * sut.Ts):
        chk.fail(base + ("reported_response_Ts_or_delays",), case)
    if resp.channel_profile is not sut.ch.channel_profile:
        chk.fail(base + ("reported_response_profile_is_not_the_channel_profile",), case)
    for scaled, what in ((resp * 2.0, "__mul__"), (2.0 * resp, "__rmul__")):
        if (not isinstance(scaled, fading.TdlImpulseResponse) or scaled is resp
                or not np.array_equal(np.asarray(scaled.tap_values_sparse), 2.0 * vals)
                or not np.array_equal(np.asarray(resp.tap_values_sparse), vals)
                or scaled.channel_profile is not resp.channel_profile):
            chk.fail(base + ("TdlImpulseResponse." + what,), case)
    a, b = resp * 1.0, resp * 0.5
    cat = fading.TdlImpulseResponse.concatenate_samples([a, b, a])
    if (not np.array_equal(np.asarray(cat.tap_values_sparse), np.concatenate([vals, 0.5 * vals, vals], axis=-1))
            or cat.num_samples != 3 * vals.shape[-1] or fading.TdlImpulseResponse.concatenate_samples([a]) is not a):
        chk.fail(base + ("TdlImpulseResponse.concatenate_samples",), case)
    try:
        fading.TdlImpulseResponse.concatenate_samples([])
        chk.fail(base + ("TdlImpulseResponse.concatenate_samples", "empty_list_accepted"), case)
    except ValueError:
        pass


def check_fading(sut, link, resp, n, op, chk, case, fft=None):
    """reported taps == sqrt(P_tap [* pathloss]) * fading samples of the link's generator at the
    reference model's position; tolerance relative to the amplitude of each tap"""
    if not sut.jakes:
        return
    want = fading_expected(sut, link, op, n, fft)
    if want is None:
        chk.outcome("oracle_input_unavailable", ("fading_generator_of_link", sut.family))
        chk.count("skipped_fading_reference_links")
        return
    chk.count("links_fading_reference_checked")
    vals = np.asarray(resp.tap_values_sparse)
    rel = 1e-9 + 2 * math.pi * sut.Fd * sut.Ts * 4e-10 * (sut.counter + 2)
    pl = sut.pl[link]
    what = None
    if vals.shape != want.shape or not np.all(np.isfinite(vals)):
        what, dev = "sample_time", float("inf")
    else:
        unknown = isinstance(pl, str)
        if unknown:
            # path loss unknown to the model: one real factor in [0, 1] per link
            alpha = complex(np.vdot(want, vals) / max(float(np.vdot(want, want).real), 1e-300))
            factor = alpha.real
            bad_factor = abs(alpha.imag) > 1e-9 or not (-1e-12 <= alpha.real <= 1.0 + 1e-9)
        else:
            factor = 1.0 if pl is None else math.sqrt(pl)
            bad_factor = False
        amp = np.sqrt(np.array(sut.ref_pow)) * abs(factor)
        d = np.abs(vals - factor * want).reshape(len(amp), -1).max(axis=1)
        dev = float(np.max(d / np.maximum(amp, 1e-300))) if np.any(amp > 0) else float(np.max(d))
        if bad_factor:
            what = "constant_factor"
        elif not dev <= rel and (np.any(amp > 0) or dev > 0):
            what = "sample_time"
            alpha = complex(np.vdot(want, vals) / max(float(np.vdot(want, want).real), 1e-300))
            d2 = np.abs(vals - alpha * want).reshape(len(amp), -1).max(axis=1)
            a2 = np.sqrt(np.array(sut.ref_pow)) * abs(alpha)
            if np.any(a2 > 0) and float(np.max(d2 / np.maximum(a2, 1e-300))) <= rel:
                what = "constant_factor"      # a wrong tap power / path-loss factor, not a wrong fading time
    if what is not None:
        chk.fail(("reported_response", "fading_reference", what, op), case,
                 observed=("max per-tap relative deviation %.3g" % dev) if vals.shape == want.shape else vals.shape,
                 expected="<= %.3g" % rel,
                 msg="reported taps vs sqrt(P_tap [* pathloss]) * samples of the link's fading generator driven "
                     "through its public API (n samples per time-domain transmission, 1 + skip fft_size-1 per block)")


# ----------------------------------------------------------------------
# one transmission
# ----------------------------------------------------------------------
DTYPES = {"c128": np.complex128, "c64": np.complex64, "f64": np.float64, "f32": np.float32,
          "i64": np.int64, "i32": np.int32}


def cast_input(X, dtype):
    """the canonical (users, ants, n) input with values exactly representable in `dtype`"""
    if dtype is None:
        return X
    dt = np.dtype(DTYPES[dtype])
    if dt.kind == "c":
        return X.astype(dt)
    R = np.real(X)
    return R.astype(dt) if dt.kind == "f" else np.rint(R).astype(dt)


def lay_out(a, layout):
    """the same values in another memory layout / with the write flag cleared"""
    a = np.array(a)
    if layout in (None, "c"):
        return a
    if layout == "f":
        return np.asfortranarray(a)
    if layout == "strided":
        buf = np.zeros(a.shape[:-1] + (2 * a.shape[-1] + 1,), dtype=a.dtype)
        buf[..., 1::2] = a
        return buf[..., 1::2]
    if layout == "neg":
        return np.ascontiguousarray(a[..., ::-1])[..., ::-1]
    if layout == "tfirst":
        return np.moveaxis(np.ascontiguousarray(np.moveaxis(a, -1, 0)), 0, -1)
    if layout == "readonly":
        a.flags.writeable = False
        return a
    if layout == "readonly_f":
        a = np.asfortranarray(a)
        a.flags.writeable = False
        return a
    raise ValueError(layout)


def prepare_signal(sut, step, ui, ai, n):
    """-> (X complex canonical values actually sent, API argument, bit-copy of the API argument).
    A C-ordered array argument is written into the SAME array object the caller used for the previous
    signal of that shape and dtype (identity-keyed caches would go stale)."""
    if "_X" in step:
        X = step["_X"]
    else:
        X = make_input(step["x"], ui, ai, n)
        k = sut.ntx
        if k:        # every transmission of a history sends different values
            X = X + k if X.dtype.kind in "iu" else X * ((1 + 0.25 * k) * cmath.exp(0.3j * k))
        if "amp" in step:
            X = X * float(step["amp"])
    Xd = cast_input(X, step.get("dtype"))
    X = Xd.astype(complex)
    form = step.get("form", "nd")
    layout = step.get("layout")
    sig = sut.api_signal(Xd, form)
    if isinstance(sig, list):
        sig = [lay_out(e, layout) for e in sig]
        sig0 = [np.array(e) for e in sig]
    else:
        sig = lay_out(sig, layout)
        if layout in (None, "c"):
            key = ("sig", sig.shape, sig.dtype.str)
            buf = sut.buffers.get(key)
            if buf is None:
                sut.buffers[key] = sig
            else:
                buf[...] = sig
                sig = buf
        sig0 = np.array(sig)
    return X, sig, sig0


def same_bits(a, b):
    return (a.shape == b.shape and a.dtype == b.dtype
            and np.ascontiguousarray(a).tobytes() == np.ascontiguousarray(b).tobytes())


def poison(a):
    """the caller overwrites an array it was handed"""
    if isinstance(a, np.ndarray) and a.flags.writeable and a.dtype.kind in "fc":
        a[...] = np.nan


def sig_base(sut, domain, link=None):
    ant = "siso" if not sut.mimo else ("mimo_switched" if sut.switched else "mimo_direct")
    fam = sut.family
    if any(v is not None for v in sut.pl.values()):
        fam += "+pathloss"
    return (domain, fam, ant)


def transmit(sut, step, chk, case, results):
    """execute one transmission step and compare with the oracle.  Returns False
    when the scenario cannot be continued."""
    ui, ai, uo, ao = sut.dims()
    op = step["op"]
    form = step.get("form", "nd")
    if op == "time":
        n = int(step["n"])
        X, sig, sig0 = prepare_signal(sut, step, ui, ai, n)
        base = sig_base(sut, "time_domain")
        chk.count("eval_time_transmissions")
        y = sut.ch.corrupt_data(sig)
        length = n + sut.memory
        nsamp = n
        samples = [sut.counter + k for k in range(n)]
        sut.counter += n
        bins = None
    else:
        fft = int(step["fft"])
        sel = step.get("sel")
        blocks = int(step["blocks"])
        bins = selection_bins(fft, sel)
        bs = len(bins)
        n = bs * blocks
        X, sig, sig0 = prepare_signal(sut, step, ui, ai, n)
        base = sig_base(sut, "freq_domain")
        chk.count("eval_freq_transmissions")
        chk.outcome("selection_bins", (fft, tuple(bins)))
        if isinstance(sel, np.ndarray):
            # the caller keeps ONE selection array per shape and rewrites it in place
            key = ("sel", sel.shape, sel.dtype.str)
            sel_arg = sut.buffers.get(key)
            if sel_arg is None:
                sel_arg = sut.buffers[key] = sel.copy()
            else:
                sel_arg[...] = sel
        else:
            sel_arg = list(sel) if isinstance(sel, list) else sel
        try:
            y = sut.ch.corrupt_data_in_freq_domain(sig, fft, sel_arg)
        except Exception as e:  # noqa
            if isinstance(sel, slice):
                a, b, c = sel.indices(fft)
                if (b - a) // c != bs:
                    # the bin count of a slice is not (stop-start)//step unless step divides the span
                    chk.count("slice_step_not_dividing_span_cases")
                    chk.fail(("freq_domain", "slice_selection", "step_does_not_divide_span",
                              "valid_request_raises"), case,
                             observed="%s: %s" % (type(e).__name__, e),
                             expected="%d bins %r selected by %r of fft_size %d; signal of %d x %d symbols accepted"
                                      % (bs, bins, sel, fft, blocks, bs))
                    return False
            if (isinstance(sig, list) and sut.family == "mu" and ui == 1
                    and isinstance(e, AttributeError)):
                chk.fail(("MuChannel.corrupt_data_in_freq_domain", "list_signal", "single_transmitter",
                          "AttributeError"), case, observed="%s: %s" % (type(e).__name__, e),
                         expected="documented: 'It can also be a list of numpy arrays'")
                return False
            raise
        length = n
        nsamp = blocks
        samples = [sut.counter + b * fft for b in range(blocks)]
        sut.counter += blocks * fft
        if ((isinstance(sel, np.ndarray) and not same_bits(np.asarray(sel), sel_arg))
                or (isinstance(sel, list) and sel_arg != sel)):
            chk.fail(base + ("selection_argument_mutated",), case)
    # the input must be bit-identical after the call
    same = (all(same_bits(a, b) for a, b in zip(sig, sig0)) if isinstance(sig, list)
            else same_bits(sig, sig0))
    if not same:
        chk.fail(base + ("input_signal_mutated",), case)
    outs, why = sut.normalise_output(y, length)
    if outs is None:
        chk.fail(base + ("output_shape",), case, observed=why,
                 expected="length = input%s" % (" + channel memory %d" % sut.memory if op == "time" else ""))
        return False
    outs = [np.array(o) for o in outs]          # own copies: the returned arrays are overwritten below
    y_arrays = [y] if sut.family != "mu" else [y[v] for v in range(uo)]
    for o in y_arrays:
        if np.asarray(o).dtype != np.complex128:
            chk.fail(base + ("output_dtype",), case, observed=np.asarray(o).dtype, expected="complex128")
    reports = []
    # expected output = superposition over the links
    exp = [np.zeros((ao, length), dtype=complex) for _ in range(uo)]
    exp_trunc = [np.zeros((ao, length), dtype=complex) for _ in range(uo)]
    hmax = 0.0
    long_memory = op == "freq" and sut.memory >= int(step["fft"])
    for v in range(uo):
        for u in range(ui):
            link = (u, v) if sut.switched else (v, u)
            resp = sut.reported(*link)
            got = link_coefficients(sut, resp, nsamp, chk, base, case)
            if got is None:
                return False
            idx, C = got
            hmax = max(hmax, float(np.max(np.abs(C))))
            if op == "time":
                exp[v] += ref_conv(idx, C, X[u], n, sut.memory)
            else:
                exp[v] += ref_freq(idx, C, X[u], int(step["fft"]), bins, blocks)
                if long_memory:
                    exp_trunc[v] += ref_freq(idx, C, X[u], int(step["fft"]), bins, blocks, True)
            check_fading(sut, link, resp, nsamp, op, chk, case, int(step["fft"]) if op == "freq" else None)
            if sut.ntx == 0 or sut.ntx == 2:
                check_response_api(sut, resp, chk, base, case)
            reports.append((link, resp))
    xmax = float(np.max(np.abs(X))) if X.size else 0.0
    terms = len(sut.ref_idx) * ui * ai + 2
    tol = C_TOL * numerics.EPS * terms * max(hmax, 1e-300) * max(xmax, 1e-300)
    worst = 0.0
    for v in range(uo):
        worst = max(worst, numerics.err(outs[v], exp[v]))
    if not worst <= tol:
        if long_memory and max(numerics.err(outs[v], exp_trunc[v]) for v in range(uo)) <= tol:
            chk.count("memory_ge_fft_truncated_cases")
            chk.fail(("freq_domain", "memory>=fft_size", "taps_beyond_fft_size_dropped"), case,
                     observed="output equals the product with the DFT of the response truncated to fft_size taps",
                     expected="DFT of the whole reported response at the selected bins "
                              "(taps at delay >= fft_size fold onto delay mod fft_size); max deviation %.3g" % worst)
        else:
            chk.fail(base + ("output!=convolution_with_reported_response" if op == "time"
                             else "output!=DFT(reported_response)*input",), case,
                     observed="max abs deviation %.3g" % worst, expected="<= %.3g" % tol)
    results.append((X, outs))
    # ---- arrays handed out earlier and kept by the caller are not changed by this call ...
    for what, obj, cp in sut.retained:
        if not same_bits(obj, cp):
            chk.fail(base + ("earlier_returned_array_changed_by_later_call", what), case)
        poison(obj)
    sut.retained = []
    for link, resp in reports:
        # ... reading the report again gives the same taps ...
        again = sut.reported(*link)
        if not same_bits(np.asarray(again.tap_values_sparse), np.asarray(resp.tap_values_sparse)):
            chk.fail(base + ("second_read_of_reported_response_differs",), case)
        if op == "freq":
            # ... the public frequency response is the DFT of the reported taps, and overwriting the
            # array it returned (or the dense taps, if writable) does not change a second evaluation
            fft = int(step["fft"])
            fr = resp.get_freq_response(fft)
            keep = np.array(fr)
            vals = np.asarray(resp.tap_values_sparse)
            kk = np.arange(fft).reshape(-1, 1)
            W = np.exp(-2j * np.pi * ((kk * np.array(sut.ref_idx).reshape(1, -1)) % fft) / fft)
            own = np.tensordot(W, vals, axes=(1, 0))
            if keep.shape != own.shape or not numerics.err(keep, own) <= C_TOL * numerics.EPS * (
                    len(sut.ref_idx) + 2 + math.log2(fft)) * max(float(np.max(np.abs(vals))), 1e-300):
                chk.fail(base + ("get_freq_response!=DFT(reported_taps)",), case,
                         observed=keep.shape if keep.shape != own.shape else numerics.err(keep, own))
            poison(fr)
            try:
                resp.tap_values[...] = np.nan
            except ValueError:
                pass                      # read-only view: fine
            if not same_bits(np.asarray(resp.get_freq_response(fft)), keep):
                chk.fail(base + ("get_freq_response_changed_by_overwriting_a_returned_array",), case)
    # ... and what the caller does to the arrays it was handed does not reach later transmissions:
    # even transmissions: overwrite them now; odd ones: keep them and compare after the next call
    handed = [("output", a) for a in y_arrays if isinstance(a, np.ndarray)] + \
             [("reported_taps", resp.tap_values_sparse) for _, resp in reports]
    if sut.ntx % 2 == 0:
        for _, a in handed:
            poison(a)
    else:
        sut.retained = [(what, a, np.array(a)) for what, a in handed]
    sut.ntx += 1
    # evidence
    nontrivial = sut.memory > 0 or sut.mimo or sut.family == "mu" or (bins is not None and bins != list(range(int(step["fft"]))))
    if nontrivial:
        chk.nontriv((case.get("family"), sut.w, sut.ant, sut.N, sut.switched, tuple(case["gen"]),
                     tuple(sut.ref_idx), op, None if bins is None else (int(step["fft"]), tuple(bins))))
    chk.outcome("output_lengths", (op, n, length))
    return True


# ----------------------------------------------------------------------
# scenario execution
# ----------------------------------------------------------------------
class AfterInvalid:
    """a Check whose failures are signed after_invalid_call|<what>|..."""

    def __init__(self, chk, what):
        self._chk, self._what = chk, what

    def __getattr__(self, name):
        return getattr(self._chk, name)

    def fail(self, sig, case, **kw):
        # coarse: which relation fails after which invalid call (not per wrapper / antenna set-up)
        keep = tuple(x for x in sig if x not in ("siso", "mimo_direct", "mimo_switched")
                     and x.split("+")[0] not in ("tdl", "su", "mu"))
        self._chk.fail(("after_invalid_call", self._what) + keep, case, **kw)


def run_scenario(case, chk0):
    """build the channel, run the history, compare every transmission"""
    chk = chk0
    chk.count("scenarios")
    sut = Sut(case)
    suts = [sut]
    rel = case.get("objects")
    if rel is not None:
        # a second live object, used alternately with the first (steps carry "obj")
        shared = {}
        if rel == "similar_generator":
            shared = {"gen": sut.similar_gen}
        elif rel == "same_profile_object":
            shared = {"profile_obj": sut.profile_obj}
        suts.append(Sut(case, shared=shared, index=1))
    chk.outcome("delay_sets_transmitted", tuple(sut.ref_idx))
    # profile wiring: the channel's discretized profile equals the reference discretization
    prof = sut.ch.channel_profile
    if (np.asarray(prof.tap_delays).tolist() != sut.ref_idx
            or not np.all(np.abs(np.asarray(prof.tap_powers_linear) - np.array(sut.ref_pow))
                          <= POW_RTOL * np.array(sut.ref_pow))
            or int(sut.ch.num_taps_with_padding) != sut.memory + 1 or sut.ch.num_taps != len(sut.ref_idx)):
        chk.fail(("channel_profile", sut.family, "discretized_profile_of_channel"), case,
                 observed=(np.asarray(prof.tap_delays), np.asarray(prof.tap_powers_linear)),
                 expected=(sut.ref_idx, sut.ref_pow))
        return
    if not sut.profile_args_intact:
        chk.fail(("constructor", sut.family, "profile_arrays_mutated"), case)
    kinds = []
    others_before = None
    for step in case["history"]:
        op = step["op"]
        kinds.append(op)
        sut = suts[int(step.get("obj", 0))]
        results = sut.results
        chk = chk0 if sut.after_invalid is None else AfterInvalid(chk0, sut.after_invalid)
        # whatever is done to one object leaves every other live object exactly as it was
        if len(suts) > 1:
            if others_before is not None:
                for o, d in others_before:
                    if o.digest(rng=False) != d:
                        chk.fail(("several_objects", case.get("objects"), "other_object_changed_by", kinds[-2]), case)
            others_before = [(o, o.digest(rng=False)) for o in suts if o is not sut]
        if op in ("time", "freq"):
            if step.get("x", [None])[0] == "lincomb":
                (X1, _), (X2, _) = results[-2], results[-1]
                step = dict(step, _X=LIN_A * X1 + LIN_B * X2)
            if sut.after_invalid is not None:
                ok = False          # an exception of a VALID transmission after an invalid call is a violation
                with chk0.guard(("after_invalid_call", sut.after_invalid, "valid_transmission"), case), \
                        own_errors_are_broken():
                    ok = transmit(sut, step, chk, case, results)
            else:
                ok = transmit(sut, step, chk, case, results)
            if not ok:
                chk.count("scenarios_cut_short_by_a_reported_defect")
                break
            if step.get("x", [None])[0] == "lincomb":
                (_, y1), (_, y2), (X3, y3) = results[-3], results[-2], results[-1]
                hm = max(float(np.max(np.abs(o))) for o in y1 + y2 + y3)
                tol = C_TOL * numerics.EPS * 8 * (len(sut.ref_idx) * X3.shape[0] * X3.shape[1] + 2) * max(hm, 1e-300) * 4
                dev = max(numerics.err(c, LIN_A * a + LIN_B * b) for a, b, c in zip(y1, y2, y3))
                chk.count("eval_linearity_triples")
                if not dev <= tol:
                    chk.fail(sig_base(sut, step["op"] + "_domain") + ("linearity",), case,
                             observed="max |y(a x1+b x2) - a y(x1) - b y(x2)| = %.3g" % dev,
                             expected="<= %.3g (Fd = 0: time-invariant channel)" % tol)
        elif op == "set_pathloss":
            tag = step["value"]
            chk.count("eval_set_pathloss")
            if sut.family == "mu":
                val = None if tag is None else pathloss_value(tag, sut.N)
                val0 = None if val is None else val.copy()
                try:
                    sut.ch.set_pathloss(val)
                except TypeError as e:
                    if tag is None:
                        chk.count("mu_set_pathloss_none_cases")
                        chk.fail(("MuChannel.set_pathloss", "None", "TypeError_instead_of_disabling_pathloss"),
                                 case, observed="%s: %s" % (type(e).__name__, e),
                                 expected="documented: 'If you want to disable the path loss, set "
                                          "`pathloss_matrix` to None'")
                        chk.count("scenarios_cut_short_by_a_reported_defect")
                        break
                    raise
                for (i, j) in sut.pl:
                    sut.pl[(i, j)] = None if val is None else float(val0[i, j])
                if val is not None:
                    if not same_bits(val, val0):
                        chk.fail(("MuChannel.set_pathloss", "argument_mutated"), case)
                    val[...] = 0.5          # the caller re-uses its matrix; the channel must keep its own
                pm = sut.ch.pathloss_matrix
                if (val is None) != (pm is None) or (val is not None and not np.array_equal(pm, val0)):
                    chk.fail(("MuChannel.pathloss_matrix", "after_set_pathloss"), case, observed=pm, expected=val0)
            else:
                val = None if tag is None else pathloss_value(tag, None)
                sut.ch.set_pathloss(val)
                sut.pl[(0, 0)] = val
        elif op == "bad_call":
            if bad_call(sut, step["what"], chk0, case):
                chk0.count("eval_error_paths")
        elif op == "switch":
            chk.count("eval_events")
            sut.ch.switched_direction = bool(step["value"])
            sut.switched = bool(step["value"])
            if sut.ch.switched_direction is not sut.switched:
                chk.fail(("switched_direction", sut.family, "read_back"), case)
        elif op == "set_num_antennas":
            chk.count("eval_events")
            v = step["value"]
            if v[0] is None:
                try:
                    sut.ch.set_num_antennas(None, None)
                    back = (sut.ch.num_rx_antennas, sut.ch.num_tx_antennas)
                    problem = None if back == (-1, -1) else "no exception, but num_rx/num_tx_antennas = %r" % (back,)
                except TypeError as e:
                    problem = "%s: %s" % (type(e).__name__, e)
                if problem is not None:
                    chk.fail(("set_num_antennas", "None_None", "documented_SISO_reset_fails"), case,
                             observed=problem,
                             expected="documented: 'Set both `num_rx_antennas` and `num_tx_antennas` to None "
                                      "for SISO transmission' (num_rx/num_tx_antennas = -1 afterwards)")
                    chk.count("scenarios_cut_short_by_a_reported_defect")
                    break
                sut.ant, sut.mimo = None, False
            else:
                sut.ch.set_num_antennas(int(v[0]), int(v[1]))
                sut.ant, sut.mimo = (int(v[0]), int(v[1])), True
            want = (-1, -1) if sut.ant is None else sut.ant
            if (sut.ch.num_rx_antennas, sut.ch.num_tx_antennas) != want:
                chk.fail(("set_num_antennas", sut.family, "read_back"), case,
                         observed=(sut.ch.num_rx_antennas, sut.ch.num_tx_antennas), expected=want)
            sut.reclone()
        elif op == "gen_ir":
            # TdlChannel.generate_impulse_response called directly: consumes k fading samples
            chk.count("eval_events")
            k = int(step["value"])
            sut.ch.generate_impulse_response(k)
            samples = [sut.counter + q for q in range(k)]
            sut.counter += k
            resp = sut.reported(0, 0)
            base = sig_base(sut, "generate_impulse_response")
            if link_coefficients(sut, resp, k, chk, base, case) is None:
                break
            check_fading(sut, (0, 0), resp, k, "gen_ir", chk, case)
            poison(resp.tap_values_sparse)
        else:
            raise ValueError(op)
    chk.outcome("history_shapes", tuple(kinds))


BAD_CALLS = ("time_few_streams", "time_many_streams", "time_1d_for_mimo", "time_2d_for_siso",
             "freq_not_multiple", "freq_index_out_of_range", "freq_negative_index_out_of_range",
             "freq_many_streams", "users_few", "users_many", "pathloss_shape_small", "pathloss_shape_big",
             "pathloss_value_gt1", "pathloss_negative", "switched_not_bool")


def bad_call_applicable(what, family, mimo, N, ant, switched):
    """is the invalid call `what` constructible for this configuration?"""
    R, T = N
    ui = R if switched else T
    ai = 1 if not mimo else (ant[0] if switched else ant[1])
    if what in ("time_few_streams",):
        return family != "mu" and mimo and ai >= 2
    if what in ("time_many_streams", "freq_many_streams"):
        return family != "mu" and mimo
    if what == "time_1d_for_mimo":
        return family != "mu" and mimo and ai >= 2
    if what == "time_2d_for_siso":
        return family != "mu" and not mimo
    if what in ("users_few",):
        return family == "mu" and ui >= 2
    if what == "users_many":
        return family == "mu"
    if what.startswith("pathloss_shape") or what == "pathloss_value_gt1":
        return family == "mu"
    if what == "pathloss_negative":
        return family == "su"
    return True


def bad_call(sut, what, chk, case):
    """An invalid call is outside the property: whether it raises and what it does to the fading time,
    the RNG or the stored response is recorded as an OUTCOME.  Required is only that the object stays
    a coherent channel: the reference model is re-synchronised from the object's own state and every
    later valid transmission must satisfy all relations (signature after_invalid_call|<what>|...).
    -> True when the invalid call could be built for this configuration"""
    ui, ai, uo, ao = sut.dims()
    if not bad_call_applicable(what, sut.family, sut.mimo, sut.N, sut.ant, sut.switched):
        return False
    before = sut.digest()
    ch = sut.ch

    def streams(users, ants, n):
        X = make_input(["expo"], users, ants, n)
        if sut.family == "mu":
            return X if sut.mimo else X[:, 0, :]
        return X[0] if sut.mimo else X[0, 0]

    if what == "time_few_streams":
        call = lambda: ch.corrupt_data(streams(1, ai - 1, 4))
    elif what == "time_many_streams":
        call = lambda: ch.corrupt_data(streams(1, ai + 1, 4))
    elif what == "freq_many_streams":
        call = lambda: ch.corrupt_data_in_freq_domain(streams(1, ai + 1, 4), 4)
    elif what == "time_1d_for_mimo":
        call = lambda: ch.corrupt_data(make_input(["expo"], 1, 1, 6)[0, 0])
    elif what == "time_2d_for_siso":
        call = lambda: ch.corrupt_data(make_input(["expo"], 1, 2, 4)[0])
    elif what == "freq_not_multiple":
        call = lambda: ch.corrupt_data_in_freq_domain(streams(ui, ai, 5), 4, [0, 1, 3])
    elif what == "freq_index_out_of_range":
        call = lambda: ch.corrupt_data_in_freq_domain(streams(ui, ai, 4), 4, [1, 4])
    elif what == "freq_negative_index_out_of_range":
        call = lambda: ch.corrupt_data_in_freq_domain(streams(ui, ai, 4), 4, np.array([1, -5]))
    elif what == "users_few":
        call = lambda: ch.corrupt_data(streams(ui - 1, ai, 4))
    elif what == "users_many":
        call = lambda: ch.corrupt_data_in_freq_domain(streams(ui + 1, ai, 4), 4)
    elif what == "pathloss_shape_small":
        R, T = sut.N
        call = lambda: ch.set_pathloss(np.full((R - 1, T) if R > 1 else (R, T - 1), 0.5))
    elif what == "pathloss_shape_big":
        call = lambda: ch.set_pathloss(np.full((sut.N[0] + 1, sut.N[1] + 1), 0.5))
    elif what == "pathloss_value_gt1":
        def call():
            m = np.full(sut.N, 0.5)
            m[-1, -1] = 2.0
            ch.set_pathloss(m)
    elif what == "pathloss_negative":
        call = lambda: ch.set_pathloss(-0.25)
    elif what == "switched_not_bool":
        def call():
            ch.switched_direction = 1
    else:
        raise ValueError(what)
    raised = None
    try:
        call()
    except Exception as e:  # noqa
        raised = e
    changed = sut.digest() != before
    chk.outcome("error_paths", (what, sut.family, sut.mimo))
    chk.outcome("invalid_call_behaviour", (what, "accepted" if raised is None else type(raised).__name__,
                                            "state_changed" if changed else "state_unchanged"))
    chk.count("invalid_calls_accepted" if raised is None else "invalid_calls_raised")
    if changed:
        chk.count("invalid_calls_that_changed_state")
    sut.resync_after_invalid_call(what)
    sut.after_invalid = what
    return True


def gen_digest(g):
    return bfs.digest(bfs.state_of(g), 17)


def e_cases(tier):
    for what in ("discretized_profile_Ts_conflict", "Ts_conflict_with_generator", "response_needs_discretized_profile",
                 "padding_needs_discretized_profile", "mimo_channel_needs_2d_generator_shape",
                 "no_response_before_first_transmission"):
        for gen in GENS:
            for w in (("tdl", "su", "mu") if what in ("discretized_profile_Ts_conflict", "Ts_conflict_with_generator",
                                                      "no_response_before_first_transmission") else ("tdl",)):
                yield {"part": "E", "what": what, "gen": list(gen), "wrapper": w, "seed": base_seed()}


def check_ctor_error(case, chk):
    """constructor / accessor error paths: what happens (exception type, objects handed over changed
    or not) is an outcome; only an exception the docstring promises is required"""
    from pyphysim.channels import fading, fading_generators as fg, multiuser, singleuser
    chk.count("eval_error_paths")
    what, w = case["what"], case["wrapper"]
    np.random.seed(case["seed"])
    Ts = 1e-3
    if case["gen"][0] == "jakes":
        gen = fg.JakesSampleGenerator(Fd=case["gen"][1], Ts=Ts, L=JAKES_L, RS=np.random.RandomState(case["seed"]))
    else:
        gen = fg.RayleighSampleGenerator()
    delays, powers = raw_profile([0, 6, 6, 12], [0.0, -3.0, -3.0, -10.0], Ts)
    raw = fading.TdlChannelProfile(powers, delays)
    disc = raw.get_discretize_profile(Ts)
    other = raw.get_discretize_profile(2 * Ts)
    mk = {"tdl": lambda **kw: fading.TdlChannel(gen, **kw), "su": lambda **kw: singleuser.SuChannel(gen, **kw),
          "mu": lambda **kw: multiuser.MuChannel(2, gen, **kw)}[w]
    before = (gen_digest(gen), np.array(other.tap_delays), np.array(disc.tap_powers_dB), disc.Ts, other.Ts, raw.Ts)
    exc = RuntimeError
    if what == "discretized_profile_Ts_conflict":
        if case["gen"][0] != "jakes":
            call = lambda: mk(channel_profile=other, Ts=Ts)
        else:
            call = lambda: mk(channel_profile=other)
    elif what == "Ts_conflict_with_generator":
        if case["gen"][0] != "jakes":
            return                  # a Rayleigh generator has no sampling interval
        call = lambda: mk(tap_powers_dB=powers, tap_delays=delays, Ts=2 * Ts)
    elif what == "response_needs_discretized_profile":
        call = lambda: fading.TdlImpulseResponse(np.ones((4, 2), dtype=complex), raw)
    elif what == "padding_needs_discretized_profile":
        call = lambda: raw.num_taps_with_padding
    elif what == "mimo_channel_needs_2d_generator_shape":
        call = lambda: fading.TdlMimoChannel(gen, channel_profile=disc)
    else:
        ch = mk(channel_profile=disc, Ts=Ts)
        before = (gen_digest(gen), np.array(other.tap_delays), np.array(disc.tap_powers_dB), disc.Ts, other.Ts, raw.Ts)
        call = (lambda: ch.get_last_impulse_response(1, 0)) if w == "mu" else ch.get_last_impulse_response
    promised = what == "padding_needs_discretized_profile"   # "If the profile is not discretized an exception is raised"
    raised = None
    try:
        call()
    except Exception as e:  # noqa
        raised = e
    if promised and raised is None:
        chk.fail(("error_path", what, "documented_exception_not_raised"), case)
    after = (gen_digest(gen), np.array(other.tap_delays), np.array(disc.tap_powers_dB), disc.Ts, other.Ts, raw.Ts)
    same = all((np.array_equal(a, b) if isinstance(a, np.ndarray) else a == b) for a, b in zip(before, after))
    chk.outcome("invalid_call_behaviour", (what, "accepted" if raised is None else type(raised).__name__,
                                            "state_unchanged" if same else "state_changed"))
    chk.outcome("error_paths", (what, w))


def run_case(case, chk):
    if case["part"] == "E":
        with chk.guard(("error_path", case["what"]), case), own_errors_are_broken():
            check_ctor_error(case, chk)
        return
    if case["part"] == "D":
        with chk.guard(("discretize",), case), own_errors_are_broken():
            check_discretization(case, chk)
    else:
        with chk.guard(("scenario", case.get("family", "?"), case["wrapper"]), case), own_errors_are_broken():
            run_scenario(case, chk)


# ----------------------------------------------------------------------
# alphabets of Part T
# ----------------------------------------------------------------------
def subset_profiles():
    """one sorted raw profile per non-empty set of discretized delays within {0,1,2,3}"""
    out = []
    pw = (0.0, -3.0, -10.0, -30.0)
    for r in range(1, 5):
        for ds in itertools.combinations(range(4), r):
            out.append(["custom", [4 * d for d in ds], [pw[(i + ds[0]) % 4] for i in range(r)]])
    return out


def variant_profiles():
    """unsorted / colliding / round-half-even raw profiles"""
    return [
        ["custom", [6, 2], [0.0, -3.0]],                # 1.5->2, 0.5->0 (ties, unsorted)
        ["custom", [2, 1], [0.0, -3.0]],                # both -> 0 (collide to a single tap)
        ["custom", [5, 6, 7], [-3.0, 0.0, -10.0]],      # 1, 2, 2
        ["custom", [12, 0, 6, 6], [-10.0, 0.0, -3.0, -3.0]],
        ["custom", [10], [0.0]],                        # 2.5 -> 2
        ["custom", [3, 4, 5], [0.0, -3.0, -10.0]],      # triple collision on 1
        ["custom", [0, 1, 2, 3], [0.0, -3.0, -10.0, -30.0]],
        ["custom", [12, 8, 4, 0], [0.0, -3.0, -10.0, -30.0]],   # reversed
        ["custom", [11, 9], [-30.0, 0.0]],              # 3, 2 unsorted
        ["custom", [2, 6, 10], [0.0, 0.0, 0.0]],        # 0.5,1.5,2.5 -> 0,2,2
        ["custom", [7, 1, 12, 5], [-3.0, -30.0, 0.0, -10.0]],
    ]


P_FLAT = ["custom", [0], [0.0]]
P_013 = ["custom", [0, 4, 12], [0.0, -3.0, -10.0]]
P_MIX = ["custom", [12, 0, 6, 6], [-10.0, 0.0, -3.0, -3.0]]
P_12 = ["custom", [5, 6, 7], [-3.0, 0.0, -10.0]]

GENS = (["jakes", 30.0], ["jakes", 0.0], ["rayleigh"])
ANTS = (None, (1, 1), (1, 2), (2, 1), (2, 3), (3, 2))


def base_seed():
    return 1000 + 17 * common.seed()


def scen(family, wrapper, profile, Ts, gen, history, ant=None, N=None, switched=False, **kw):
    c = {"part": "T", "family": family, "wrapper": wrapper, "ant": None if ant is None else list(ant),
         "N": N if N is None or isinstance(N, int) else list(N), "switched": bool(switched),
         "gen": list(gen), "Ts": Ts, "profile": profile, "seed": base_seed(), "history": history}
    c.update(kw)
    return c


def time_inputs(streams, n, tier="thorough"):
    for s in range(streams):
        for pos in range(n):
            if tier == "quick" and s > 0 and pos not in (0, n - 1):
                continue        # quick: every position on stream 0, first and last on the others
            yield ["impulse", s, pos]
    yield ["ramp"]
    yield ["expo"]
    yield ["ramp_int"]


def fam_time(tier):
    profs = subset_profiles() + variant_profiles()
    for Ts in TS_ALL:
        plist = profs if (Ts == 1.0 or tier == "thorough") else variant_profiles()
        for prof in plist:
            for ant in ANTS:
                for sw in (False, True):
                    if ant is None and sw:
                        continue
                    for gen in (GENS if (Ts == 1.0 or tier == "thorough") else (GENS[0], GENS[2])):
                        nin = 1 if ant is None else (ant[0] if sw else ant[1])
                        for n in ((1, 2, 5, 8) if (Ts == 1.0 or tier == "thorough") else (1, 5)):
                            for x in time_inputs(nin, n, tier):
                                w = "tdl" if ant != (3, 2) else "tdlmimo"
                                yield scen("time", w, prof, Ts, gen, [{"op": "time", "x": x, "n": n}],
                                           ant=ant, switched=sw)


def selections(fft):
    """None, index arrays (sorted / unsorted / list / negative / repeated), all slices selecting >= 1 bin"""
    yield None
    yield np.arange(fft)
    yield np.arange(0, fft, 2)
    yield np.array([fft - 1, 0, 2])
    yield [1, 3]
    yield [3, 0, 1]
    yield np.array([1])
    yield np.array([-1, 0])
    yield [2, 2, 1]
    yield np.array([0, 1, 3], dtype=np.int32)
    seen = set()
    for start in (None, 0, 1, 2):
        for stop in (None, fft, fft - 1):
            for step in (None, 1, 2, 3, -1, -2):
                sl = slice(start, stop, step)
                if len(range(fft)[sl]) >= 1:
                    yield sl


def fam_time_pairs(tier):
    """thorough only: every ordered pair of raw taps (incl. equal delays), Ts = 1"""
    if tier != "thorough":
        return
    for q1 in range(13):
        for q2 in range(13):
            if q1 == q2:
                continue        # zero delay spread: see Part D (constructor defect)
            prof = ["custom", [q1, q2], [-3.0, 0.0]]
            for ant in ANTS:
                for sw in (False, True):
                    if ant is None and sw:
                        continue
                    for gen in GENS:
                        nin = 1 if ant is None else (ant[0] if sw else ant[1])
                        for n in (2, 5):
                            for x in time_inputs(nin, n):
                                yield scen("time", "tdl", prof, 1.0, gen, [{"op": "time", "x": x, "n": n}],
                                           ant=ant, switched=sw)


def fam_freq(tier):
    combos = [(GENS[0], P_MIX), (GENS[2], P_013), (GENS[1], P_FLAT)]
    if tier == "thorough":
        combos = [(g, p) for g in GENS for p in (P_FLAT, P_013, P_MIX, P_12)]
    for fft in (4, 5, 8, 12):
        for sel in selections(fft):
            for blocks in (1, 2, 3):
                for ant in ANTS:
                    if ant == (1, 1) and tier == "quick" and blocks == 2:
                        continue        # quick: the 1x1 "MIMO" shape with 1 and 3 blocks only
                    for sw in (False, True):
                        if ant is None and sw:
                            continue
                        if sw and tier == "quick" and blocks == 2 and ant in ((1, 2), (2, 1)):
                            continue    # quick: switched SIMO/MISO with 1 and 3 blocks only
                        for gen, prof in combos:
                            for Ts in ((1.0,) if tier == "quick" else (1.0, 1e-3)):
                                yield scen("freq", "tdl" if ant != (2, 3) else "tdlmimo", prof, Ts, gen,
                                           [{"op": "freq", "fft": fft, "sel": sel, "blocks": blocks, "x": ["expo"]}],
                                           ant=ant, switched=sw)


def wrapper_configs():
    """(wrapper, ant, N, initial path loss tag)"""
    return [
        ("tdl", None, None, None), ("tdl", (2, 3), None, None), ("tdlmimo", (3, 2), None, None),
        ("su", None, None, None), ("su", None, None, "v1"), ("su", (1, 2), None, "v1"),
        ("su_setant", (2, 1), None, "v2"), ("sumimo", (2, 2), None, "v1"), ("sumimo", (3, 3), None, None),
        ("sumimo", (1, 1), None, "v2"),
        ("mu", None, 2, None), ("mu", None, 2, "v1"), ("mu", None, (2, 3), "v1"), ("mu", None, (2, 1), "v2"),
        ("mumimo", (2, 3), 2, "v1"), ("mumimo", (1, 2), (2, 3), None), ("mumimo", (2, 1), (1, 2), "v2"),
    ]


def step_alphabet(tier):
    a = [
        {"op": "time", "x": ["expo"], "n": 5},
        {"op": "freq", "fft": 4, "sel": None, "blocks": 1, "x": ["expo2"]},
        {"op": "freq", "fft": 8, "sel": np.array([7, 0, 2]), "blocks": 2, "x": ["ramp"]},
        {"op": "time", "x": ["ramp"], "n": 2},
    ]
    if tier == "thorough":
        a += [
            {"op": "freq", "fft": 5, "sel": slice(1, None, 2), "blocks": 3, "x": ["expo"]},
            {"op": "time", "x": ["expo2"], "n": 8},
        ]
    return a


def with_initial_pathloss(tag, history):
    return ([{"op": "set_pathloss", "value": tag}] if tag is not None else []) + history


def fam_hist(tier):
    alpha = step_alphabet(tier)
    for depth in (1, 2, 3):
        for seq in itertools.product(range(len(alpha)), repeat=depth):
            hist = [dict(alpha[i]) for i in seq]
            for (w, ant, N, pl) in wrapper_configs():
                for sw in (False, True):
                    for gen in (GENS if (depth < 3 or tier == "thorough") else GENS[:1]):
                        for prof in ((P_MIX, P_12) if tier == "thorough" else (P_MIX,)):
                            yield scen("hist", w, prof, 1.0 if gen[0] != "jakes" or gen[1] == 0.0 else 1e-3, gen,
                                       with_initial_pathloss(pl, hist), ant=ant, N=N, switched=sw)


def fam_ploss(tier):
    txa = {"op": "time", "x": ["expo"], "n": 5}
    txb = {"op": "freq", "fft": 5, "sel": slice(0, 4, 2), "blocks": 2, "x": ["ramp"]}
    tags = ("v1", "v2", None)
    for depth in (1, 2):
        for ops in itertools.product(tags, repeat=depth):
            for first in (0, 1):
                tx = [txa, txb] if first == 0 else [txb, txa]
                hist = [dict(tx[0])]
                for k, tag in enumerate(ops):
                    hist.append({"op": "set_pathloss", "value": tag})
                    hist.append(dict(tx[(k + 1) % 2]))
                for (w, ant, N, _) in wrapper_configs():
                    if w.startswith("tdl"):
                        continue
                    for sw in (False, True):
                        for gen in (GENS if tier == "thorough" else (GENS[0], GENS[2])):
                            yield scen("ploss", w, P_013, 1.0, gen, hist, ant=ant, N=N, switched=sw)


def fam_lin(tier):
    for (w, ant, N, pl) in wrapper_configs():
        for sw in (False, True):
            for prof in (P_MIX, P_013):
                for dom in ("time", "freq"):
                    if dom == "time":
                        mk = lambda x: {"op": "time", "x": x, "n": 5}
                    else:
                        mk = lambda x: {"op": "freq", "fft": 8, "sel": slice(1, 7, 2), "blocks": 2, "x": x}
                    hist = [mk(["expo"]), mk(["ramp"]), mk(["lincomb"])]
                    yield scen("lin", w, prof, 1.0, ["jakes", 0.0], with_initial_pathloss(pl, hist),
                               ant=ant, N=N, switched=sw)


def pow2_above(n):
    p = 1
    while p <= n:
        p *= 2
    return p


def fam_cost(tier):
    from pyphysim.channels import fading  # noqa
    for name in ("TU", "RA", "HT"):
        for Ts in (3.25e-8, 1e-6):
            delays = np.array(cost_profile(name).tap_delays, dtype=float)
            mem = max(round(float(d) / Ts) for d in delays)
            fft = max(8, pow2_above(mem))           # fft_size > channel memory (longm covers the rest)
            ffts = [fft]
            if fft > 256 and tier == "quick":
                sels = [slice(0, None, fft // 8), np.array([fft - 1, 0, 5])]
            else:
                sels = [None, slice(2, None, 2), np.array([fft - 1, 0, 5])]
            for (w, ant, N, pl) in [("tdl", None, None, None), ("tdl", (2, 3), None, None),
                                    ("su", None, None, "v1"), ("mu", None, 2, "v1")]:
                for sw in ((False, True) if ant is not None else (False,)):
                    for gen in GENS:
                        for form in ("object", "arrays"):
                            for n in (1, 5):
                                yield scen("cost", w, ["cost259", name], Ts, gen,
                                           with_initial_pathloss(pl, [{"op": "time", "x": ["expo"], "n": n}]),
                                           ant=ant, N=N, switched=sw, profile_form=form)
                            for f in ffts:
                                for sel in sels:
                                    yield scen("cost", w, ["cost259", name], Ts, gen,
                                               with_initial_pathloss(pl, [
                                                   {"op": "freq", "fft": f, "sel": sel, "blocks": 2, "x": ["expo"]},
                                                   {"op": "time", "x": ["ramp"], "n": 2}]),
                                               ant=ant, N=N, switched=sw, profile_form=form)


def fam_forms(tier):
    t5 = {"op": "time", "x": ["expo"], "n": 5}
    f8 = {"op": "freq", "fft": 8, "sel": slice(0, 8, 2), "blocks": 2, "x": ["ramp"]}
    for gen in GENS:
        for prof in (P_013, P_MIX):
            # 1-D input with a single transmit antenna (SIMO) / single receive antenna when switched
            for (w, ant, sw) in (("tdl", (2, 1), False), ("tdl", (1, 2), True), ("tdl", (1, 1), False),
                                 ("tdl", (1, 1), True), ("su", (3, 1), False), ("sumimo", (1, 1), False)):
                for st in (t5, f8):
                    yield scen("forms", w, prof, 1.0, gen, [dict(st, form="1d")], ant=ant, switched=sw)
            # a single transmitter: 1-D array, and the documented list form
            for (N, sw) in (((2, 1), False), ((1, 2), True), ((1, 1), False)):
                for st in (t5, f8):
                    yield scen("forms", "mu", prof, 1.0, gen, [dict(st, form="1d")], N=N, switched=sw)
            for (N, sw) in ((2, False), ((2, 3), False), ((2, 3), True), ((2, 1), False)):
                yield scen("forms", "mu", prof, 1.0, gen, [dict(f8, form="list")], N=N, switched=sw)
            yield scen("forms", "mumimo", prof, 1.0, gen, [dict(f8, form="list")], N=2, ant=(2, 3))
            # the profile handed over in the other documented ways; Ts taken from the Jakes generator
            for form in ("object", "discretized"):
                for (w, ant, N) in (("tdl", None, None), ("tdlmimo", (2, 3), None), ("su", None, None),
                                    ("sumimo", (2, 2), None), ("mu", None, 2), ("mumimo", (2, 1), 2)):
                    yield scen("forms", w, prof, 1e-3, gen, [dict(t5), dict(f8)], ant=ant, N=N, profile_form=form)
                    if gen[0] == "jakes":
                        yield scen("forms", w, prof, 1e-3, gen, [dict(f8), dict(t5)], ant=ant, N=N,
                                   profile_form=form, pass_Ts=False)


def fam_longm(tier):
    long5 = ["custom", [0, 20], [0.0, -3.0]]        # delays 0 and 5 Ts
    long4 = ["custom", [0, 4, 16], [0.0, -3.0, -10.0]]      # memory 4
    for gen in (GENS[0], GENS[2]):
        for prof, fft in ((long5, 4), (long4, 4), (long5, 5), (long4, 3)):
            for ant in (None, (2, 3)):
                for sel in (None, [fft - 1, 0]):
                    yield scen("longm", "tdl", prof, 1.0, gen,
                               [{"op": "freq", "fft": fft, "sel": sel, "blocks": 2, "x": ["expo"]}], ant=ant)
        yield scen("longm", "tdl", ["cost259", "TU"], 3.25e-8, gen,
                   [{"op": "freq", "fft": 64, "sel": slice(0, 64, 8), "blocks": 1, "x": ["expo"]}],
                   profile_form="object")
        yield scen("longm", "su", long5, 1.0, gen,
                   [{"op": "set_pathloss", "value": "v1"},
                    {"op": "freq", "fft": 4, "sel": None, "blocks": 1, "x": ["ramp"]}])


P_WIDE = ["custom", [0, 4, 12], [0.0, -70.0, -150.0]]
P_WIDEC = ["custom", [2, 1, 8], [0.0, -150.0, -100.0]]       # collision of taps 150 dB apart


P_ZERO = ["custom", [0, 4, 8], [0.0, float("-inf"), -3.0]]     # a zero-power tap


def fam_events(tier):
    """other public methods that touch shared state, as history events between transmissions"""
    ta = {"op": "time", "x": ["expo"], "n": 5}
    fa = {"op": "freq", "fft": 8, "sel": np.array([7, 0, 2]), "blocks": 2, "x": ["ramp"]}
    fb = {"op": "freq", "fft": 8, "sel": np.array([1, 5, 3]), "blocks": 2, "x": ["expo2"]}
    sw1, sw0 = {"op": "switch", "value": True}, {"op": "switch", "value": False}
    sna = lambda a, b: {"op": "set_num_antennas", "value": [a, b]}
    spl = lambda t: {"op": "set_pathloss", "value": t}
    gir = {"op": "gen_ir", "value": 3}
    configs = [
        ("tdl", None, None, None, [sw1, sna(2, 3), sna(1, 2), gir]),
        ("tdl", (2, 3), None, None, [sw1, sw0, sna(3, 2), sna(2, 3), sna(None, None), gir]),
        ("tdlmimo", (3, 2), None, None, [sw1, sna(1, 1), gir]),
        ("su", (1, 2), None, "v1", [sw1, sna(2, 1), spl(None), spl("v2")]),
        ("sumimo", (2, 2), None, None, [sw1, sna(2, 3), spl("v1")]),
        ("mu", None, 2, "v1", [sw1, sw0, spl(None), spl("v2")]),
        ("mu", None, (2, 3), None, [sw1, spl("v1")]),
        ("mumimo", (2, 3), 2, "v1", [sw1, spl(None)]),
    ]
    bad = lambda w: {"op": "bad_call", "what": w}
    for (w, ant, N, pl, events) in configs:
        fam = "mu" if w.startswith("mu") else ("su" if w.startswith("su") else "tdl")
        NN = (1, 1) if N is None else ((N, N) if isinstance(N, int) else tuple(N))
        # the invalid calls that can be built for this configuration in either direction
        errs = [bad(b) for b in BAD_CALLS
                if any(bad_call_applicable(b, fam, ant is not None, NN, ant, d) for d in (False, True))]
        if not any(e.get("op") == "switch" and e["value"] is False for e in events):
            events = events + [sw0]
        nS = len(events)
        alpha = events + errs
        for txs in ([ta, fa, fb, ta], [fa, fb, ta, fb], [ta, ta, fa, ta]):
            for depth in (1, 2, 3):
                if txs[1] is ta and depth > 1 and tier != "thorough":
                    continue
                if depth == 3 and tier != "thorough":
                    continue
                for evs in itertools.product(range(len(alpha)), repeat=depth):
                    nerr = sum(1 for e in evs if e >= nS)
                    if depth >= 2 and nerr == depth:
                        continue            # at least one state-changing event among several
                    hist = [dict(txs[0])]
                    for k, e in enumerate(evs):
                        hist.append(dict(alpha[e]))
                        hist.append(dict(txs[k + 1]))
                    cheap = (tier != "thorough" and depth >= 2 and nerr > 0) or depth == 3
                    if (tier != "thorough" and depth >= 2 or depth == 3) and txs[0] is not ta:
                        continue
                    if depth == 3 and nerr > 1:
                        continue
                    for start_sw in ((False,) if cheap else (False, True)):
                        for gen in (GENS[:1] if cheap else GENS):
                            yield scen("events", w, P_MIX, 1e-3 if gen[0] == "jakes" and gen[1] else 1.0, gen,
                                       with_initial_pathloss(pl, hist), ant=ant, N=N, switched=start_sw)


def fam_multi(tier):
    """two live objects used alternately: separate, built on the same profile object, or the second on
    a generator obtained with get_similar_fading_generator() from the first one's.  Each must behave
    like a lone object (own fading time, phases, direction, path loss)."""
    ta = {"op": "time", "x": ["expo"], "n": 5}
    tb = {"op": "time", "x": ["ramp"], "n": 3}
    fa = {"op": "freq", "fft": 8, "sel": np.array([7, 0, 2]), "blocks": 2, "x": ["ramp"]}
    fb = {"op": "freq", "fft": 4, "sel": None, "blocks": 1, "x": ["expo2"]}
    spl = lambda t: {"op": "set_pathloss", "value": t}
    sw1 = {"op": "switch", "value": True}
    configs = [("tdl", None, None, None), ("tdl", (2, 3), None, None), ("tdlmimo", (3, 2), None, None),
               ("su", None, None, "v1"), ("sumimo", (2, 2), None, "v1"), ("mu", None, 2, "v1"),
               ("mumimo", (1, 2), (2, 1), None)]
    orders = [[0, 1, 0, 1, 0, 1], [0, 0, 1, 1, 0, 1], [1, 0, 0, 1, 1, 0]]
    steps = [ta, fa, tb, fb, fa, ta]
    for (w, ant, N, pl) in configs:
        for rel in ("separate", "same_profile_object", "similar_generator"):
            for order in orders:
                for gen in GENS:
                    hist = []
                    variant = orders.index(order) % 2
                    if variant:
                        hist.append(dict(sw1, obj=0))            # object 0 switched from the start
                    if pl is not None:
                        hist.append(dict(spl(pl), obj=0))        # path loss on object 0 only
                    for k, (o, st) in enumerate(zip(order, steps)):
                        hist.append(dict(st, obj=o))
                        if k == 2:
                            # object 1: switched (variant 0) / explicitly set to the default (variant 1)
                            hist.append(dict(sw1, obj=1, value=not variant))
                            if pl is not None:
                                hist.append(dict(spl("v2"), obj=1))
                    for form in (("object", "discretized") if rel == "same_profile_object" else ("arrays",)):
                        yield scen("multi", w, P_MIX, 1e-3 if gen[0] == "jakes" and gen[1] else 1.0, gen, hist,
                                   ant=ant, N=N, objects=rel, profile_form=form)


def fam_long(tier):
    """effects from the third step on: 8 transmissions with an event after each"""
    ta = {"op": "time", "x": ["expo"], "n": 5}
    tb = {"op": "time", "x": ["ramp"], "n": 1}
    fa = {"op": "freq", "fft": 8, "sel": np.array([7, 0, 2]), "blocks": 2, "x": ["ramp"]}
    fb = {"op": "freq", "fft": 8, "sel": np.array([1, 5, 3]), "blocks": 1, "x": ["expo2"]}
    fc = {"op": "freq", "fft": 4, "sel": None, "blocks": 3, "x": ["expo"]}
    txs = [ta, fa, fb, tb, fc, ta, fb, tb]
    bad = lambda w: {"op": "bad_call", "what": w}
    ev_all = [{"op": "switch", "value": True}, bad("freq_index_out_of_range"), {"op": "set_pathloss", "value": "v2"},
              bad("time_few_streams"), {"op": "switch", "value": False}, bad("users_few"),
              bad("time_2d_for_siso"), {"op": "set_pathloss", "value": None}, bad("freq_not_multiple"),
              bad("time_many_streams"), bad("pathloss_shape_small")]
    for (w, ant, N, pl) in wrapper_configs():
        fam = "mu" if w.startswith("mu") else ("su" if w.startswith("su") else "tdl")
        for rot in range(0, 8, 2 if tier == "quick" else 1):
            hist = []
            for k in range(8):
                hist.append(dict(txs[(k + rot) % 8]))
                e = ev_all[(k + 3 * rot) % len(ev_all)]
                if e["op"] == "set_pathloss" and fam == "tdl":
                    continue
                hist.append(dict(e))
            for gen in GENS:
                yield scen("long", w, P_12, 1e-3 if gen[0] == "jakes" and gen[1] else 1.0, gen,
                           with_initial_pathloss(pl, hist), ant=ant, N=N)


def fam_scale(tier):
    """everything is linear: amplitudes 1e-12 / 1e12, path loss 1e-12 / 1, Ts 1e-9, 100+ dB tap spans"""
    configs = [("tdl", None, None, False), ("tdl", (2, 3), None, True), ("su", None, None, False),
               ("sumimo", (2, 2), None, False), ("mu", None, 2, False), ("mumimo", (1, 2), (2, 1), True)]
    for (w, ant, N, sw) in configs:
        for gen in GENS:
            for Ts in (1e-9, 1.0):
                for prof in (P_WIDE, P_WIDEC, P_MIX, P_ZERO):
                    for amp in (1e-12, 1e12):
                        for pl in ((None,) if w.startswith("tdl") else
                                   (("tiny", "one") if prof is not P_ZERO else ("zero", "izero", "ione"))):
                            hist = [{"op": "time", "x": ["expo"], "n": 5, "amp": amp},
                                    {"op": "freq", "fft": 8, "sel": slice(1, 7, 2), "blocks": 2, "x": ["ramp"],
                                     "amp": 1.0 / amp},
                                    {"op": "time", "x": ["impulse", 0, 1], "n": 3, "amp": amp}]
                            yield scen("scale", w, prof, Ts, gen, with_initial_pathloss(pl, hist),
                                       ant=ant, N=N, switched=sw)


def fam_dtype(tier):
    """dtype and memory layout of the signal argument"""
    configs = [("tdl", None, None, False, None), ("tdl", (2, 3), None, False, None),
               ("tdl", (3, 2), None, True, None), ("su", (1, 2), None, False, "v1"),
               ("sumimo", (2, 2), None, False, None), ("mu", None, 2, False, "v1"),
               ("mu", None, (2, 1), False, None), ("mumimo", (2, 3), 2, False, None)]
    for (w, ant, N, sw, pl) in configs:
        for gen in (GENS[0], GENS[2]):
            for dt in ("c64", "f64", "f32", "i64", "i32", "c128"):
                for lay in (None, "f", "strided", "neg", "tfirst", "readonly", "readonly_f", "list"):
                    if lay == "list" and not w.startswith("mu"):
                        continue
                    if dt == "c128" and lay is None:
                        continue
                    extra = {"form": "list"} if lay == "list" else {"layout": lay}
                    hist = [dict({"op": "time", "x": ["ramp"], "n": 6, "dtype": dt}, **extra),
                            dict({"op": "freq", "fft": 8, "sel": slice(0, 8, 2), "blocks": 2, "x": ["expo"],
                                  "dtype": dt}, **extra)]
                    yield scen("dtype", w, P_013, 1.0, gen, with_initial_pathloss(pl, hist),
                               ant=ant, N=N, switched=sw)


def fam_sizes(tier):
    """signal lengths and fft sizes around powers of two and a few large ones"""
    ns = [15, 16, 17, 31, 32, 33, 63, 64, 65, 127, 128, 129, 255, 256, 257, 511, 512, 513,
          1023, 1024, 1025, 2047, 2048, 2049, 4097]
    if tier == "thorough":
        ns += [4095, 4096, 8191, 8192, 8193, 16385]
    configs = [("tdl", None, None, False, None, GENS[0], P_013), ("tdl", (2, 3), None, True, None, GENS[2], P_MIX),
               ("mu", None, 2, False, "v1", GENS[1], P_013)]
    for (w, ant, N, sw, pl, gen, prof) in configs:
        for n in ns:
            hist = [{"op": "time", "x": ["expo2"], "n": n}, {"op": "time", "x": ["ramp"], "n": 5}]
            yield scen("sizes", w, prof, 1e-3 if gen == GENS[0] else 1.0, gen, with_initial_pathloss(pl, hist),
                       ant=ant, N=N, switched=sw)
    ffts = [1, 2, 3, 15, 16, 17, 31, 32, 33, 64, 127, 128, 129, 1023, 1024, 1025, 4097]
    for (w, ant, N, sw, pl, gen, prof) in configs:
        for fft in ffts:
            for sel in (None, slice(1, None, 3), np.array([fft - 1, 0, fft // 2])):
                for blocks in (1, 3):
                    if sel is None and fft > 200 and (blocks > 1 or ant is not None):
                        continue
                    if not selection_bins(fft, sel):
                        continue            # a selection of no bin is outside the domain
                    hist = [{"op": "freq", "fft": fft, "sel": sel, "blocks": blocks, "x": ["expo"]},
                            {"op": "time", "x": ["ramp"], "n": 3}]
                    yield scen("sizes", w, prof, 1e-3 if gen == GENS[0] else 1.0, gen,
                               with_initial_pathloss(pl, hist), ant=ant, N=N, switched=sw)


FAMILIES = (("multi", fam_multi), ("long", fam_long), ("events", fam_events), ("scale", fam_scale), ("dtype", fam_dtype), ("sizes", fam_sizes),
            ("forms", fam_forms), ("longm", fam_longm), ("lin", fam_lin), ("ploss", fam_ploss),
            ("cost", fam_cost), ("time", fam_time), ("freq", fam_freq), ("hist", fam_hist),
            ("time_pairs", fam_time_pairs))


def t_cases(tier):
    for _, f in FAMILIES:
        for c in f(tier):
            yield c


# ----------------------------------------------------------------------
def main(chk: Check):
    chk.assume("delay index = round-half-even of the float quotient delay/Ts (Python round(float/float))")
    chk.assume("a reported response is queried immediately after the transmission it belongs to")
    chk.assume("switched direction: the link reported as (rx_idx, tx_idx) carries the signal of original "
               "receiver rx_idx to original transmitter tx_idx; coefficient [r, t] maps antenna r to antenna t")
    chk.assume("fading reference: a shallow copy of each link's Jakes generator (the object this check built and "
               "passed in; for Mu links the generator the channel built, found by candidate private names "
               "_su_siso_channels/_tdlchannel/_fading_generator, relation skipped and counted if unavailable) is "
               "driven through the generator's public API; Rayleigh taps are owned by np.random.seed per scenario "
               "and only related to the reported response")
    chk.assume("frequency-domain selections that select no bin are outside the domain")
    chk.extra["tolerance"] = ("|out-ref| <= %g * 2^-52 * (taps*streams+2) * max|h| * max|x|; powers rel %g; "
                              "fading-reference relation rel 1e-9 + 2 pi Fd Ts 4e-10 samples per tap amplitude"
                              % (C_TOL, POW_RTOL))
    tier = chk.tier

    all_t = list(t_cases(tier))          # built once; the forked workers share it

    def worker(i, n, c):
        for k, case in enumerate(itertools.chain(d_cases(tier), d_cases_scale(tier), e_cases(tier))):
            if k % n == i:
                run_case(case, c)
        for case in all_t[i::n]:
            run_case(case, c)

    run_shards(chk, worker)
    if not chk.counters.get("links_fading_reference_checked"):
        raise Broken("vacuous: the fading-reference relation was never evaluated (%d links skipped)"
                     % chk.counters.get("skipped_fading_reference_links", 0))
    chk.sample({"part": "D", "q": [6, 2, 10], "p": [0.0, -3.0, -10.0], "Ts": 1.0})
    chk.sample(scen("freq", "tdl", P_MIX, 1.0, GENS[0],
                    [{"op": "freq", "fft": 5, "sel": slice(1, None, 2), "blocks": 2, "x": ["expo"]}], ant=(2, 3)))
    chk.sample(scen("hist", "mu", P_12, 1e-3, GENS[0],
                    with_initial_pathloss("v1", [dict(s) for s in step_alphabet("quick")[:3]]), N=(2, 3),
                    switched=True))
    chk.require_outcomes("delay_sets", 15)
    chk.require_outcomes("delay_sets_transmitted", 15)
    chk.require_outcomes("merge_patterns", 8)
    chk.require_outcomes("selection_bins", 60)
    chk.require_outcomes("history_shapes", 10)
    chk.require_outcomes("output_lengths", 12)


def replay(case, chk: Check):
    run_case(case, chk)
