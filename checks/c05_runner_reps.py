"""C05 - the Monte Carlo runner runs exactly the requested repetitions.

Engine E2 (stateless deviation-bounded exploration): the system is closed by
`models.runner_model.ScriptedRunner`; every call of the user's iteration is a
choice point with the answers {succeed with 1 (default), succeed with 2, raise
SkipThisOne}.  For every configuration (grid x rep_max x stop rule x mode) EVERY
placement of at most D non-default answers is executed on the real
`SimulationRunner.simulate()` and compared, call by call and count by count, with
the reference interpreter of the documented loop.
"""
import itertools
import os

import numpy as np

from vmc import choice, crashfs, seams
from vmc.parallel import run_shards, shard

PID = "C05"
LEVEL = "model_checking"
ENGINE = "E2 stateless deviation-bounded explorer over the answers of the user's iteration"
RULE = ("configurations = parameter grids (0-3 unpacked parameters, lengths 1-3, non-sorted insertion "
        "order, list/ndarray values) x rep_max 1..4 x 20 stop predicates (all 16 Boolean functions of the "
        "repetition index, 4 thresholds on the merged result) x mode (all variations / single index / "
        "simulate twice / 2-3 simulate() calls resuming from kept partial results with the limit raised, "
        "kept and lowered, mixing all-variations and single-index calls); per configuration every placement of <= D deviations (value change, skip) over "
        "all calls; oracle = reference interpreter (exact call log, runned_reps, merged value, update "
        "count, skipped count, look-ups by fixed values). Non-trivial = execution with >=1 deviation or "
        "an early stop; distinct = distinct (configuration, choice vector)")

ANSWERS = [("ok", 1), ("ok", 2), ("skip",)]


def grids(tier):
    g = [
        ({}, ()),
        ({"a": 2}, ()),
        ({"b": 3}, ("b",)),
        ({"b": 2, "a": 2}, ()),
        ({"b": 1, "a": 2}, ("b",)),
        ({"b": 2, "a": 1, "c": 2}, ()),
        ({"b": 3, "a": 2}, ("b",)),
        ({"b": 2, "a": 2, "c": 2}, ("c",)),
        ({"z": 3}, ()),                      # values 0, 1, 2 (0 is falsy)
        ({"z": 2, "a": 2}, ("z",)),
        ({"d": 3}, ()),                      # tiny distinct floats
        ({"e": 3, "d": 2}, ("e",)),          # large close floats x tiny floats
        ({"d": 3, "a": 2}, ("d:float32",)),  # tiny distinct values in a single-precision array
        ({"c": 3}, ("c:float32",)),          # ordinary values in a single-precision array
    ]
    if tier == "thorough":
        g += [({"b": 2, "a": 3}, ()), ({"c": 3, "a": 1}, ()), ({"b": 1, "a": 1, "c": 1}, ()),
              ({"b": 3, "a": 3}, ("b",))]
    return g


def configs(tier):
    """deterministic list of configurations, simplest first"""
    from models import runner_model as RM
    out = []
    for gi, (lengths, arr) in enumerate(grids(tier)):
        nvar = int(np.prod(list(lengths.values()))) if lengths else 1
        for rep_max in ((1, 2, 3, 4, 5) if tier == "thorough" else (1, 2, 3, 4)):
            # a predicate on the repetition index is only ever consulted with effect at
            # rep = 1..rep_max-1, so 2^(rep_max-1) masks cover all Boolean functions
            fam = [("rep", m) for m in range(2 ** (rep_max - 1))]
            fam += [("sum", s) for s in ((5,) if rep_max == 1 else (2, 3, 4, 5))]
            fam += [("default", 0)]          # the library's own _keep_going
            if rep_max >= 2:
                # the same predicates returning numpy booleans (truthy/falsy, not the singletons)
                fam += [("rep_np", 2 ** (rep_max - 1) - 1), ("rep_np", 1), ("sum_np", 3)]
            for ks in fam:
                modes = ["all"]
                if nvar <= 4:
                    modes.append("twice")
                if lengths and nvar <= 3 and rep_max <= 2 and (
                        ks in (("rep", 2 ** (rep_max - 1) - 1), ("sum", 3), ("sum", 5)) or tier == "thorough"):
                    # second simulate() after the grid / the limit was changed on the same runner
                    modes += ["twice_setitem", "twice_add", "twice_rep_max", "twice_two_runners"]
                if not lengths and rep_max in (2, 3):
                    modes += ["single:0"]      # the only combination of a set without unpacked parameters
                if lengths and rep_max in (2, 3):
                    modes += ["single:%d" % i for i in range(nvar)]
                    if ks[0] in ("default", "sum"):
                        modes += ["singlestr:%d" % i for i in (0, nvar - 1)]    # index given as a string
                if rep_max == 1 and nvar <= (4 if tier == "thorough" else 3) and gi < (7 if tier == "thorough" else 5) \
                        and ks in (("rep", 0), ("sum", 3), ("sum", 5), ("default", 0)):
                    # a results file name is set, so partial results are kept and every further simulate()
                    # on the same runner RESUMES from them: sequences of (target, limit) steps with the
                    # limit raised, kept and LOWERED (cfg rep_max is unused; ("rep", 0) stands for the
                    # always-true predicate)
                    modes += resume_modes(tier, bool(lengths), ks)
                for mode in modes:
                    calls = nvar * rep_max * (2 if mode.startswith("twice") else 1)
                    if mode.startswith("resume:"):
                        calls = nvar * max(int(st[1:]) for st in mode.split(":")[1].split("-"))
                    if tier == "thorough":
                        bound = 4 if calls <= 8 else (3 if calls <= 16 else 2)
                    else:
                        bound = 3 if calls <= 5 else (2 if calls <= 10 else 1)
                    if mode.startswith("resume:"):
                        bound = (2 if calls <= 4 else 1) if tier == "thorough" else 1
                    out.append(dict(grid=gi, lengths=lengths, as_array=list(arr), rep_max=rep_max,
                                    keep=list(ks), mode=mode, bound=bound))
    return out


def resume_modes(tier, has_grid, ks):
    """step = 'a<limit>' (simulate all variations) or 's<limit>' (simulate the LAST variation index only)"""
    lim = (1, 2, 3)
    thorough = tier == "thorough"
    if ks == ("sum", 5) and not thorough:
        return []
    pats = ["aaa"] + (["asa", "saa", "ssa"] if has_grid else [])
    if thorough:
        pats += ["aa"] + (["as", "sa"] if has_grid else [])
    out = []
    for pat in pats:
        for ls in itertools.product(lim, repeat=len(pat)):
            if len(set(ls)) == 1 and ls[0] == 1:
                continue
            lowered = any(ls[j] < ls[j - 1] for j in range(1, len(ls)))
            if not thorough and (pat != "aaa" or ks == ("default", 0)) and not lowered:
                continue
            out.append("resume:" + "-".join(t + str(l) for t, l in zip(pat, ls)))
    return out


def execute_resume(cfg, ctx, chk):
    """simulate() several times on ONE runner that keeps partial results (results file name set): every
    further call resumes each combination from its stored partial result, whatever the new limit is."""
    from models import runner_model as RM
    from pyphysim.simulations import runner as R
    from pyphysim.simulations.results import SimulationResults
    pd, unpacked = RM.make_grid(cfg["lengths"], as_array=tuple(cfg["as_array"]))
    keep = tuple(cfg["keep"])
    steps = [(st[0], int(st[1:])) for st in cfg["mode"].split(":")[1].split("-")]
    if keep == ("rep", 0):
        keep = ("true", 0)

    def answer(k, cp):
        return ANSWERS[ctx.choose(3, "call")]

    clock = seams.VirtualClock()
    fs = crashfs.CrashFS()
    case = dict(cfg=cfg, choices="(filled below)")
    try:
        fixed = {k: v for k, v in RM._plain(pd).items() if k not in unpacked}
        vars_ = RM.variations(RM._plain(pd), unpacked)
        last = len(vars_) - 1
        observed = []          # per step: what the implementation reports
        exc = None
        with clock.installed(R):
            runner = RM.ScriptedRunner(pd, unpacked, steps[0][1], keep, answer)
            runner.set_results_filename(os.path.join(fs.root, "res"))
            try:
                for target, limit in steps:
                    runner.rep_max = limit
                    if target == "a":
                        runner.simulate()
                        res = runner.results
                        observed.append(dict(runned_reps=list(runner.runned_reps),
                                             results_runned_reps=list(res.runned_reps),
                                             v=[(r.get_result(), r.num_updates) for r in res["v"]]))
                    else:
                        runner.simulate(last)
                        observed.append(dict(runned_reps=runner.runned_reps))
                    # partial results on disk, identified by their parameter values
                    files = {}
                    for d, _, fns in os.walk(fs.root):
                        for fn in fns:
                            if fn.split(".")[0] == "res":
                                continue          # the final results file
                            pr = SimulationResults.load_from_file(os.path.join(d, fn))
                            vals = RM._plain({n: pr.params[n] for n in unpacked})
                            idx = vars_.index(vals)
                            files[idx] = (pr["v"][-1].get_result(), pr["v"][-1].num_updates, pr.current_rep)
                    observed[-1]["partial_files"] = files
            except Exception as e:  # noqa
                exc = e
        # ---------------- reference -----------------
        stream = list(ctx.choices)
        pos = [0]
        ref_log = []

        def next_answer(rv):
            c = stream[pos[0]] if pos[0] < len(stream) else 0
            pos[0] += 1
            chk.outcome("loop_state", (_cfg_key(cfg), rv.index, len(rv.succ), sum(rv.succ), rv.skipped))
            chk.count("loop_transitions")
            full = dict(fixed)
            full.update(rv.values)
            ref_log.append((rv.index if unpacked else -1, full))
            return ANSWERS[c]

        state = {}             # variation -> (rep, merged sum, number of merged repetitions)
        expected = []
        for target, limit in steps:
            todo = range(len(vars_)) if target == "a" else [last]
            for i in todo:
                rv = RM.ref_run_variation(RM.RefVariation(i, vars_[i]), limit, keep, next_answer,
                                          loaded=state.get(i))
                b = state.get(i, (0, 0, 0))
                state[i] = (rv.rep, b[1] + sum(rv.succ), b[2] + len(rv.succ))
            if target == "a":
                expected.append(dict(runned_reps=[state[i][0] for i in range(len(vars_))],
                                     results_runned_reps=[state[i][0] for i in range(len(vars_))],
                                     v=[(state[i][1], state[i][2]) for i in range(len(vars_))]))
            else:
                expected.append(dict(runned_reps=state[last][0]))
            expected[-1]["partial_files"] = {i: (st[1], st[2], st[0]) for i, st in state.items()}
        case = dict(cfg=cfg, choices=list(ctx.choices))
        lowered = any(steps[j][1] < steps[j - 1][1] for j in range(1, len(steps)))
        how = "limit_lowered" if lowered else "limit_not_lowered"
        if exc is not None:
            chk.fail(("simulate_raises", type(exc).__name__, how, "resume"), case,
                     observed="%s: %s" % (type(exc).__name__, exc), expected="simulate() completes")
            return ("exception", type(exc).__name__)
        if runner.call_log != ref_log:
            k = next((i for i, (x, y) in enumerate(zip(runner.call_log, ref_log)) if x != y),
                     min(len(runner.call_log), len(ref_log)))
            chk.fail(("call_log", "resume", how), case,
                     observed="%d calls; first difference at call %d: %r" % (
                         len(runner.call_log), k, runner.call_log[k:k + 1]),
                     expected="%d calls; %r" % (len(ref_log), ref_log[k:k + 1]))
            return ("call_log_mismatch",)
        for j, (o, e) in enumerate(zip(observed, expected)):
            for key in e:
                if o[key] != e[key]:
                    chk.fail(("resume", key, how), dict(case, step=j), observed=o[key], expected=e[key])
        return ("ok", tuple(st[0] for _, st in sorted(state.items())), tuple(st[2] for _, st in sorted(state.items())))
    finally:
        fs.cleanup()


# ----------------------------------------------------------------------
def execute(cfg, ctx, chk, lookups=True):
    if cfg["mode"].startswith("resume:"):
        return execute_resume(cfg, ctx, chk)
    """one complete execution on the implementation + comparison with the reference.
    Returns an outcome key."""
    from models import runner_model as RM
    from pyphysim.simulations import runner as R
    from pyphysim.simulations.results import SimulationResults
    pd, unpacked = RM.make_grid(cfg["lengths"], as_array=tuple(cfg["as_array"]))
    keep = tuple(cfg["keep"])
    rep_max = cfg["rep_max"]
    mode = cfg["mode"]

    def answer(k, cp):
        return ANSWERS[ctx.choose(3, "call")]

    clock = seams.VirtualClock()
    fs = None
    runs = 2 if mode.startswith("twice") else 1
    single = int(mode.split(":")[1]) if mode.startswith("single") else None
    single_arg = (str(single) if mode.startswith("singlestr") else single)
    exc = None
    boundaries = []
    snap_a = runner_a = None
    mid_lookups = None
    # grid / limit used by the SECOND simulate() of the "twice_*" modes
    pd2, rep_max2 = second_run_setup(pd, unpacked, rep_max, mode)
    try:
        with clock.installed(R):
            runner = RM.ScriptedRunner(pd, unpacked, rep_max, keep, answer)
            if single is not None:
                fs = crashfs.CrashFS()
                runner.set_results_filename(os.path.join(fs.root, "res"))
                runner.partial_results_folder = os.path.join(fs.root, "partial")
            try:
                for run_i in range(runs):
                    if run_i == 1 and mode == "twice_two_runners":
                        # a SECOND live runner object with another grid and limit; the first one must
                        # not be affected by it (class-level / module-level state)
                        runner_a = runner
                        snap_a = _snapshot(runner_a)
                        runner = RM.ScriptedRunner(pd2, unpacked, rep_max2, keep, answer)
                    elif run_i == 1:
                        change_between_runs(runner, mode, pd2, unpacked)
                    if single is None:
                        runner.simulate()
                    else:
                        runner.simulate(single_arg)
                    boundaries.append(len(runner.call_log))
                    if run_i == 0 and runs == 2 and single is None and unpacked and lookups:
                        # query between the two runs (wave 9, C05-w9seed1: a look-up cache warmed by a
                        # query and not dropped by the item assignment): every look-up is made on the
                        # results of the FIRST run and judged below against the first run's reference
                        mid_lookups = _observe_lookups(runner.results, RM._plain(pd), unpacked)
            except Exception as e:  # noqa
                exc = e
            if snap_a is not None and exc is None and _snapshot(runner_a) != snap_a:
                chk.fail(("two_live_runners", "first_runner_changed_by_second"),
                         dict(cfg=cfg, choices=list(ctx.choices)), observed=_snapshot(runner_a), expected=snap_a)
        # ---------------- reference -----------------
        stream = list(ctx.choices)
        pos = [0]
        ref_log = []
        fixed = {k: v for k, v in RM._plain(pd).items() if k not in unpacked}
        vars_ = RM.variations(RM._plain(pd), unpacked)
        vars_2 = RM.variations(RM._plain(pd2), unpacked)

        first_skip = [False]

        def next_answer(rv):
            c = stream[pos[0]] if pos[0] < len(stream) else 0
            pos[0] += 1
            # abstract state of the runner loop in which this call is made (for the evidence)
            chk.outcome("loop_state", (_cfg_key(cfg), rv.index, len(rv.succ), sum(rv.succ), rv.skipped))
            chk.count("loop_transitions")
            full = dict(fixed)
            full.update(rv.values)
            ref_log.append((rv.index if unpacked else -1, full))
            if ANSWERS[c][0] == "skip" and not rv.succ:
                first_skip[0] = True
            return ANSWERS[c]

        ref_runs = []
        for run_i in range(runs):
            rvs = []
            for i, vals in enumerate(vars_ if run_i == 0 else vars_2):
                if single is not None and i != single:
                    continue
                rvs.append(RM.ref_run_variation(RM.RefVariation(i, vals), rep_max if run_i == 0 else rep_max2,
                                                keep, next_answer))
            ref_runs.append(rvs)
        if mid_lookups is not None and exc is None:
            sums0 = [sum(rv.succ) for rv in ref_runs[0]]
            for fixed_q, got_idx, got_vals in mid_lookups:
                want_idx = [i for i, v in enumerate(vars_) if all(v[n] == fv for n, fv in fixed_q.items())]
                chk.count("eval_lookups")
                if got_idx != want_idx:
                    chk.fail(("get_pack_indexes", "between_two_runs"), dict(cfg=cfg, choices=list(ctx.choices),
                             fixed=fixed_q), observed=got_idx, expected=want_idx)
                elif got_vals != [sums0[i] for i in want_idx]:
                    chk.fail(("get_result_values_list", "between_two_runs"), dict(cfg=cfg, choices=list(ctx.choices),
                             fixed=fixed_q), observed=got_vals, expected=[sums0[i] for i in want_idx])
        if runs == 2:
            vars_, pd = vars_2, pd2      # look-ups are judged on the final state
        rvs = ref_runs[-1]
        case = dict(cfg=cfg, choices=list(ctx.choices))
        how = "first_repetition_skipped" if first_skip[0] else "no_first_rep_skip"
        if exc is not None:
            chk.fail(("simulate_raises", type(exc).__name__, how, mode.split(":")[0]), case,
                     observed="%s: %s" % (type(exc).__name__, exc), expected="simulate() completes")
            return ("exception", type(exc).__name__)
        m = mode.split(":")[0]
        full_log = (runner_a.call_log if snap_a is not None else []) + runner.call_log
        if full_log != ref_log:
            k = next((i for i, (x, y) in enumerate(zip(full_log, ref_log)) if x != y),
                     min(len(full_log), len(ref_log)))
            chk.fail(("call_log", m, how), case,
                     observed="%d calls; first difference at call %d: %r" % (
                         len(full_log), k, full_log[k:k + 1]),
                     expected="%d calls; %r" % (len(ref_log), ref_log[k:k + 1]))
            return ("call_log_mismatch",)
        want_reps = [rv.rep for rv in rvs]
        if single is None:
            if list(runner.runned_reps) != want_reps:
                chk.fail(("runned_reps", m, how), case, observed=runner.runned_reps, expected=want_reps)
            res = runner.results
            got_v = [(r.get_result(), r.num_updates) for r in res["v"]]
            want_v = [(sum(rv.succ), len(rv.succ)) for rv in rvs]
            if got_v != want_v:
                chk.fail(("merged_value", m, how), case, observed=got_v, expected=want_v)
            got_s = [r.get_result() for r in res["num_skipped_reps"]]
            if got_s != [rv.skipped for rv in rvs]:
                chk.fail(("num_skipped_reps", m, how), case, observed=got_s,
                         expected=[rv.skipped for rv in rvs])
            if list(res.runned_reps) != want_reps:
                chk.fail(("results.runned_reps", m, how), case, observed=res.runned_reps, expected=want_reps)
            if lookups:
                check_lookups(chk, case, res, RM._plain(pd), unpacked, vars_, [sum(rv.succ) for rv in rvs])
        else:
            if runner.runned_reps != want_reps[0]:
                chk.fail(("runned_reps", m, how), case, observed=runner.runned_reps, expected=want_reps[0])
            pfile = None
            for d, _, files in os.walk(fs.root):
                for fn in files:
                    pfile = os.path.join(d, fn)
            if pfile is None:
                chk.fail(("single_variation", "no_partial_file", how), case, observed="no file",
                         expected="partial results file of the simulated variation")
            else:
                pr = SimulationResults.load_from_file(pfile)
                got = (pr["v"][-1].get_result(), pr["v"][-1].num_updates, pr.current_rep)
                want = (sum(rvs[0].succ), len(rvs[0].succ), rvs[0].rep)
                if got != want:
                    chk.fail(("single_variation", "partial_file_content", how), case, observed=got, expected=want)
        return ("ok", tuple(want_reps), tuple(rv.skipped for rv in rvs))
    finally:
        if fs is not None:
            fs.cleanup()


def _snapshot(runner):
    res = runner.results
    return (repr(runner.runned_reps), [(r.get_result(), r.num_updates) for r in res["v"]],
            [r.get_result() for r in res["num_skipped_reps"]], sorted(runner.params.parameters.keys()))


def second_run_setup(pd, unpacked, rep_max, mode):
    """the parameters of the second simulate() on the same runner"""
    pd2 = dict(pd)
    rep_max2 = rep_max
    if mode in ("twice_setitem", "twice_add") and unpacked:
        n = sorted(unpacked)[0]
        vals = list(pd[n])
        # other values, other length: the second run must iterate the NEW grid
        fresh = (vals[0] + "q") if isinstance(vals[0], str) else (max(vals) * 7 + 1)
        new = vals[::-1] + [fresh]
        pd2[n] = np.array(new) if isinstance(pd[n], np.ndarray) else new
    if mode in ("twice_rep_max", "twice_two_runners"):
        rep_max2 = rep_max + 1
    if mode == "twice_two_runners" and unpacked:
        n = sorted(unpacked)[0]
        vals = list(pd[n])
        pd2[n] = (vals + [(vals[0] + "q") if isinstance(vals[0], str) else (max(vals) * 7 + 1)])[1:]
    return pd2, rep_max2


def change_between_runs(runner, mode, pd2, unpacked):
    if mode == "twice_setitem":
        n = sorted(unpacked)[0]
        runner.params[n] = pd2[n]            # item assignment
    elif mode == "twice_add":
        n = sorted(unpacked)[0]
        runner.params.add(n, pd2[n])
    elif mode == "twice_rep_max":
        runner.rep_max = runner.rep_max + 1


def _observe_lookups(res, pd, unpacked):
    """every look-up by fixed values on `res`, recorded (not judged) as (fixed, indexes, values)"""
    names = sorted(unpacked)
    out = []
    for comb in itertools.product(*[[None] + list(pd[n]) for n in names]):
        fixed = {n: v for n, v in zip(names, comb) if v is not None}
        if not fixed:
            continue
        idx = [int(i) for i in res.params.get_pack_indexes(fixed)]
        out.append((fixed, idx, list(res.get_result_values_list("v", fixed))))
    return out


def check_lookups(chk, case, res, pd, unpacked, vars_, sums):
    names = sorted(unpacked)
    if not names:
        return
    opts = [[None] + list(pd[n]) for n in names]
    for comb in itertools.product(*opts):
        fixed = {n: v for n, v in zip(names, comb) if v is not None}
        if not fixed:
            continue
        want_idx = [i for i, v in enumerate(vars_) if all(v[n] == fv for n, fv in fixed.items())]
        chk.count("eval_lookups")
        got_idx = list(res.params.get_pack_indexes(fixed))
        if [int(i) for i in got_idx] != want_idx:
            chk.fail(("get_pack_indexes",), dict(case, fixed=fixed), observed=got_idx, expected=want_idx)
        got = res.get_result_values_list("v", fixed)
        want = [sums[i] for i in want_idx]
        if list(got) != want:
            chk.fail(("get_result_values_list",), dict(case, fixed=fixed), observed=got, expected=want)
        # the other look-up entry point: confidence intervals of precisely the matching combinations
        getter = getattr(res, "get_result_values_confidence_intervals", None)
        if getter is not None:
            try:
                want_ci = [np.asarray(res["v"][i].get_confidence_interval(95.0), dtype=float) for i in want_idx]
            except Exception:  # noqa  (no interval defined for these results: nothing to compare)
                want_ci = None
            if want_ci is not None:
                chk.count("eval_lookups")
                got_ci = [np.asarray(x, dtype=float) for x in getter("v", 95.0, fixed)]
                same = len(got_ci) == len(want_ci) and all(
                    a.shape == b.shape and np.allclose(a, b, rtol=1e-12, atol=0.0, equal_nan=True)
                    for a, b in zip(got_ci, want_ci))
                if not same:
                    chk.fail(("get_result_values_confidence_intervals",), dict(case, fixed=fixed),
                             observed="%d intervals %r" % (len(got_ci), [x.tolist() for x in got_ci[:4]]),
                             expected="%d intervals %r" % (len(want_ci), [x.tolist() for x in want_ci[:4]]))


# ----------------------------------------------------------------------
def explore_config(cfg, chk):
    outcomes = set()

    def run(ctx):
        with chk.guard(("execute",), dict(cfg=cfg, choices="(see message)")):
            o = execute(cfg, ctx, chk, lookups=True)
            nd = sum(1 for c in ctx.choices if c)
            chk.count("eval_executions")
            chk.outcome("result", o)
            outcomes.add(o)
            if nd or (o[0] == "ok" and any(r < cfg["rep_max"] for r in o[1])):
                chk.nontriv((_cfg_key(cfg), tuple(ctx.choices)))
            if nd == 2 and len(chk.samples) < 4:
                chk.sample(dict(cfg=cfg, choices=list(ctx.choices), outcome=list(map(str, o))))
        return None

    ex = choice.Explorer(run, cfg["bound"], horizon=400)
    ex.explore()
    chk.count("configs")
    chk.extra["max_choice_points"] = max(chk.extra.get("max_choice_points", 0), ex.max_points)
    return ex.executions


def _cfg_key(cfg):
    return (cfg["grid"], cfg["rep_max"], tuple(cfg["keep"]), cfg["mode"])


def main(chk):
    cfgs = configs(chk.tier)
    chk.assume("parameter lists contain no duplicate values (look-up by value is ambiguous otherwise)")
    chk.assume("serial simulate() only; simulate_in_parallel needs an ipyparallel cluster and is outside the quantifier")
    chk.assume("first repetition of a variation is unconditional (documented); a skipped repetition is retried "
               "and never counted, also when it is the first one")
    # determinism of the harness: same choice vector twice -> same recorded points
    c0 = dict(cfgs[len(cfgs) // 2])
    tmp = chk.child_check()
    choice.check_determinism(lambda ctx: execute(c0, ctx, tmp), prefix=[1, 0, 2])

    def cost(cfg):
        nvar = int(np.prod(list(cfg["lengths"].values()))) if cfg["lengths"] else 1
        calls = nvar * cfg["rep_max"] * (2 if cfg["mode"].startswith("twice") else 1)
        return (2.0 * calls) ** cfg["bound"]

    # longest-processing-time-first round robin (deterministic) for load balance
    order = sorted(range(len(cfgs)), key=lambda k: (-cost(cfgs[k]), k))

    def worker(i, n, c):
        for k in shard(iter(order), i, n):
            explore_config(cfgs[k], c)

    run_shards(chk, worker)
    chk.extra["configurations"] = len(cfgs)
    chk.extra["deviation_bounds_used"] = sorted(set(c["bound"] for c in cfgs))
    # model-checking style numbers: every execution is a complete trace of the runner
    # state machine validated against the reference interpreter
    # measured: distinct abstract states of the runner loop (configuration, variation, successful
    # repetitions, merged value, skipped count) in which a call was made; transitions = calls executed;
    # every execution is one complete trace compared call by call with the reference interpreter
    chk.states = len(chk.outcomes.get("loop_state", ()))
    chk.transitions = chk.counters.get("loop_transitions", 0)
    chk.traces_validated = chk.counters.get("eval_executions", 0)
    chk.require_outcomes("result", 8)


def replay(case, chk):
    cfg = case["cfg"]
    pre = list(case["choices"])
    ctx = choice.Ctx(pre, None, 400)
    with chk.guard(("execute",), case):
        execute(cfg, ctx, chk)
