"""C20 - subspace and linear-algebra kernels satisfy their defining identities.

E1 (finite product, exhaustive over constructed finite families; no sampling):

part "matrix"   every member A (m x n, 1<=n<=m<=M) of the families below goes through
    projections  Q=calcProjectionMatrix(A): Q=Q^H=Q^2, QA=A, Q+oQ=I, Q==U U^H (harness thin SVD),
                 Projection(A).project/oProject/reflect on matrices and vectors, reflect^2=id
    gmd          Q R P^H = A, Q^H Q = I, P^H P = I, R upper triangular (exact zeros), diag R = geometric
                 mean of the singular values
    lrsv         least_right_singular_vectors(A, k) for every k (and of A^T - a wide matrix - for
                 every k >= nullity): [V0 V1] unitary, ||A V0_i|| = i-th smallest singular value,
                 S = remaining ones in the order of V1
    peig/leig    on the Hermitian matrices A^H A (definite) and A A^H (semi-definite, repeated
                 zero eigenvalue) for every k: eigen pairs, the right ones, right order (k>N: outcome only)
    whitening    C = A A^H + eps I (low rank + noise floor: repeated eigenvalue) and C = A^H A:
                 W^H C W = I
part "update"   update_inv_sum_diag(X, d): (I + X d) R = X and R (X^-1 + diag d) = I for HPD X and
                every d in a value alphabet ^ n; input not modified
part "chordal"  pairs (A, B) of equal dimension: calc_chordal_distance, _2 and principal-angle route
                agree with the harness reference, symmetric, d(A, A T) = 0, d(UA, UB) = d(A, B)
part "conv"     dB/linear/dBm and SNR<->Eb/N0 conversions mutually inverse and equal to closed forms
                on 301 points over 30 decades, bits 1..12, scalars and arrays

Families (vmc.families): all {1,j,-1} complex and all {0,1,-1} integer matrices with few entries,
generic complex / real members, nearly dependent members (kappa 1e2,1e4,1e6), members with tied
singular values.  Members above the relation's condition bound are excluded and counted.
"""
import contextlib
import itertools
import math
import os
import traceback

import numpy as np

from vmc import families as F
from vmc import numerics as N
from vmc.parallel import run_shards, shard
from vmc.report import Broken, Check

PID = "C20"
LEVEL = "exploration"
ENGINE = "E1 exhaustive product: kernels x shapes x matrix families"
RULE = ("matrix part: every m x n (1<=n<=m<=4, thorough 6; generic members to 8; quick also m=5..6 for "
        "generic/nearly dependent/tied members: first 8/3/1 through all kernels, 36/12/3 through the gmd "
        "identities) member of "
        "{all {1,j,-1} complex matrices <=6 (thorough 8) entries, all {0,1,-1} int64 matrices likewise "
        "(quick: the 4x2 integer family through peig/leig only), "
        "generic complex/real s<12 (100), nearly dependent kappa 1e2/1e4/1e6 s<6 (30), tied singular "
        "value profiles} x {projection, gmd, least_right_singular_vectors (all k; A^T for k>=nullity), "
        "peig/leig on A^H A and A A^H (all k), whitening of A A^H+eps I and A^H A}; update part: HPD X x "
        "every d in {0,.5,1,10,1e3}^n, and general invertible X (generic complex non-Hermitian, real "
        "non-symmetric, inverses of such) x every d in {-2,-.5,0,.5,1,10}^n and complex d in {0,1,.5+.5j,-j}^n "
        "with well-conditioned partial sums; chordal part: all pairs of the tiny exhaustive families, generic "
        "pairs (s,s+1..s+3), nearly dependent pairs; conv part: 301 points over 30 decades x bits 1..12. "
        "Degenerate and wide shapes (1x1, 1xn and mx1 up to 6, 2x3..5x6; real and complex generic, scaled, nearly "
        "dependent, nearly tied members) through gmd, least_right_singular_vectors, peig/leig and whitening (the "
        "projection needs full column rank). "
        "Every kernel additionally: global scale factors 1e-12..1e9 on generic/nearly dependent members, nearly "
        "tied singular values (relative gaps 1e-6, 1e-9), and an aliasing battery (arguments Fortran ordered, "
        "read-only transposed view, read-only C copy: arguments bit-identical afterwards, no exception, second call "
        "with the same objects identical, result independent of layout) on all members except 3 of 4 members of "
        "the exhaustive small-entry families. "
        "Chordal pairs of DIFFERENT column counts (1 vs 2, 2 vs 4, 1 vs 3, 3 vs 2, 1 vs m; generic and nested; real "
        "and complex): calc_chordal_distance and calc_chordal_distance_2 against ||P1-P2||_F/sqrt(2) of harness "
        "projectors, symmetric, agreeing (a routine that raises and the principal-angle route: outcomes only). "
        "Rank-deficient members and members above the relation's kappa bound are excluded and counted. "
        "A case is non-trivial when the matrix has more than one entry; distinct = distinct "
        "(kernel, family, member, shape, parameter)")

K_PROJ = 1e4        # projection / chordal_2 use (A^H A)^-1: relations hold to eps*kappa^2
K_MAX = 1e6         # gmd, lrsv, QR based chordal: eps*kappa
K_COV = 1e8         # covariance condition bound for whitening / update
C = 1e3             # err <= C * 2^-52 * kappa_eff * scale
GAP_REPEATED = 1e-6   # eigenvalues closer than this (relative to ||C||) count as repeated (outcome classes)
GAP_CLUSTER = 1e-3    # signature class of a whitening failure: smallest relative eigenvalue gap below / above


VERIF_ROOT = os.path.dirname(os.path.dirname(os.path.abspath(__file__)))


def _origin(exc):
    """'library' if the innermost frame that belongs to pyphysim or to /verif is pyphysim's, else 'check'"""
    for fr in reversed(traceback.extract_tb(exc.__traceback__)):
        fn = os.path.abspath(fr.filename)
        if "/pyphysim/" in fn and not fn.startswith(VERIF_ROOT + os.sep):
            return "library"
        if fn.startswith(VERIF_ROOT + os.sep):
            return "check"
    return "check"


@contextlib.contextmanager
def guard(chk, sig_prefix, case):
    """chk.guard for VALID calls: an exception raised inside pyphysim is a violation; an exception whose
    innermost own frame is the check's code means the check is broken (exit 2), never a property verdict"""
    with chk.guard(sig_prefix, case):
        try:
            yield
        except (KeyboardInterrupt, SystemExit, Broken):
            raise
        except BaseException as e:  # noqa
            if _origin(e) == "check":
                raise Broken("check code raised %s: %s at %s (case %s)" % (
                    type(e).__name__, e, traceback.extract_tb(e.__traceback__)[-1][:3],
                    {k: v for k, v in case.items() if k in ("part", "fam", "member", "kernel")}))
            raise


def bound(k):
    return k * (1 + 1e-6)           # kappa itself carries rounding


# ----------------------------------------------------------------------
# families
# ----------------------------------------------------------------------
def shapes(M):
    return [(m, n) for m in range(1, M + 1) for n in range(1, m + 1)]


TIED = {2: [(1, 1), (1 + 2.0 ** -52, 1), (2, 2 - 2.0 ** -51), (3, 1)],
        3: [(1, 1, 1), (2, 1, 1), (2, 2, 1), (2, 2 * (1 - 2.0 ** -52), 1), (4, 2, 1)],
        4: [(1, 1, 1, 1), (2, 2, 1, 1), (3, 1, 1, 1), (3, 3, 3, 1)],
        5: [(1, 1, 1, 1, 1), (2, 2, 1, 1, 1), (4, 3, 2, 1, 1), (9, 1, 1, 1, 1), (5, 4, 3, 2, 1),
            (16, 8, 4, 2, 1), (3, 3, 3, 3, 1), (8, 7, 1, 1, 1)],
        6: [(1, 1, 1, 1, 1, 1), (2, 2, 2, 1, 1, 1), (6, 5, 4, 3, 2, 1), (32, 16, 8, 4, 2, 1),
            (9, 9, 1, 1, 1, 1), (9, 1, 1, 1, 1, 1), (5, 5, 5, 5, 5, 1), (7, 6, 5, 1, 1, 1)]}


def tied_member(s, shape, prof):
    m, n = shape
    U = F.unitary(s, m, tag=21)
    V = F.unitary(s + 50, n, tag=22)
    return (U[:, :n] * np.array(prof, dtype=float)) @ V.conj().T


SCALES = (1e-12, 1e-9, 1e-6, 1e6, 1e9)


def near_tied_profiles(n):
    """singular values nearly but not exactly equal (relative gaps 1e-6 and 1e-9), descending"""
    k = np.arange(n)
    profs = [1.0 - 1e-6 * k, 1.0 + 1e-9 * (k - (n - 1) / 2.0), np.where(k == 0, 1.0 + 1e-6, 1.0 - 1e-9 * k),
             np.where(k < (n + 1) // 2, 2.0, 2.0 * (1 - 1e-6)) * (1 + 1e-9 * k)]
    return [np.sort(p)[::-1] for p in profs]


def fam_scale(fam):
    return float(fam.split("@")[1].split("_")[0]) if "@" in fam else 1.0


def scaled_items(tier):
    """global scale factors (all relations are scale covariant; tolerances are relative) and nearly
    tied singular values, every kernel on the first members, the gmd identities on all of them"""
    thorough = tier == "thorough"
    Ss = 6 if thorough else 2
    shp = shapes(6 if thorough else 4) + ([] if thorough else [(5, 4), (5, 5), (6, 5), (6, 6)])
    for shape in shp:
        m, n = shape
        for g in SCALES:
            for s in range(Ss):
                yield ("generic_c@%g" % g, s, g * F.generic(s, shape, True, tag=20))
                yield ("generic_r@%g" % g, s, g * F.generic(s, shape, False, tag=20))
                if n >= 2:
                    yield ("neardep100@%g" % g, s, g * F.nearly_dependent(s, shape, 1e2))
        if n >= 2:
            for pi, prof in enumerate(near_tied_profiles(n)):
                for g in (1.0, 1e-9, 1e6):
                    for s in range(2 * Ss):
                        yield ("neartied%d@%g%s" % (pi, g, "" if s < 1 else "_gmdonly"), s,
                               g * tied_member(s, shape, prof))


def degenerate_and_wide_items(tier):
    """every shape with 1 as a dimension (1x1, 1xn, mx1 up to 6) and a few properly wide shapes, real AND
    complex generic entries (every complex entry has a non-zero imaginary part), also at other magnitudes.
    (The tall / square shapes of the other families only ever give the kernels n <= m.)"""
    thorough = tier == "thorough"
    S = 20 if thorough else 6
    one = [(1, 1)] + [(1, n) for n in range(2, 7)] + [(m, 1) for m in range(2, 7)]
    wide = [(2, 3), (2, 5), (3, 4), (3, 6), (4, 5), (5, 6)] + ([(2, 4), (2, 6), (4, 6), (6, 8)] if thorough else [])
    for shape in one + wide:
        m, n = shape
        for s in range(S):
            yield ("degen_c", s, F.generic(s, shape, True, tag=30))
            yield ("degen_r", s, F.generic(s, shape, False, tag=30))
        for g in (1e-9, 1e6):
            for s in range(2):
                yield ("degen_c@%g" % g, s, g * F.generic(s, shape, True, tag=30))
        if min(m, n) >= 2:
            for kappa in (1e2, 1e4):
                for s in range(S // 2):
                    yield ("degen_neardep%g" % kappa, s, F.nearly_dependent(s, shape, kappa))
            for pi, prof in enumerate(near_tied_profiles(min(m, n))[:2]):
                yield ("degen_neartied%d" % pi, 0, tied_member(0, (n, m), prof).T.copy())


def real_with_singular_values(s, shape, sv):
    """real matrix with prescribed singular values (orthogonal factors from real generic members)"""
    m, n = shape
    r = min(m, n)
    U = np.linalg.qr(F.generic(s, (m, m), False, tag=32))[0]
    V = np.linalg.qr(F.generic(s + 50, (n, n), False, tag=33))[0]
    return (U[:, :r] * np.asarray(sv, dtype=float)) @ V[:, :r].T


def pairwise_items(tier):
    """PAIRWISE combinations of the axes otherwise varied one at a time around the default (complex, unit
    magnitude, generic, tall): real x {nearly dependent, tied, nearly tied, scaled}, integer x {wide, scaled},
    wide x {real scaled, real nearly dependent}"""
    S = 4 if tier == "thorough" else 2
    for shape in [(1, 1), (2, 2), (3, 2), (4, 4), (4, 2), (2, 3), (1, 3), (3, 1), (5, 5), (3, 5)]:
        m, n = shape
        r = min(m, n)
        for s in range(S):
            Rg = F.generic(s, shape, False, tag=34)
            yield ("pair_int", s, np.rint(4 * Rg).astype(np.int64))
            yield ("pair_int@1000", s, np.rint(4 * Rg).astype(np.int64) * 1000)
            if m < n:
                for g in SCALES:
                    yield ("pair_real@%g" % g, s, g * Rg)
            if r >= 2:
                for kappa in (1e2, 1e4, 1e6):
                    sv = [kappa ** (-i / (r - 1)) for i in range(r)]
                    yield ("pair_real_neardep%g" % kappa, s, real_with_singular_values(s, shape, sv))
                    yield ("pair_real_neardep%g@1e-09" % kappa, s, 1e-9 * real_with_singular_values(s, shape, sv))
                if r in TIED:
                    for pi, prof in enumerate(TIED[r][:3]):
                        yield ("pair_real_tied%d" % pi, s, real_with_singular_values(s, shape, prof))
                for pi, prof in enumerate(near_tied_profiles(r)[:2]):
                    yield ("pair_real_neartied%d" % pi, s, real_with_singular_values(s, shape, prof))
                    yield ("pair_real_neartied%d@1e+06" % pi, s, 1e6 * real_with_singular_values(s, shape, prof))


def matrix_items(tier):
    for it in pairwise_items(tier):
        yield it
    for it in base_matrix_items(tier):
        yield it
    for it in scaled_items(tier):
        yield it
    for it in degenerate_and_wide_items(tier):
        yield it


def base_matrix_items(tier):
    thorough = tier == "thorough"
    M = 6 if thorough else 4
    ent = 8 if thorough else 6
    S = 100 if thorough else 12
    Sn = 30 if thorough else 6
    for shape in shapes(M):
        m, n = shape
        if m * n <= ent:
            for i, A in enumerate(F.small_entry_matrices(shape, (1, 1j, -1))):
                yield ("cunit3", i, A)
            for i, A in enumerate(F.small_entry_matrices(shape, (0, 1, -1))):
                yield ("rint3", i, A.real.astype(np.int64))
        for s in range(S):
            yield ("generic_c", s, F.generic(s, shape, True, tag=20))
            yield ("generic_r", s, F.generic(s, shape, False, tag=20))
        if n >= 2:
            for kappa in (1e2, 1e4, 1e6):
                for s in range(Sn):
                    yield ("neardep%g" % kappa, s, F.nearly_dependent(s, shape, kappa))
            if n in TIED:
                for pi, prof in enumerate(TIED[n]):
                    for s in range(3):
                        yield ("tied%d" % pi, s, tied_member(s, shape, prof))
    if not thorough:
        # quick tier, m in 5..6: generic / nearly dependent / tied members.  All kernels on the first
        # members; the gmd identities alone (its permutation bookkeeping only shows its full behaviour
        # for n >= 5) on more of them.  thorough runs all kernels on all of them (M = 6 above).
        for shape in [(m, n) for m in (5, 6) for n in range(1, m + 1)]:
            m, n = shape
            for s in range(36 if n >= 4 else 8):
                sfx = "" if s < 8 else "_gmdonly"
                yield ("generic_c" + sfx, s, F.generic(s, shape, True, tag=20))
                yield ("generic_r" + sfx, s, F.generic(s, shape, False, tag=20))
            if n >= 2:
                for kappa in (1e2, 1e4, 1e6):
                    for s in range(12 if n >= 4 else 3):
                        yield ("neardep%g%s" % (kappa, "" if s < 3 else "_gmdonly"), s,
                               F.nearly_dependent(s, shape, kappa))
            if n in TIED:
                for pi, prof in enumerate(TIED[n]):
                    for s in range(3):
                        yield ("tied%d%s" % (pi, "" if s < 1 else "_gmdonly"), s, tied_member(s, shape, prof))
        # quick tier: the 8-entry integer family goes through the eigen selectors only (real symmetric
        # matrices A A^T with a double zero eigenvalue first appear here); thorough runs it through all kernels
        for i, A in enumerate(F.small_entry_matrices((4, 2), (0, 1, -1))):
            yield ("rint3_eigonly", i, A.real.astype(np.int64))
    if thorough:
        for shape in [(7, 3), (7, 7), (8, 2), (8, 5), (8, 8)]:
            for s in range(20):
                yield ("generic_c", s, F.generic(s, shape, True, tag=20))
                yield ("generic_r", s, F.generic(s, shape, False, tag=20))


def kappa_of(A):
    sv = np.linalg.svd(np.asarray(A, dtype=complex), compute_uv=False)
    if sv[0] == 0 or sv[-1] <= 1e-13 * sv[0]:
        return math.inf, sv
    return float(sv[0] / sv[-1]), sv


def kdec(k):
    return int(math.floor(math.log10(max(k, 1.0)) + 1e-9))


def H(X):
    return np.asarray(X).conj().T


# ----------------------------------------------------------------------
# argument aliasing / in-place mutation battery (every kernel)
# ----------------------------------------------------------------------
LAYOUTS = ("F", "Tview_ro", "C_ro")


def lay(a, how):
    """the same values in another memory layout: Fortran ordered (owning, writeable), a read-only
    transposed view of a C buffer, a read-only C copy; 1-D: strided view / read-only copies"""
    a = np.asarray(a)
    if a.ndim == 2:
        if how == "F":
            return np.array(a, order="F", copy=True)
        if how == "Tview_ro":
            b = np.array(a.T, order="C", copy=True).T
        else:
            b = np.array(a, order="C", copy=True)
        b.setflags(write=False)
        return b
    if a.ndim == 1:
        if how == "F":
            base = np.zeros(2 * a.size, dtype=a.dtype)
            v = base[::2]
            v[...] = a
            return v
        b = a.copy()
        b.setflags(write=False)
        return b
    return a


def flat(r):
    if isinstance(r, (tuple, list)):
        out = []
        for x in r:
            out += flat(x)
        return out
    return [np.array(r, copy=True)]      # a copy: a result aliasing an argument must not hide a later change


def alias_battery(chk, kern, fn, arrs, case, kappa=1.0, compare_layouts=True):
    """fn(*arrays) must (a) leave every argument bit-identical, (b) not raise on read-only or
    non-C-contiguous arguments, (c) return the same when called again with the same argument
    objects, (d) not depend on the memory layout of its arguments"""
    fam, mem = case.get("fam", ""), case.get("member", 0)
    if fam.startswith(("cunit3", "rint3")) and (fam.endswith("_eigonly") or (isinstance(mem, int) and mem % 4)):
        return          # exhaustive small-entry families: every 4th member (stated in RULE); all other families: all
    with guard(chk, (kern, "aliasing", "reference_call"), case):
        base = flat(fn(*[np.array(a) for a in arrs]))
        for how in LAYOUTS:
            chk.count("eval_aliasing")
            ins = [lay(a, how) for a in arrs]
            snap = [(x.tobytes(), x.shape, x.strides, x.dtype) for x in ins]
            cs = dict(case, layout=how)
            try:
                r1 = flat(fn(*ins))
                mid = [x.tobytes() for x in ins]
                r2 = flat(fn(*ins))
            except Exception as e:  # noqa
                chk.fail((kern, "aliasing", "raises", how, type(e).__name__), cs,
                         observed="%s: %s" % (type(e).__name__, e), expected="same result as for a C-ordered copy")
                continue
            for i, (x, sn, md) in enumerate(zip(ins, snap, mid)):
                if md != sn[0] or (x.tobytes(), x.shape, x.strides, x.dtype) != sn:
                    chk.fail((kern, "aliasing", "mutates_argument", how), dict(cs, argument=i),
                             observed="argument %d changed by the call" % i, expected="bit-identical")
            if len(r1) != len(r2) or any(not np.array_equal(u, v, equal_nan=True) for u, v in zip(r1, r2)):
                chk.fail((kern, "aliasing", "second_call_differs", how), cs,
                         observed="second call with the same argument objects returns something else",
                         expected="identical results")
            if compare_layouts:
                if len(r1) != len(base) or any(not N.close(u, v, kappa, C) for u, v in zip(r1, base)):
                    chk.fail((kern, "aliasing", "layout_changes_result", how), cs,
                             observed=max([N.err(u, v) for u, v in zip(r1, base)] or [0]), expected=0)


# ----------------------------------------------------------------------
# projections
# ----------------------------------------------------------------------
def run_projection(chk, case, A, kappa):
    from pyphysim.subspace import projections as PR
    m, n = A.shape
    k2 = kappa ** 2
    chk.outcome("proj_dims", (m, n))       # outcome classes are recorded from the oracle side, before
    with guard(chk, ("projection",), case):  # the library is called: a crashing kernel is a violation, not vacuity
        chk.count("eval_projection")
        U, _, _ = np.linalg.svd(np.asarray(A, dtype=complex), full_matrices=False)
        Pref = U @ H(U)
        I = np.eye(m)
        Q = np.asarray(PR.calcProjectionMatrix(np.array(A)))
        oQ = np.asarray(PR.calcOrthogonalProjectionMatrix(np.array(A)))
        rel = [("Q_hermitian", Q, H(Q)), ("Q_idempotent", Q @ Q, Q), ("QA=A", Q @ A, A),
               ("Q+oQ=I", Q + oQ, I), ("Q=UU^H", Q, Pref),
               ("oQ_idempotent", oQ @ oQ, oQ), ("oQ.A=0", oQ @ A, np.zeros((m, n)))]
        for nm, lhs, rhs in rel:
            sc = max(N.scale(lhs, rhs), N.scale(A) if "A" in nm else 1.0)
            if not N.close(lhs, rhs, k2, C, scale_=sc):
                chk.fail(("projection", nm), case, observed=N.err(lhs, rhs), expected=0,
                         msg="kappa %.3g" % kappa)
        tr = np.trace(Q)
        if not N.close(tr, float(n), k2, C, scale_=float(m)):
            chk.fail(("projection", "trace!=dim"), case, observed=tr, expected=n)
        P = PR.Projection(np.array(A))
        if not (N.close(P.Q, Q, k2, C) and N.close(P.oQ, oQ, k2, C, scale_=1.0)):
            chk.fail(("projection", "object_vs_static"), case)
        # alternative entry points of the same computation: class static, instance, module alias
        for nm, alt in (("Projection.calcProjectionMatrix", PR.Projection.calcProjectionMatrix(np.array(A))),
                        ("instance.calcProjectionMatrix", P.calcProjectionMatrix(np.array(A))),
                        ("instance.calcOrthogonalProjectionMatrix+Q",
                         P.calcOrthogonalProjectionMatrix(np.array(A)) + Q)):
            ref = I if nm.endswith("+Q") else Q
            if not N.close(alt, ref, k2, C):
                chk.fail(("projection", "entry_point_differs", nm), case, observed=N.err(alt, ref), expected=0)
        # a second live Projection object of another subspace is created and used before P is used
        B2 = F.generic(7, (m, max(1, m - n)), True, tag=23)
        P2 = PR.Projection(np.array(B2))
        U2 = np.linalg.svd(B2, full_matrices=False)[0]
        M2 = F.generic(4, (m, 2), True, tag=23)
        p2a = P2.project(M2)
        for mi, Mx in enumerate((F.generic(1, (m, 2), True, tag=23), F.generic(2, (m,), True, tag=23),
                                 F.generic(3, (m, 1), False, tag=23))):
            pr, op, rf = P.project(Mx), P.oProject(Mx), P.reflect(Mx)
            rr = P.reflect(rf)
            sc = N.scale(Mx)
            rel2 = [("project+oProject=M", pr + op, Mx), ("reflect^2=id", rr, Mx),
                    ("project=UU^H.M", pr, Pref @ Mx), ("reflect=M-2PM", rf, Mx - 2 * (Pref @ Mx)),
                    ("project_idempotent", P.project(pr), pr), ("oProject(project)=0", P.oProject(pr), 0 * Mx)]
            for nm, lhs, rhs in rel2:
                if not N.close(lhs, rhs, k2, C, scale_=sc):
                    chk.fail(("projection", nm), dict(case, M_index=mi), observed=N.err(lhs, rhs), expected=0,
                             msg="kappa %.3g" % kappa)
        if not N.close(P2.project(M2), p2a, 1.0, C) or not N.close(p2a, U2 @ H(U2) @ M2, F.cond(B2) ** 2, C):
            chk.fail(("projection", "second_live_object_disturbed"), case,
                     observed=N.err(p2a, U2 @ H(U2) @ M2), expected=0)
    alias_battery(chk, "calcProjectionMatrix", PR.calcProjectionMatrix, [A], case, k2)
    alias_battery(chk, "calcOrthogonalProjectionMatrix", PR.calcOrthogonalProjectionMatrix, [A], case, k2)

    def proj_all(a, mm):
        P = PR.Projection(a)
        return P.project(mm), P.oProject(mm), P.reflect(mm)

    alias_battery(chk, "Projection", proj_all, [A, F.generic(1, (m, 2), True, tag=23)], case, k2)


# ----------------------------------------------------------------------
# gmd
# ----------------------------------------------------------------------
def run_gmd(chk, case, A, kappa, sv):
    from pyphysim.util import misc
    m, n = A.shape
    with guard(chk, ("gmd",), case):
        chk.count("eval_gmd")
        U, S, Vh = np.linalg.svd(np.array(A))
        U0, S0, V0 = U.copy(), S.copy(), Vh.copy()
        Q, R, P = misc.gmd(U, S, Vh)
        if not (np.array_equal(U, U0) and np.array_equal(S, S0) and np.array_equal(Vh, V0)):
            chk.fail(("gmd", "mutates_input"), case)
        if Q.shape != (m, m) or R.shape != (m, n) or P.shape != (n, n):
            chk.fail(("gmd", "shapes"), case, observed=(Q.shape, R.shape, P.shape),
                     expected=((m, m), (m, n), (n, n)))
            return
        scA = N.scale(A)
        if not N.close(Q @ R @ H(P), A, kappa, C, scale_=scA):
            chk.fail(("gmd", "QRP^H!=A"), case, observed=N.err(Q @ R @ H(P), A), expected=0,
                     msg="kappa %.3g" % kappa)
        if not N.close(H(Q) @ Q, np.eye(m), kappa, C):
            chk.fail(("gmd", "Q_not_unitary"), case, observed=N.err(H(Q) @ Q, np.eye(m)), expected=0)
        if not N.close(H(P) @ P, np.eye(n), kappa, C):
            chk.fail(("gmd", "P_not_unitary"), case, observed=N.err(H(P) @ P, np.eye(n)), expected=0)
        low = float(np.max(np.abs(np.tril(R, -1)))) if R.size else 0.0
        if not low <= C * N.EPS * kappa * scA:           # value level: zero up to rounding (not bitwise)
            chk.fail(("gmd", "R_not_upper_triangular"), case, observed=low, expected=0)
        gm = math.exp(float(np.mean(np.log(sv))))
        r_ = min(m, n)                      # number of singular values (wide matrices: m)
        dg = np.diag(R)[:r_]
        # (the smallest singular value is only determined to eps*kappa relative accuracy, and with it the mean)
        if not N.close(dg, np.full(r_, gm), kappa, C):
            chk.fail(("gmd", "diagR!=geometric_mean"), case, observed=dg, expected=gm)
        chk.outcome("gmd_rotations", (r_, int(np.sum(np.abs(np.triu(R[:r_, :r_], 1)) > 1e-9 * gm))))
        chk.outcome("gmd_shape_class", ("1x1" if m == n == 1 else "1xn" if m == 1 else "mx1" if n == 1 else
                                        "wide" if m < n else "square" if m == n else "tall",
                                        "complex" if np.iscomplexobj(A) else "real"))
    Ua, Sa, Va = np.linalg.svd(np.array(A))
    alias_battery(chk, "gmd", misc.gmd, [Ua, Sa, Va], case, kappa)


# ----------------------------------------------------------------------
# least_right_singular_vectors
# ----------------------------------------------------------------------
def run_lrsv(chk, case, A, orient):
    from pyphysim.util import misc
    B = np.array(A) if orient in ("tall", "asis") else np.array(A).T.copy()
    r, c = B.shape
    sv = np.linalg.svd(np.asarray(B, dtype=complex), compute_uv=False)       # descending
    asc = np.concatenate([np.zeros(max(0, c - r)), sv[::-1]])                 # one per right singular vector
    scB = max(N.scale(B), 1e-300)
    tol = C * N.EPS * scB * max(r, c)
    for k in range(max(0, c - r), c + 1):
        cs = dict(case, kernel="lrsv", orient=orient, k=k)
        chk.outcome("lrsv_split", (orient, c, k))
        with guard(chk, ("lrsv", orient), cs):
            chk.count("eval_lrsv")
            V0, V1, S = misc.least_right_singular_vectors(B, k)
            V0, V1, S = np.asarray(V0), np.asarray(V1), np.asarray(S)
            if V0.shape != (c, k) or V1.shape != (c, c - k) or S.shape != (c - k,):
                chk.fail(("lrsv", "shapes", orient), cs, observed=(V0.shape, V1.shape, S.shape),
                         expected=((c, k), (c, c - k), (c - k,)))
                continue
            V = np.hstack([V0, V1])
            if not N.close(H(V) @ V, np.eye(c), 1.0, C):
                chk.fail(("lrsv", "[V0 V1]_not_unitary", orient), cs, observed=N.err(H(V) @ V, np.eye(c)))
            n0 = np.linalg.norm(B @ V0, axis=0) if k else np.zeros(0)
            if N.err(n0, asc[:k]) > tol:
                chk.fail(("lrsv", "V0_not_least", orient), cs, observed=n0, expected=asc[:k],
                         msg="||A v|| of the returned 'least' vectors vs smallest singular values")
            if N.err(S, asc[k:]) > tol:
                chk.fail(("lrsv", "S_wrong", orient), cs, observed=S, expected=asc[k:])
            n1 = np.linalg.norm(B @ V1, axis=0) if c - k else np.zeros(0)
            if N.err(n1, asc[k:]) > tol:
                chk.fail(("lrsv", "V1_S_mismatch", orient), cs, observed=n1, expected=asc[k:])
    for k in sorted({max(0, c - r), c}):
        alias_battery(chk, "least_right_singular_vectors", lambda b, k=k: misc.least_right_singular_vectors(b, k),
                      [B], dict(case, kernel="lrsv", orient=orient, k=k), 1.0)
    if c - r > 0:
        chk.count("excluded_lrsv_wide_k_below_nullity", c - r)


# ----------------------------------------------------------------------
# peig / leig
# ----------------------------------------------------------------------
def run_eig(chk, case, Cm, which):
    from pyphysim.util import misc
    Nn = Cm.shape[0]
    ev = np.linalg.eigvalsh(np.asarray(Cm, dtype=complex))        # ascending, harness oracle
    sc = max(N.scale(Cm), 1e-300)
    tol = C * N.EPS * sc * Nn
    mult = int(np.sum(np.abs(np.diff(ev)) <= GAP_REPEATED * sc))
    for fn in ("peig", "leig"):
        f = getattr(misc, fn)
        want_all = ev[::-1] if fn == "peig" else ev
        for k in range(0, Nn + 1):
            cs = dict(case, kernel=fn, matrix=which, k=k)
            chk.outcome("eig_select", (fn, Nn, k, mult > 0))
            with guard(chk, (fn, which), cs):
                chk.count("eval_" + fn)
                V, D = f(np.array(Cm), k)
                V, D = np.asarray(V), np.asarray(D)
                if V.shape != (Nn, k) or D.shape != (k,):
                    chk.fail((fn, "shapes"), cs, observed=(V.shape, D.shape), expected=((Nn, k), (k,)))
                    continue
                if k == 0:
                    continue
                if N.err(D.real, want_all[:k]) > tol or np.max(np.abs(D.imag)) > tol:
                    chk.fail((fn, "wrong_eigenvalues_or_order"), cs, observed=D, expected=want_all[:k])
                res = np.max(np.abs(Cm @ V - V * D))
                if not res <= tol:
                    chk.fail((fn, "not_eigenvectors"), cs, observed=res, expected=0)
                nr = np.linalg.norm(V, axis=0)
                if N.err(nr, np.ones(k)) > C * N.EPS:
                    chk.fail((fn, "not_unit_norm"), cs, observed=nr, expected=1)
                if not np.all(np.isfinite(V)):
                    chk.fail((fn, "not_finite"), cs, observed=V, expected="finite eigenvectors")
                    continue
                smin = np.linalg.svd(V, compute_uv=False)[-1]
                if not smin > 1e-6:
                    chk.fail((fn, "columns_dependent",
                              "repeated_eigenvalue" if mult > 0 else "distinct_eigenvalues"), cs,
                             observed="sigma_min(V) = %.3g" % smin, expected="> 1e-6",
                             msg="returned eigenvectors are linearly dependent; eigenvalues of the matrix: %s"
                                 % np.array2string(ev, precision=6))
        for k in sorted({1, Nn}):
            # (layouts are not compared for the eigenvectors: only their span and eigenvalues are specified)
            alias_battery(chk, fn, lambda a, k=k, f=f: f(a, k), [Cm], dict(case, kernel=fn, matrix=which, k=k),
                          compare_layouts=False)
        cs = dict(case, kernel=fn, matrix=which, k=Nn + 1)
        chk.count("eval_" + fn)
        # k > N is an INVALID call; the property says nothing about it (tools/INVALID_CALL_POLICY.md):
        # what happens is recorded as an outcome only.  The functions are stateless, so the valid calls
        # of the following items are the "subsequent valid operations".
        Cin = np.array(Cm)
        try:
            f(Cin, Nn + 1)
            how = "accepted"
        except Exception as e:  # noqa
            how = "raised:" + type(e).__name__
        chk.outcome("invalid_call", (fn + "(k>N)", how,
                                     "argument_unchanged" if np.array_equal(Cin, Cm) else "argument_changed"))


# ----------------------------------------------------------------------
# whitening
# ----------------------------------------------------------------------
def run_whiten(chk, case, Cm, which):
    from pyphysim.util import misc
    Nn = Cm.shape[0]
    ev = np.linalg.eigvalsh(Cm)
    if ev[0] <= 0 or ev[-1] / ev[0] > bound(K_COV):
        chk.count("excluded_cov_kappa_above_1e8")
        return
    kc = float(ev[-1] / ev[0])
    mingap = float(np.min(np.diff(ev)) / ev[-1]) if Nn > 1 else 1.0
    repeated = mingap <= GAP_REPEATED
    cs = dict(case, kernel="whiten", matrix=which)
    chk.outcome("whiten", (Nn, repeated, kdec(kc)))
    with guard(chk, ("calc_whitening_matrix", which), cs):
        chk.count("eval_whiten")
        C0 = np.array(Cm)
        W = np.asarray(misc.calc_whitening_matrix(C0))
        if not np.array_equal(C0, Cm):
            chk.fail(("calc_whitening_matrix", "mutates_input"), cs)
        if W.shape != (Nn, Nn):
            chk.fail(("calc_whitening_matrix", "shape"), cs, observed=W.shape, expected=(Nn, Nn))
            return
        out = H(W) @ Cm @ W
        if not N.close(out, np.eye(Nn), kc, C):
            chk.fail(("calc_whitening_matrix", "W^H.C.W!=I",
                      "repeated_or_clustered_eigenvalues" if mingap < GAP_CLUSTER
                      else "well_separated_eigenvalues"), cs,
                     observed=N.err(out, np.eye(Nn)), expected=0,
                     msg="kappa(C)=%.3g, eigenvalues of C: %s" % (kc, np.array2string(ev, precision=6)))
    alias_battery(chk, "calc_whitening_matrix", misc.calc_whitening_matrix, [Cm], cs, compare_layouts=False)


# ----------------------------------------------------------------------
def run_rank_deficient(chk, case, A):
    """the projection of a rank-deficient matrix is an invalid call: what it does is an outcome only;
    later valid projections must be untouched"""
    from pyphysim.subspace import projections as PR
    chk.count("eval_projection_error_path")
    A0 = np.array(A)
    try:
        PR.Projection(A0)
        how = "accepted"
    except Exception as e:  # noqa  - an invalid call is free to raise anything (tools/INVALID_CALL_POLICY.md)
        how = "raised:" + type(e).__name__
    chk.outcome("invalid_call", ("Projection(rank deficient)", how,
                                 "argument_unchanged" if np.array_equal(A0, A) else "argument_changed"))
    with guard(chk, ("after_invalid_call", "Projection(rank deficient)"), case):
        # what IS required: a subsequent VALID projection is right
        G = F.generic(0, (A.shape[0], 1), True, tag=23)
        Ug = G / np.linalg.norm(G)
        if not N.close(PR.calcProjectionMatrix(G), Ug @ H(Ug), 1.0, C):
            chk.fail(("after_invalid_call", "Projection(rank deficient)", "valid_projection_wrong"), case)


def run_matrix_item(chk, fam, member, A):
    m, n = A.shape
    kappa, sv = kappa_of(A)
    chk.count("matrices_enumerated")
    if not math.isfinite(kappa):
        chk.count("excluded_rank_deficient")
        if not fam.endswith("_eigonly") and sv[0] > 0:
            run_rank_deficient(chk, {"part": "matrix", "fam": fam, "member": member, "A": A,
                                     "kernel": "rank_deficient"}, A)
        return
    if kappa > bound(K_MAX):
        chk.count("excluded_kappa_above_1e6")
        return
    case = {"part": "matrix", "fam": fam, "member": member, "A": A}
    chk.outcome("kappa_decade", kdec(kappa))
    chk.outcome("dtype", (fam, A.dtype.kind))
    if m * n > 1:
        chk.nontriv((fam, member, m, n))
    Ac = np.asarray(A, dtype=complex if np.iscomplexobj(A) else float)
    gram = H(Ac) @ Ac
    outer = Ac @ H(Ac)
    if fam.endswith("_eigonly"):
        run_eig(chk, case, gram, "A^H.A")
        run_eig(chk, case, outer, "A.A^H")
        return
    if fam.endswith("_gmdonly"):
        run_gmd(chk, dict(case, kernel="gmd"), A, kappa, sv)
        return
    if m < n:
        # wide members (incl. the single-row 1 x n ones): every kernel whose statement admits them.  The
        # projection needs full COLUMN rank and is not defined here.
        run_gmd(chk, dict(case, kernel="gmd"), A, kappa, sv)
        run_lrsv(chk, case, A, "asis")
        run_eig(chk, case, gram, "A^H.A")
        run_eig(chk, case, outer, "A.A^H")
        g2w = fam_scale(fam) ** 2
        run_whiten(chk, dict(case, eps=1.0 * g2w), outer + g2w * np.eye(m), "A.A^H+eps.I")
        return
    if kappa <= bound(K_PROJ):
        run_projection(chk, dict(case, kernel="projection"), A, kappa)
    else:
        chk.count("excluded_projection_kappa_above_1e4")
    run_gmd(chk, dict(case, kernel="gmd"), A, kappa, sv)
    run_lrsv(chk, case, A, "tall")
    if m > n:
        run_lrsv(chk, case, A, "wide")
    run_eig(chk, case, gram, "A^H.A")
    if m > n:
        run_eig(chk, case, outer, "A.A^H")
    g2 = fam_scale(fam) ** 2
    for eps in (1.0 * g2, 0.1 * g2):
        run_whiten(chk, dict(case, eps=eps), outer + eps * np.eye(m), "A.A^H+eps.I")
    run_whiten(chk, case, gram, "A^H.A")


def replay_matrix(chk, case):
    A = np.asarray(case["A"])
    kern = case.get("kernel")
    kappa, sv = kappa_of(A)
    base = {k: case[k] for k in ("part", "fam", "member", "A")}
    Ac = np.asarray(A, dtype=complex if np.iscomplexobj(A) else float)
    if kern == "rank_deficient":
        run_rank_deficient(chk, dict(base, kernel="rank_deficient"), A)
    elif kern == "projection":
        run_projection(chk, dict(base, kernel="projection"), A, kappa)
    elif kern == "gmd":
        run_gmd(chk, dict(base, kernel="gmd"), A, kappa, sv)
    elif kern == "lrsv":
        run_lrsv(chk, base, A, case["orient"])
    elif kern in ("peig", "leig"):
        Cm = H(Ac) @ Ac if case["matrix"] == "A^H.A" else Ac @ H(Ac)
        run_eig(chk, base, Cm, case["matrix"])
    elif kern == "whiten":
        if case["matrix"] == "A^H.A":
            run_whiten(chk, base, H(Ac) @ Ac, "A^H.A")
        else:
            run_whiten(chk, dict(base, eps=case["eps"]), Ac @ H(Ac) + case["eps"] * np.eye(A.shape[0]),
                       "A.A^H+eps.I")
    else:
        run_matrix_item(chk, case["fam"], case["member"], A)


# ----------------------------------------------------------------------
# update_inv_sum_diag
# ----------------------------------------------------------------------
D_ALPH = (0.0, 0.5, 1.0, 10.0, 1e3)          # Hermitian / symmetric positive definite X (DESIGN: d >= 0)
D_ALPH_GEN = (-2.0, -0.5, 0.0, 0.5, 1.0, 10.0)  # general invertible X: the statement allows any diagonal update
D_ALPH_CPLX = (0.0, 1.0, 0.5 + 0.5j, -1j)    # complex diagonal (complex X only)
K_UPD = 1e4                                   # every partial sum A + diag(d_1..d_i,0..) must stay this well conditioned


def update_items(tier):
    thorough = tier == "thorough"
    S = 12 if thorough else 4
    nmax = 4
    for n in range(1, nmax + 1):
        alph = D_ALPH if (n <= 3 or thorough) else (0.0, 1.0, 10.0)
        mats = []
        for s in range(S):
            for eps in (0.1, 1e-3):
                X = F.hpd(s, n, eps)
                mats.append(("hpd%g" % eps, s, X))
                mats.append(("inv_hpd%g" % eps, s, np.linalg.inv(X)))
            Xr = F.generic(s, (n, n), False, tag=24)
            mats.append(("real_spd", s, Xr @ Xr.T + 0.1 * np.eye(n)))
        if n <= 2:
            for i, B in enumerate(F.small_entry_matrices((n, n), (1, 1j, -1))):
                mats.append(("cunit3_gram+I", i, H(B) @ B + np.eye(n)))
        for fam, member, X in mats:
            for d in itertools.product(alph, repeat=n):
                yield (fam, member, X, np.array(d))
        # general (non-Hermitian complex, non-symmetric real) inverses: the statement is about ANY
        # invertible matrix and any diagonal; cases whose partial sums get ill conditioned are excluded
        gen = []
        for s in range(S):
            gen.append(("generic_c", s, F.generic(s, (n, n), True, tag=28)))
            gen.append(("generic_r", s, F.generic(s, (n, n), False, tag=28)))
            gen.append(("inv_generic_c", s, np.linalg.inv(F.generic(s, (n, n), True, tag=29))))
        galph = D_ALPH_GEN if (n <= 3 or thorough) else (-0.5, 0.0, 1.0, 10.0)
        for fam, member, X in gen:
            for d in itertools.product(galph, repeat=n):
                yield (fam, member, X, np.array(d))
            if np.iscomplexobj(X) and n <= 3:
                for d in itertools.product(D_ALPH_CPLX, repeat=n):
                    yield (fam + "_cplx_d", member, X, np.array(d, dtype=complex))
            # the same problem at other magnitudes: (g X, d / g)
            if member < 2 and n <= 3:
                for g in SCALES:
                    for d in itertools.product((-0.5, 0.0, 1.0, 10.0), repeat=n):
                        yield ("%s@%g" % (fam, g), member, g * X, np.array(d) / g)
        # STRUCTURE of the matrix  x  KIND of the diagonal, all pairs (a Hermitian matrix plus a complex
        # diagonal is not Hermitian; a real matrix plus a complex diagonal is complex; ...)
        Sx = 3 if thorough else (2 if n <= 3 else 1)
        for s in range(Sx):
            for sname, X in update_structures(s, n):
                for kind, alph_k in UPDATE_DIAG_KINDS:
                    a = alph_k if (n <= 3 or thorough) else alph_k[:3]
                    if n >= 3 and not thorough:
                        a = a[:3]
                    for d in itertools.product(a, repeat=n):
                        yield ("generic:%s/%s" % (sname, kind), s, X, diag_of_kind(d, kind))


UPDATE_STRUCTURE_AXIS = ("general_real", "general_complex", "real_symmetric", "complex_hermitian",
                         "hermitian_pd", "real_spd", "diagonal_real", "diagonal_complex", "identity_real",
                         "identity_complex")
UPDATE_DIAG_KINDS = (("real", (0.0, 1.0, -0.5, 10.0)),
                     ("complex", (0.5 + 0.5j, -1j, 0.0, 2.0 - 1.0j)),
                     ("complex_dtype_zero_imag", (1.0, 0.0, -0.5, 10.0)),
                     ("int64", (1, 0, -2, 3)))


def diag_of_kind(d, kind):
    if kind == "complex" or kind == "complex_dtype_zero_imag":
        return np.array(d, dtype=complex)
    if kind == "int64":
        return np.array(d, dtype=np.int64)
    return np.array(d, dtype=float)


def update_structures(s, n):
    Gr = F.generic(s, (n, n), False, tag=31)
    Gc = F.generic(s, (n, n), True, tag=31)
    return [("general_real", Gr), ("general_complex", Gc),
            ("real_symmetric", (Gr + Gr.T) / 2), ("complex_hermitian", (Gc + Gc.conj().T) / 2),
            ("hermitian_pd", F.hpd(s, n, 0.1)), ("real_spd", Gr @ Gr.T + 0.1 * np.eye(n)),
            ("diagonal_real", np.diag(np.diag(Gr))), ("diagonal_complex", np.diag(np.diag(Gc))),
            ("identity_real", np.eye(n)), ("identity_complex", np.eye(n, dtype=complex))]


def run_update_invalid_diagonals(chk):
    """a diagonal of another length or a Python list is not "a 1D numpy array with the elements in the diagonal
    of D": invalid calls, recorded as outcomes only (tools/INVALID_CALL_POLICY.md)"""
    from pyphysim.util import misc
    X = F.hpd(0, 3, 0.1)
    for nm, d in (("short_diagonal", np.array([1.0, 0.5])), ("long_diagonal", np.array([1.0, 0.5, 2.0, 1.0])),
                  ("python_list", [1.0, 0.5, 2.0]), ("two_dimensional", np.ones((3, 1)))):
        X0 = X.copy()
        try:
            misc.update_inv_sum_diag(X, d)
            how = "accepted"
        except Exception as e:  # noqa
            how = "raised:" + type(e).__name__
        chk.outcome("invalid_call", ("update_inv_sum_diag(%s)" % nm, how,
                                     "argument_unchanged" if np.array_equal(X, X0) else "argument_changed"))


def run_update(chk, case):
    from pyphysim.util import misc
    X, d = np.asarray(case["X"]), np.asarray(case["d"])
    n = X.shape[0]
    # conditioning of the problem AND of every intermediate rank-one step (oracle side)
    kx = F.cond(X)
    kpart = max(F.cond(np.eye(n) + X * np.concatenate([d[:i], np.zeros(n - i)])[np.newaxis, :])
                for i in range(1, n + 1))
    general_fam = case["fam"].startswith(("generic", "inv_generic"))
    if general_fam and (kx > bound(K_UPD) or kpart > bound(K_UPD)):
        # (HPD families with d >= 0 are always regular and are judged with their own kappa below)
        chk.count("excluded_update_partial_sum_ill_conditioned")
        return
    herm = bool(N.close(X, H(X), 1.0, 10.0))
    dk = ("int_diagonal" if d.dtype.kind in "iu" else "real_diagonal" if not np.iscomplexobj(d) else
          "complex_diagonal" if np.any(d.imag != 0) else "complex_dtype_diagonal_zero_imag")
    xk = ("complex_" if np.iscomplexobj(X) else "real_") + ("hermitian_input" if herm else "general_input")
    chk.outcome("update_nonzero_d", (n, int(np.count_nonzero(d))))
    chk.outcome("update_input_class", ("complex" if np.iscomplexobj(X) else "real",
                                       "hermitian" if herm else "general",
                                       "d<0" if np.any(np.real(d) < 0) else "d>=0",
                                       "complex_d" if np.iscomplexobj(d) else "real_d"))
    if ":" in case["fam"]:
        chk.outcome("update_structure_x_diagonal", case["fam"].split(":")[1])
    promote = (not np.iscomplexobj(X)) and np.iscomplexobj(d)     # the result needs a wider dtype than invA's
    with guard(chk, ("update_inv_sum_diag", "real_invA_with_complex_dtype_diagonal") if promote else
               ("update_inv_sum_diag", xk, dk), case):
        chk.count("eval_update")
        X0 = X.copy()
        R = np.asarray(misc.update_inv_sum_diag(X, d))
        if not np.array_equal(X, X0):
            chk.fail(("update_inv_sum_diag", "mutates_input"), case)
        if R.shape != (n, n):
            chk.fail(("update_inv_sum_diag", "shape"), case, observed=R.shape, expected=(n, n))
            return
        Mx = np.eye(n) + X * d[np.newaxis, :]               # I + X diag(d)
        km = max(F.cond(Mx), kpart)
        if kx > bound(K_COV):
            chk.count("excluded_cov_kappa_above_1e8")
            return
        # Sherman-Morrison computes R = X - (update): its absolute error is eps*||X|| (cancellation
        # when d.X >> 1 is inherent to the documented formula), amplified by the conditioning
        tolR = C * N.EPS * kx * km * N.scale(X) * n
        e1 = N.err(Mx @ R, X)
        if not e1 <= tolR * N.scale(Mx):
            chk.fail(("update_inv_sum_diag", "(I+X.d).R!=X", xk, dk),
                     case, observed=e1, expected=0,
                     msg="cond(I+Xd)=%.3g cond(X)=%.3g" % (km, kx))
        Ainv = np.linalg.inv(X) + np.diag(d)                # A + D with A = X^-1 (harness inverse: eps*kx)
        e2 = N.err(R @ Ainv, np.eye(n))
        if not e2 <= tolR * N.scale(Ainv) + C * N.EPS * kx * kx * n:
            chk.fail(("update_inv_sum_diag", "R.(A+D)!=I", xk, dk),
                     case, observed=e2, expected=0)
        if n > 1:
            chk.nontriv(("update", case["fam"], case["member"], n, tuple(d.tolist())))
    if case.get("battery") and not promote:
        alias_battery(chk, "update_inv_sum_diag", misc.update_inv_sum_diag, [X, d], case, kx * kpart)


# ----------------------------------------------------------------------
# chordal distances
# ----------------------------------------------------------------------
def chordal_pairs(tier):
    thorough = tier == "thorough"
    S = 40 if thorough else 12
    M = 6 if thorough else 4
    # exhaustive tiny families: all pairs
    for shape, alph, nm in (((2, 1), (1, 1j, -1), "cunit3"), ((3, 1), (1, 1j, -1), "cunit3"),
                            ((2, 1), (0, 1, -1), "runit3"), ((3, 1), (0, 1, -1), "runit3"),
                            ((2, 2), (0, 1, -1), "runit3")):
        mats = [A if nm == "cunit3" else A.real.copy() for A in F.small_entry_matrices(shape, alph)]
        for i, A in enumerate(mats):
            for j, B in enumerate(mats):
                yield (nm, (i, j), A, B)
    # (3,2) and (4,2) small-entry: each member against the next 5 (cyclic) and member 0
    for shape in ((3, 2), (4, 2)) if thorough else ((3, 2),):
        for alph, nm in (((1, 1j, -1), "cunit3"), ((0, 1, -1), "runit3")):
            mats = [A if nm == "cunit3" else A.real.copy() for A in F.small_entry_matrices(shape, alph)]
            L = len(mats)
            for i in range(L):
                for dlt in (0, 1, 2, 3, 5, 41):
                    j = (i + dlt) % L
                    yield (nm, (i, j), mats[i], mats[j])
    for (m, k) in shapes(M) + ([] if thorough else [(5, 1), (6, 1)]):
        for s in range(S):
            for dlt in (1, 2, 3):
                yield ("generic_c", (s, s + dlt), F.generic(s, (m, k), True, tag=25),
                       F.generic(s + dlt, (m, k), True, tag=25))
                yield ("generic_r", (s, s + dlt), F.generic(s, (m, k), False, tag=25),
                       F.generic(s + dlt, (m, k), False, tag=25))
            if s < 3:       # subspaces do not depend on the magnitude of the basis
                for ga, gb in ((1e-9, 1e6), (1e9, 1e-12), (1e-6, 1e-6)):
                    yield ("generic_c@%g,%g" % (ga, gb), (s, s + 1), ga * F.generic(s, (m, k), True, tag=25),
                           gb * F.generic(s + 1, (m, k), True, tag=25))
                # pairwise: real x scaled, real x complex operands
                yield ("generic_r@1e-09,1e+06", (s, s + 1), 1e-9 * F.generic(s, (m, k), False, tag=25),
                       1e6 * F.generic(s + 1, (m, k), False, tag=25))
                yield ("real_vs_complex", (s, s + 1), F.generic(s, (m, k), False, tag=25),
                       F.generic(s + 1, (m, k), True, tag=25))
        if k >= 2:
            for kappa in (1e2, 1e4):
                for s in range(S // 2):
                    yield ("neardep%g" % kappa, (s, s + 1), F.nearly_dependent(s, (m, k), kappa),
                           F.nearly_dependent(s + 1, (m, k), kappa))
                    yield ("neardep%g_vs_generic" % kappa, (s, s), F.nearly_dependent(s, (m, k), kappa),
                           F.generic(s, (m, k), True, tag=25))


def ref_projector(A):
    U, _, _ = np.linalg.svd(np.asarray(A, dtype=complex), full_matrices=False)
    return U @ H(U)


def three_distances(A, B):
    from pyphysim.subspace import metrics as MT
    d1 = float(MT.calc_chordal_distance(np.array(A), np.array(B)))
    d2 = float(MT.calc_chordal_distance_2(np.array(A), np.array(B)))
    pa = np.asarray(MT.calc_principal_angles(np.array(A), np.array(B)))
    d3 = float(MT.calc_chordal_distance_from_principal_angles(pa))
    return d1, d2, d3, pa


def run_chordal(chk, case):
    A, B = np.asarray(case["A"]), np.asarray(case["B"])
    m, k = A.shape
    ka, _ = kappa_of(A)
    kb, _ = kappa_of(B)
    chk.count("chordal_pairs_enumerated")
    if not (math.isfinite(ka) and math.isfinite(kb)):
        chk.count("excluded_rank_deficient")
        return
    kap = max(ka, kb)
    if kap > bound(K_PROJ):
        chk.count("excluded_projection_kappa_above_1e4")
        return
    sq = math.sqrt(k)
    dref = float(np.linalg.norm(ref_projector(A) - ref_projector(B), "fro") / math.sqrt(2))
    bucket = "0" if dref < 1e-9 else ("max" if abs(dref - math.sqrt(min(k, m - k))) < 1e-9 else "mid")
    chk.outcome("chordal_bucket", (m, k, bucket))
    chk.outcome("kappa_decade", kdec(kap))
    with guard(chk, ("chordal",), case):
        chk.count("eval_chordal")
        t1 = C * N.EPS * kap * sq * 4              # QR route: eps*kappa
        t2 = C * N.EPS * kap ** 2 * sq * 4         # (A^H A)^-1 route: eps*kappa^2
        t3 = C * N.EPS * kap * k * 4               # principal angles: compared in d^2 (arccos near 1)

        def cmp3(tag, d1, d2, d3, want, kscale=1.0):
            if not abs(d1 - want) <= t1 * kscale:
                chk.fail(("chordal", tag, "calc_chordal_distance"), case, observed=d1, expected=want)
            if not abs(d2 - want) <= t2 * kscale ** 2:
                chk.fail(("chordal", tag, "calc_chordal_distance_2"), case, observed=d2, expected=want)
            if not abs(d3 ** 2 - want ** 2) <= t3 * kscale:
                chk.fail(("chordal", tag, "from_principal_angles"), case, observed=d3, expected=want,
                         msg="compared as d^2: %.3g vs %.3g" % (d3 ** 2, want ** 2))

        d1, d2, d3, pa = three_distances(A, B)
        if pa.shape != (k,) or np.any(pa < 0) or np.any(pa > math.pi / 2 + 1e-9) or np.any(np.diff(pa) < -1e-9):
            chk.fail(("chordal", "principal_angles_malformed"), case, observed=pa,
                     expected="%d ascending angles in [0, pi/2]" % k)
        cmp3("value", d1, d2, d3, dref)
        e1, e2, e3, _ = three_distances(B, A)
        cmp3("symmetry", e1, e2, e3, dref)
        # change of basis: same subspace
        T = F.generic(case["member"][0] if isinstance(case["member"], (tuple, list)) else 0, (k, k), True, tag=26)
        kt = F.cond(T)
        AT = A @ T
        z1, z2, z3, _ = three_distances(A, AT)
        cmp3("basis_change_d(A,AT)=0", z1, z2, z3, 0.0, kscale=kt)
        b1, b2, b3, _ = three_distances(AT, B)
        cmp3("basis_change_d(AT,B)=d(A,B)", b1, b2, b3, dref, kscale=kt)
        # common unitary rotation
        Uq = F.unitary(3, m, tag=27)
        u1, u2, u3, _ = three_distances(Uq @ A, Uq @ B)
        cmp3("unitary_invariance", u1, u2, u3, dref)
        if m > 1:
            chk.nontriv(("chordal", case["fam"], tuple(case["member"]), m, k))
    if case["member"][0] < 2:
        from pyphysim.subspace import metrics as MT
        for nm in ("calc_chordal_distance", "calc_chordal_distance_2", "calc_principal_angles"):
            alias_battery(chk, nm, getattr(MT, nm), [A, B], case, compare_layouts=False)


# ----------------------------------------------------------------------
# chordal distance between subspaces of DIFFERENT dimension
# ----------------------------------------------------------------------
def mixed_pairs(tier):
    """(A m x k1, B m x k2) with k1 != k2: 1 vs 2, 2 vs 4, 1 vs 3, 2 vs 3 columns, both orders, generic and
    NESTED subspaces (span A inside span B), real and complex"""
    S = 6 if tier == "thorough" else 3
    for m in range(2, 7):
        for (k1, k2) in ((1, 2), (2, 1), (2, 4), (4, 2), (1, 3), (3, 2), (1, m)):
            if max(k1, k2) > m or k1 == k2:
                continue
            for s in range(S):
                for cplx, nm in ((True, "c"), (False, "r")):
                    A = F.generic(s, (m, k1), cplx, tag=35)
                    B = F.generic(s + 7, (m, k2), cplx, tag=35)
                    yield ("mixed_generic_" + nm, (s, m, k1, k2), A, B)
                    big, small = (B, k1) if k2 > k1 else (A, k2)
                    T = F.generic(s, (big.shape[1], small), cplx, tag=36)
                    nested = big @ T                                   # spans a subspace of span(big)
                    yield ("mixed_nested_" + nm, (s, m, k1, k2), nested if k1 < k2 else A, B if k1 < k2 else nested)


def run_chordal_mixed(chk, case):
    """first principles: d = ||P1 - P2||_F / sqrt(2) with the orthogonal projectors computed by the check;
    judged for the routines that accept operands of different column counts (on HEAD: the QR based and the
    projection based one); a routine that raises, and the principal-angle route (documented as not defined
    there), are outcomes only"""
    from pyphysim.subspace import metrics as MT
    A, B = np.asarray(case["A"]), np.asarray(case["B"])
    m, k1 = A.shape
    k2 = B.shape[1]
    ka, _ = kappa_of(A)
    kb, _ = kappa_of(B)
    chk.count("chordal_mixed_pairs_enumerated")
    if not (math.isfinite(ka) and math.isfinite(kb)) or max(ka, kb) > bound(K_PROJ):
        chk.count("excluded_projection_kappa_above_1e4")
        return
    kap = max(ka, kb)
    dref = float(np.linalg.norm(ref_projector(A) - ref_projector(B), "fro") / math.sqrt(2))
    sq = math.sqrt(max(k1, k2))
    tol = {"calc_chordal_distance": C * N.EPS * kap * sq * 4, "calc_chordal_distance_2": C * N.EPS * kap ** 2 * sq * 4}
    chk.outcome("chordal_mixed_dims", (m, k1, k2, "nested" if "nested" in case["fam"] else "generic"))
    got = {}
    for nm in ("calc_chordal_distance", "calc_chordal_distance_2"):
        for order, (X, Y) in (("AB", (A, B)), ("BA", (B, A))):
            chk.count("eval_chordal_mixed")
            try:
                got[(nm, order)] = float(getattr(MT, nm)(np.array(X), np.array(Y)))
            except Exception as e:  # noqa  - a routine may not accept unequal dimensions: outcome only
                chk.outcome("unequal_dimensions", (nm, "raised:" + type(e).__name__))
                got[(nm, order)] = None
    for (nm, order), v in got.items():
        if v is None:
            continue
        chk.outcome("unequal_dimensions", (nm, "accepted"))
        if not abs(v - dref) <= tol[nm]:
            chk.fail(("chordal", "unequal_dimensions", "value", nm), dict(case, order=order), observed=v, expected=dref,
                     msg="d(%dx%d, %dx%d) vs ||P1-P2||_F/sqrt(2)" % ((m, k1, m, k2) if order == "AB" else (m, k2, m, k1)))
    for nm in ("calc_chordal_distance", "calc_chordal_distance_2"):
        a, b = got[(nm, "AB")], got[(nm, "BA")]
        if a is not None and b is not None and not abs(a - b) <= 2 * tol[nm]:
            chk.fail(("chordal", "unequal_dimensions", "symmetry", nm), case, observed=(a, b), expected="equal")
    a, b = got[("calc_chordal_distance", "AB")], got[("calc_chordal_distance_2", "AB")]
    if a is not None and b is not None and not abs(a - b) <= tol["calc_chordal_distance_2"] + tol["calc_chordal_distance"]:
        chk.fail(("chordal", "unequal_dimensions", "routines_disagree"), case, observed=(a, b), expected=dref)
    try:                                                # principal-angle route: not defined here, outcome only
        pa = MT.calc_principal_angles(np.array(A), np.array(B))
        chk.outcome("unequal_dimensions", ("calc_principal_angles", "accepted", int(np.size(pa))))
    except Exception as e:  # noqa
        chk.outcome("unequal_dimensions", ("calc_principal_angles", "raised:" + type(e).__name__))
    chk.nontriv(("chordal_mixed", case["fam"], tuple(case["member"])))


# ----------------------------------------------------------------------
# conversions
# ----------------------------------------------------------------------
def run_conv(chk):
    from pyphysim.util import conversion as CV
    LN10 = math.log(10.0)
    case0 = {"part": "conv"}
    with guard(chk, ("conversion",), case0):
        exps = [-15.0 + 0.1 * i for i in range(301)]
        lin = np.array([math.exp(e * LN10) for e in exps])               # 1e-15 .. 1e15
        dbs = np.array([-150.0 + i for i in range(301)])
        off = chk.seed * 0.0137
        dbs2 = dbs + off
        rt = C * N.EPS                                                    # relative
        for form in ("array", "pyfloat", "npfloat"):
            for nm, grid in (("lin", lin), ("dB", dbs), ("dB_shifted", dbs2)):
                vals = [grid] if form == "array" else \
                    [float(v) if form == "pyfloat" else np.float64(v) for v in grid]
                for v in vals:
                    chk.count("eval_conv", int(np.size(v)))
                    cs = {"part": "conv", "form": form, "grid": nm,
                          "value": v if np.size(v) == 1 else "whole grid"}
                    va = np.asarray(v, dtype=float)
                    if nm == "lin":
                        db = CV.linear2dB(v)
                        dbm = CV.linear2dBm(v)
                        want_db = 10 * np.log(va) / LN10
                        rel = [("linear2dB", db, want_db, np.maximum(np.abs(want_db), 1.0)),
                               ("linear2dBm", dbm, want_db + 30, np.maximum(np.abs(want_db), 30.0)),
                               ("dB2Linear(linear2dB(x))", CV.dB2Linear(db), va, va * 160),
                               ("dBm2Linear(linear2dBm(x))", CV.dBm2Linear(dbm), va, va * 190)]
                    else:
                        l = CV.dB2Linear(v)
                        lm = CV.dBm2Linear(v)
                        want = np.exp(va * LN10 / 10)
                        rel = [("dB2Linear", l, want, want * 160),
                               ("dBm2Linear", lm, want / 1000, want / 1000 * 160),
                               ("linear2dB(dB2Linear(v))", CV.linear2dB(l), va, np.maximum(np.abs(va), 1.0)),
                               ("linear2dBm(dBm2Linear(v))", CV.linear2dBm(lm), va, np.maximum(np.abs(va), 30.0))]
                    for rn, got, want_, scl in rel:
                        got = np.asarray(got, dtype=float)
                        if got.shape != np.shape(want_) or not np.all(np.abs(got - want_) <= rt * scl):
                            bad = None
                            if got.shape == np.shape(want_):
                                g1, w1, v1 = (np.atleast_1d(z).ravel() for z in (got, np.asarray(want_), va))
                                s1 = np.broadcast_to(np.atleast_1d(scl).ravel(), g1.shape)
                                idx = np.nonzero(~(np.abs(g1 - w1) <= rt * s1))[0][:3]
                                bad = {"input": v1[idx], "got": g1[idx], "want": w1[idx]}
                            chk.fail(("conversion", rn, form), cs, observed=bad, expected="equal")
    # SNR <-> Eb/N0
    with guard(chk, ("conversion", "snr_ebn0"), case0):
        for bits in range(1, 13):
            chk.outcome("conv_bits", bits)
            for form in ("array", "pyfloat"):
                vals = [dbs2] if form == "array" else [float(v) for v in dbs2[::10]]
                for v in vals:
                    chk.count("eval_conv", int(np.size(v)))
                    cs = {"part": "conv", "form": form, "bits": bits,
                          "value": v if np.size(v) == 1 else "whole grid"}
                    va = np.asarray(v, dtype=float)
                    eb = CV.SNR_dB_to_EbN0_dB(v, bits)
                    sn = CV.EbN0_dB_to_SNR_dB(v, bits)
                    shift = 10 * math.log(bits) / LN10
                    scl = np.maximum(np.abs(va), 20.0)
                    rel = [("SNR_dB_to_EbN0_dB", eb, va - shift), ("EbN0_dB_to_SNR_dB", sn, va + shift),
                           ("EbN0_to_SNR(SNR_to_EbN0(v))", CV.EbN0_dB_to_SNR_dB(eb, bits), va),
                           ("SNR_to_EbN0(EbN0_to_SNR(v))", CV.SNR_dB_to_EbN0_dB(sn, bits), va)]
                    for rn, got, want_ in rel:
                        got = np.asarray(got, dtype=float)
                        if got.shape != np.shape(want_) or not np.all(np.abs(got - want_) <= rt * scl):
                            chk.fail(("conversion", rn, form), cs, observed=np.ravel(got)[:3],
                                     expected=np.ravel(want_)[:3])
    # integer arguments of the docstrings
    with guard(chk, ("conversion", "pyint"), case0):
        for rn, got, want_ in (("dB2Linear(30)", CV.dB2Linear(30), 1000.0), ("linear2dB(1000)", CV.linear2dB(1000), 30.0),
                               ("dBm2Linear(60)", CV.dBm2Linear(60), 1000.0), ("linear2dBm(1000)", CV.linear2dBm(1000), 60.0)):
            chk.count("eval_conv")
            if not abs(float(got) - want_) <= rt * want_:
                chk.fail(("conversion", rn, "pyint"), {"part": "conv", "form": "pyint", "what": rn},
                         observed=got, expected=want_)
        chk.nontriv(("conv", "grids"))
    with guard(chk, ("conversion", "zero_arguments"), case0):
        zero_forms = (("pyint", 0), ("pyfloat", 0.0), ("npfloat", np.float64(0.0)), ("array", np.zeros(3)),
                      ("neg_zero", -0.0))
        for form, z in zero_forms:
            one = z + 1 if form != "array" else np.ones(3)
            for rn, got, want_ in (("dB2Linear(0)", CV.dB2Linear(z), 1.0), ("dBm2Linear(0)", CV.dBm2Linear(z), 1e-3),
                                   ("linear2dB(1)", CV.linear2dB(one), 0.0), ("linear2dBm(1)", CV.linear2dBm(one), 30.0),
                                   ("SNR_dB_to_EbN0_dB(0,1)", CV.SNR_dB_to_EbN0_dB(z, 1), 0.0),
                                   ("EbN0_dB_to_SNR_dB(0,1)", CV.EbN0_dB_to_SNR_dB(z, 1), 0.0),
                                   ("SNR_dB_to_EbN0_dB(0,4)", CV.SNR_dB_to_EbN0_dB(z, 4), -10 * math.log(4) / LN10)):
                chk.count("eval_conv")
                g = np.asarray(got, dtype=float)
                if g.shape != np.shape(z) or not np.all(np.abs(g - want_) <= rt * max(abs(want_), 1.0)):
                    chk.fail(("conversion", rn, "zero_argument"), {"part": "conv", "form": form, "what": rn},
                             observed=got, expected=want_)
    lin_g = np.array([math.exp((-15.0 + 0.5 * i) * LN10) for i in range(61)])
    db_g = np.array([-150.0 + 5 * i for i in range(61)])
    for nm, grid in (("dB2Linear", db_g), ("dBm2Linear", db_g), ("linear2dB", lin_g), ("linear2dBm", lin_g)):
        alias_battery(chk, nm, getattr(CV, nm), [grid], {"part": "conv", "what": nm})
    alias_battery(chk, "SNR_dB_to_EbN0_dB", lambda a: CV.SNR_dB_to_EbN0_dB(a, 4), [db_g], {"part": "conv"})
    alias_battery(chk, "EbN0_dB_to_SNR_dB", lambda a: CV.EbN0_dB_to_SNR_dB(a, 4), [db_g], {"part": "conv"})


# ----------------------------------------------------------------------
def is_head(fam, A):
    """the simplest exhaustive members run first in the parent, so that the stored witness of a
    signature is the smallest enumerated member that exhibits it"""
    return fam in ("cunit3", "rint3") and A.size <= 3


def main(chk: Check):
    chk.assume("continuous matrix space is covered by the stated finite families only (DESIGN 2.2)")
    chk.assume("projection and calc_chordal_distance_2 form (A^H A)^-1: their relations are required to "
               "eps*kappa^2 and checked for kappa <= 1e4; QR/SVD based kernels to eps*kappa for kappa <= 1e6")
    chk.assume("the principal-angle distance is compared in d^2 (arccos has sqrt(eps) conditioning at angle 0), "
               "so 'vanishes for equal subspaces' means d^2 <= C*eps*kappa*k for that route")
    chk.assume("least_right_singular_vectors on a wide r x c matrix is exercised for k >= c-r only "
               "(for smaller k the third return value would need singular values that do not exist)")
    chk.assume("get_principal_component_matrix has no behavioural specification beyond its shape and is not judged")
    chk.assume("peig/leig columns must be linearly independent: sigma_min(V) > 1e-6")
    chk.extra["axes"] = {
        "kernel": ["projection", "gmd", "least_right_singular_vectors", "peig", "leig", "calc_whitening_matrix",
                   "update_inv_sum_diag", "chordal distances (3 routes)", "unit conversions"],
        "shape_class": ["1x1", "1xn", "mx1", "tall", "square", "wide"],
        "field": ["complex", "real", "int64"],
        "structure": ["exhaustive small entries", "generic", "nearly dependent", "tied", "nearly tied"],
        "magnitude": [1.0] + list(SCALES),
        "memory_layout": ["C", "F", "read-only transposed view", "read-only C"],
        "update_structure": list(UPDATE_STRUCTURE_AXIS),
        "update_diagonal": [k for k, _ in UPDATE_DIAG_KINDS] + ["real d>=0 incl. 1e3", "scaled", "(invalid: short/long/list/2-D: outcomes)"],
        "pairwise": "every two of {field, structure, magnitude, shape class, layout} occur together at their unusual "
                    "values (families pair_*, degen_*, *@g, neartied*@g, rint3, aliasing battery on all of them); "
                    "update part: full cross product structure x diagonal kind"}
    chk.extra["tolerances"] = {"C": C, "rule": "err <= C*2^-52*kappa_eff*scale", "K_PROJ": K_PROJ,
                               "K_MAX": K_MAX, "K_COV": K_COV, "repeated_eigenvalue_gap": GAP_REPEATED}

    for fam, member, A in matrix_items(chk.tier):
        if is_head(fam, A):
            run_matrix_item(chk, fam, member, A)

    def worker(i, n, c):
        try:
            for fam, member, A in shard(matrix_items(c.tier), i, n):
                if not is_head(fam, A):
                    run_matrix_item(c, fam, member, A)
            for fam, member, X, d in shard(update_items(c.tier), i, n):
                run_update(c, {"part": "update", "fam": fam, "member": member, "X": X, "d": d,
                               "battery": member == 0})
            for fam, member, A, B in shard(chordal_pairs(c.tier), i, n):
                run_chordal(c, {"part": "chordal", "fam": fam, "member": member, "A": A, "B": B})
            for fam, member, A, B in shard(mixed_pairs(c.tier), i, n):
                run_chordal_mixed(c, {"part": "chordal_mixed", "fam": fam, "member": member, "A": A, "B": B})
        except Broken as e:             # carried to the parent (a worker cannot exit 2 by itself)
            c.extra["broken_in_worker"] = str(e)

    run_shards(chk, worker)
    run_update_invalid_diagonals(chk)
    if chk.extra.get("broken_in_worker"):
        raise Broken(chk.extra["broken_in_worker"])
    run_conv(chk)
    chk.sample({"part": "matrix", "fam": "rint3", "member": 5, "A": np.array([[1], [-1], [0]])})
    chk.sample({"part": "update", "fam": "hpd0.1", "member": 0, "X": F.hpd(0, 2, 0.1), "d": np.array([0.5, 10.0])})
    chk.sample({"part": "chordal", "fam": "runit3", "member": (1, 3), "A": np.array([[0.], [1.]]),
                "B": np.array([[1.], [0.]])})
    chk.require_outcomes("kappa_decade", 5)
    chk.require_outcomes("proj_dims", 10)
    chk.require_outcomes("gmd_shape_class", 12)
    chk.require_outcomes("lrsv_split", 20)
    chk.require_outcomes("eig_select", 20)
    chk.require_outcomes("whiten", 6)
    chk.require_outcomes("chordal_bucket", 12)
    chk.require_outcomes("chordal_mixed_dims", 20)
    chk.require_outcomes("update_nonzero_d", 10)
    chk.require_outcomes("update_input_class", 6)
    chk.require_outcomes("update_structure_x_diagonal", len(UPDATE_STRUCTURE_AXIS) * len(UPDATE_DIAG_KINDS))
    chk.require_outcomes("conv_bits", 12)


def replay(case, chk: Check):
    part = case.get("part")
    if part == "matrix":
        replay_matrix(chk, case)
    elif part == "update":
        run_update(chk, case)
    elif part == "chordal_mixed":
        run_chordal_mixed(chk, case)
    elif part == "chordal":
        run_chordal(chk, case)
    else:
        run_conv(chk)
