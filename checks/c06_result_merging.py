"""C06 - combining simulation results is independent of how repetitions were grouped.

Level 1 (Result objects, explicit-state enumeration of update/merge programs)
    A program is a term   E ::= new | E.update(o_k) | E.merge(E)   whose
    observations, read in order, are o_0 .. o_{n-1}.  For every observation
    sequence of length <= L over the per-type alphabet EVERY such term is
    executed on the real `Result` class (this is a superset of "every partition
    into contiguous chunks x every association order of the chunk merges": a
    chunk is a maximal run of updates; updates after a merge are included).
    Terms with one *empty* side (`new` merged into something / something merged
    into `new`, the idiom of `combine_simulation_results`) are enumerated for
    shorter sequences.  The object produced by every term is compared with
      (i)  a sufficient-statistics reference model folded over o_0 .. o_{n-1},
      (ii) one object fed the whole sequence (differential),
    and after EVERY merge every object that has ever been a merged-in operand is
    compared with the snapshot taken before it was merged.

Level 2 (SimulationResults): chunks become result sets with two named results;
    every partition x every association order of `merge_all_results`, started
    from an empty accumulator and from the first chunk; the same for
    `append_all_results`; optional 'num_skipped_reps' result in a subset of the
    chunks; every left fold mixing merge_all_results and append_all_results (the
    accumulator then holds several results per name and only the last one may
    absorb a merge).  Same oracles, same operand snapshots.

Level 3 (combine_simulation_results / combine_simulation_parameters): one or
    two unpacked parameters, every ordered pair of non-empty value subsets of a
    3-element (x 2-element) universe, per-value histories, six value universes
    (small ints; tiny floats; large floats a fine step / one ulp apart; strings
    differing in case / by a suffix; equal values spelled int in one operand and
    float in the other; numpy scalars vs Python scalars); the union must hold,
    per parameter combination and aligned with the union's unpack order, the
    reference statistics of "history in operand 1 followed by history in
    operand 2" and equal one object fed the same observations; operands must be
    unchanged.  Per-variation histories include the EMPTY history (a result
    never updated) at the first / middle / last variation of either operand or
    everywhere, for every type, CHOICETYPE with 2, 3 and 5 choices.  Operands
    are also built on parameter objects that were read and then EDITED through
    the public writers (item assignment, add, remove + add).  Every operand
    lists the values of its unpacked parameters ascending, descending or
    shuffled, including pairs with IDENTICAL grids in the same order.
"""
import contextlib
import copy
import itertools
import os
import traceback

import numpy as np

from vmc import bfs
from vmc import common
from vmc.parallel import run_shards, shard
from vmc.report import Broken, Check

PID = "C06"
LEVEL = "model_checking"
ENGINE = "E3 explicit-state enumeration of update/merge programs on real objects + E1 grids (set / union level)"
RULE = ("result level: every observation sequence of length <= L over the per-type alphabet x every term of "
        "E ::= new | E.update(o) | E.merge(E) reading the sequence in order (superset of every contiguous "
        "partition x every merge association order) x accumulate on/off, plus terms with one empty-sided merge "
        "for shorter sequences; set level: two named results x every partition x every association order of "
        "merge_all_results / append_all_results x empty or non-empty accumulator x num_skipped_reps masks, and every "
        "mixed merge/append left fold (accumulator holding several results per name: only the last is merged); union "
        "level: every ordered pair of non-empty value subsets (49, x9 with a second unpacked parameter) x "
        "per-value histories x 6 value universes (small ints, tiny floats, large floats a step / one ulp apart, "
        "case/suffix-confusable strings, int-vs-float and numpy-vs-Python spellings of equal values), with every "
        "get_pack_indexes / get_result_values_list look-up by fixed value (present and absent, Python and numpy "
        "scalar) checked against a brute-force filter on the union and on both operands; empty (never updated) "
        "per-variation histories at the first / middle / last variation of either operand or everywhere x every "
        "type x CHOICE with 2/3/5 choices, each combined result also compared with one object fed the same "
        "observations; operands built on parameter objects that were read and then edited through the public "
        "writers (item assignment / add / remove+add); per-operand presentation order of the values (ascending / "
        "descending / shuffled, all 8 non-trivial pairs) incl. identical grids, numeric and string valued, list and "
        "array. Oracles (public API only: get_result, num_updates, mean, var, "
        "accumulated lists, to_dict for value / total): sufficient-statistics reference model, one object fed the whole "
        "sequence, operand snapshots after every merge. A case is non-trivial when it executes at least one "
        "merge/append/combine; distinct = distinct (level, types, accumulate, observations, term)")

TYPES = ("SUM", "RATIO", "CHOICE", "MISC")
CHOICE_NUM = 3
REL_TOL = 1e-12          # DESIGN: exact for ints, 1e-12 relative for floats


def _R():
    from pyphysim.simulations.results import Result
    return Result


def type_code(t):
    R = _R()
    return {"SUM": R.SUMTYPE, "RATIO": R.RATIOTYPE, "CHOICE": R.CHOICETYPE, "MISC": R.MISCTYPE}[t]


def alphabets():
    """observation alphabets, simplest first.  The first three letters of every
    type are DESIGN's (all dyadic -> every association order is exact); the
    fourth letter of SUM / RATIO is non-dyadic (SUM: rotated by the seed) so
    that the floating point tolerance path is exercised as well."""
    irr = 0.1 + common.seed_offset(6)
    return {
        "SUM": [[1], [2.5], [-1], [irr]],
        "RATIO": [[1, 2], [0, 5], [3, 4], [1, 3]],
        "CHOICE": [[0], [1], [2]],
        "MISC": [["a"], [7], [[1]]],
    }


def dyadic(t, obs):
    if t == "SUM":
        return all(float(o[0]) * 4 == int(float(o[0]) * 4) for o in obs)
    if t == "RATIO":
        return all(o[1] in (1, 2, 4, 5) and (o[0] == 0 or o[1] in (1, 2, 4)) for o in obs)
    return True


# ----------------------------------------------------------------------
# canonical form of (numpy laden) object graphs: snapshots and state digests
# ----------------------------------------------------------------------
def canon(x, depth=0):
    if depth > 12:
        return ("deep",)
    if x is None:
        return ("N",)
    if isinstance(x, np.ndarray):
        return ("A", str(x.dtype), x.shape, tuple(x.ravel().tolist()))
    if isinstance(x, (bool, np.bool_)):
        return ("b", bool(x))
    if isinstance(x, (int, np.integer)):
        return ("i", type(x).__name__, int(x))
    if isinstance(x, (float, np.floating)):
        return ("f", type(x).__name__, float(x).hex())
    if isinstance(x, str):
        return ("s", x)
    if isinstance(x, (list, tuple)):
        return ("L", type(x).__name__, tuple(canon(e, depth + 1) for e in x))
    if isinstance(x, (set, frozenset)):
        return ("S", tuple(sorted((canon(e, depth + 1) for e in x), key=repr)))
    if isinstance(x, dict):
        return ("D", tuple(sorted(((repr(k), canon(v, depth + 1)) for k, v in x.items()))))
    if hasattr(x, "__dict__") or any("__slots__" in k.__dict__ for k in type(x).__mro__):
        return ("O", type(x).__name__, canon(bfs.state_of(x), depth + 1))
    return ("?", repr(x))


def dg(c):
    import hashlib
    return hashlib.sha1(repr(c).encode()).hexdigest()[:16]


# ----------------------------------------------------------------------
# reference model: sufficient statistics folded over the observations in order
# ----------------------------------------------------------------------
class Ref:
    def __init__(self, t, obs=(), k=None):
        self.t = t
        self.n = 0
        self.value = [0] * (k or CHOICE_NUM) if t == "CHOICE" else 0
        self.total = 0
        self.s1 = 0.0
        self.s2 = 0.0
        self.vlist = []
        self.tlist = []
        self.last = None
        for o in obs:
            self.update(o)

    def update(self, o):
        t = self.t
        self.n += 1
        v = o[0]
        self.vlist.append(v)
        if t == "SUM":
            self.value = self.value + v
            self.s1 += v
            self.s2 += v * v
        elif t == "RATIO":
            self.value = self.value + v
            self.total = self.total + o[1]
            r = v / o[1]
            self.s1 += r
            self.s2 += r * r
            self.tlist.append(o[1])
        elif t == "CHOICE":
            self.value[v] += 1
            self.total += 1
        else:
            self.last = v

    def result(self):
        if self.n == 0:
            return "Nothing yet"
        if self.t == "SUM":
            return self.value
        if self.t == "RATIO":
            return self.value / self.total
        if self.t == "CHOICE":
            return [c / self.total for c in self.value]
        return self.last

    def key(self):
        return (self.t, self.n, repr(self.value), repr(self.total), repr(self.last))


def feq(a, b, scale=1.0):
    """numbers: ints exactly, floats to REL_TOL relative (of max(|a|,|b|,scale))"""
    try:
        if isinstance(a, (bool, str, list)) or isinstance(b, (bool, str, list)):
            return type(a) is type(b) and a == b
        if isinstance(a, (int, np.integer)) and isinstance(b, (int, np.integer)):
            return int(a) == int(b)
        a = float(a)
        b = float(b)
    except (TypeError, ValueError):
        return False
    if a == b:
        return True
    return abs(a - b) <= REL_TOL * max(abs(a), abs(b), scale)


def same_obs_value(a, b):
    """exact equality of two observation values including their Python type"""
    if isinstance(a, list) or isinstance(b, list):
        return isinstance(a, list) and isinstance(b, list) and len(a) == len(b) and \
            all(same_obs_value(x, y) for x, y in zip(a, b))
    if isinstance(a, str) or isinstance(b, str):
        return isinstance(a, str) and isinstance(b, str) and a == b
    try:
        return bool(a == b)
    except Exception:  # noqa
        return False


MISSING = object()
VERIF_ROOT = os.path.dirname(os.path.dirname(os.path.abspath(__file__)))


def _origin(exc):
    """'library' if the innermost frame that belongs to pyphysim or to /verif is pyphysim's, else 'check'"""
    for fr in reversed(traceback.extract_tb(exc.__traceback__)):
        fn = os.path.abspath(fr.filename)
        if fn.startswith(VERIF_ROOT + os.sep):
            return "check"
        if "/pyphysim/" in fn:
            return "library"
    return "check"


@contextlib.contextmanager
def guard(c, sig_prefix, case):
    """c.guard for VALID calls: an exception raised inside pyphysim is a
    violation; an exception whose innermost own frame is this check's code
    (an attribute it assumed, a shape it did not expect) means the CHECK is
    broken (exit 2) - never a verdict about the property."""
    with c.guard(sig_prefix, case):
        try:
            yield
        except (KeyboardInterrupt, SystemExit, Broken):
            raise
        except BaseException as e:  # noqa
            if _origin(e) == "check":
                fr = traceback.extract_tb(e.__traceback__)[-1]
                raise Broken("check code raised %s: %s at %s:%s %s (case %s)" % (
                    type(e).__name__, e, os.path.basename(fr.filename), fr.lineno, fr.name,
                    {k: v for k, v in (case or {}).items() if k in ("level", "type", "term_str", "types", "universe")}))
            raise


def _private(obj, *names, default=MISSING):
    """an attribute the library does not promise (tolerant): first candidate that exists"""
    for n in names:
        try:
            return getattr(obj, n)
        except AttributeError:
            continue
    return default


def pubdict(r):
    """the public dictionary representation of a Result (or None)"""
    try:
        d = r.to_dict()
        return d if isinstance(d, dict) else None
    except (AttributeError, NotImplementedError, TypeError):
        return None


def finer(c, r, key, *private_names, d=MISSING):
    """`value` / `total` of a Result.  The property names them, the class has no
    getter for them: they are read from the PUBLIC dictionary representation
    (`to_dict()[key]`), else from a private attribute if one of the candidate
    names exists, else the relation is skipped and counted
    (`oracle_input_unavailable`) - never an AttributeError with a property signature."""
    if d is MISSING:
        d = pubdict(r)
    if d is not None and key in d:
        return d[key]
    v = _private(r, *private_names)
    if v is MISSING and c is not None:
        c.count("oracle_input_unavailable")
        c.outcome("oracle_input_unavailable", key)
    return v


def as_int(x):
    """integer VALUE of an int-like (int, numpy integer, integral float); None otherwise"""
    try:
        if isinstance(x, (bool, np.bool_, str)):
            return None
        f = float(x)
        return int(f) if f == int(f) else None
    except (TypeError, ValueError, OverflowError):
        return None


def as_floats(x, n):
    """n numbers out of any sequence / array; None if it is not one"""
    try:
        a = np.asarray(x, dtype=float).ravel()
    except (TypeError, ValueError):
        return None
    return a.tolist() if a.size == n else None


def acc_lists(r):
    """accumulated values / totals through the public accessors"""
    try:
        return list(r.get_result_accumulated_values()), list(r.get_result_accumulated_totals())
    except AttributeError:
        v, t = _private(r, "_value_list"), _private(r, "_total_list")
        return (None if v is MISSING else list(v)), (None if t is MISSING else list(t))


_NOTHING = {}


def nothing_yet(t, k=None):
    """what get_result() of a NEVER-updated result of this type answers (the
    library's convention, whatever it is - taken from a fresh object)"""
    key = (t, k)
    if key not in _NOTHING:
        _NOTHING[key] = new_result(t, False, "r", k).get_result()
    return _NOTHING[key]


def same_answer(a, b):
    """two get_result() answers denote the same value (type of number / container not compared)"""
    if isinstance(a, str) or isinstance(b, str):
        return isinstance(a, str) and isinstance(b, str) and a == b
    if a is None or b is None:
        return a is None and b is None
    try:
        x, y = np.asarray(a), np.asarray(b)
        if x.dtype == object or y.dtype == object:
            return same_obs_value(a, b)
        return x.shape == y.shape and bool(np.all((x == y) | ((x != x) & (y != y))))
    except Exception:  # noqa
        return same_obs_value(a, b)


def compare(got, ref, acc, lists=True, misc_counts=False, c=None):
    """comparison of a real Result with the reference model through the public
    API (get_result, num_updates, type_code, mean, var, accumulated lists,
    to_dict for value / total).  Values are compared as VALUES (not by Python /
    numpy type).  Returns a list of (field, observed, expected)."""
    bad = []
    t = ref.t
    k = len(ref.value) if t == "CHOICE" else None

    def chk_(field, o, e, ok):
        if not ok:
            bad.append((field, o, e))

    chk_("type_code", got.type_code, type_code(t), got.type_code == type_code(t))
    if t != "MISC" or misc_counts:
        chk_("num_updates", got.num_updates, ref.n, as_int(got.num_updates) == ref.n)
    res = got.get_result()
    exp = ref.result()
    gd = pubdict(got)
    value = finer(c, got, "value", "_value", "value", d=gd)
    total = finer(c, got, "total", "_total", "total", d=gd)
    if c is not None:
        c.count("value_total_relations_checked", int(value is not MISSING) + int(total is not MISSING))
    if t == "MISC":
        # last observation wins
        if ref.n == 0:
            chk_("get_result", res, nothing_yet(t), same_answer(res, nothing_yet(t)))
        else:
            chk_("get_result", res, exp, same_obs_value(res, exp))
    elif ref.n == 0:
        chk_("get_result", res, nothing_yet(t, k), same_answer(res, nothing_yet(t, k)))
        if value is not MISSING:
            if t == "CHOICE":
                chk_("value", value, ref.value, as_floats(value, k) == [float(v) for v in ref.value])
            else:
                chk_("value", value, 0, feq(value, 0))
        if total is not MISSING:
            chk_("total", total, 0, feq(total, 0))
    else:
        if t == "CHOICE":
            if value is not MISSING:
                chk_("value", value, ref.value, as_floats(value, k) == [float(v) for v in ref.value])
            r = as_floats(res, k) if not isinstance(res, str) else None
            chk_("get_result", res, exp, r is not None and all(feq(a, b) for a, b in zip(r, exp)))
        else:
            if value is not MISSING:
                chk_("value", value, ref.value, feq(value, ref.value))
            chk_("get_result", res, exp, not isinstance(res, str) and feq(res, exp))
        if total is not MISSING:
            chk_("total", total, ref.total, feq(total, ref.total))
        mean = got.get_result_mean()
        var = got.get_result_var()
        emean = ref.s1 / ref.n
        evar = ref.s2 / ref.n - emean ** 2
        sc = max(1.0, ref.s2 / ref.n)
        chk_("mean", mean, emean, feq(mean, emean, 1.0))
        chk_("var", var, evar, feq(var, evar, 4 * sc))
    if lists:
        vl, tl = acc_lists(got)
        if vl is None or tl is None:
            if c is not None:
                c.count("oracle_input_unavailable")
                c.outcome("oracle_input_unavailable", "accumulated_lists")
        elif acc:
            ok = len(vl) == len(ref.vlist) and all(same_obs_value(a, b) for a, b in zip(vl, ref.vlist))
            chk_("value_list", vl, ref.vlist, ok)
            chk_("total_list", tl, ref.tlist, len(tl) == len(ref.tlist) and all(feq(a, b) for a, b in zip(tl, ref.tlist)))
        else:
            chk_("value_list", vl, [], len(vl) == 0)
            chk_("total_list", tl, [], len(tl) == 0)
        chk_("accumulate_values_bool", got.accumulate_values_bool, acc, bool(got.accumulate_values_bool) == bool(acc))
    return bad


def compare_objects(got, one, t, exact, c=None):
    """differential: the merged object against ONE object fed the whole
    sequence, through the same public observations.  Field names are those of
    `compare` so that one defect gives one signature whichever oracle sees it first."""
    bad = []
    if t != "MISC":
        if as_int(got.num_updates) != as_int(one.num_updates):
            bad.append(("num_updates", got.num_updates, "%r (one object fed everything)" % (one.num_updates,)))
        if as_int(one.num_updates):
            for label, f in (("mean", "get_result_mean"), ("var", "get_result_var")):
                a, b = getattr(got, f)(), getattr(one, f)()
                if not feq(a, b, 1.0):
                    bad.append((label, a, "%r (one object fed everything)" % (b,)))
    gd, od = pubdict(got), pubdict(one)
    ta, tb = finer(c, got, "total", "_total", "total", d=gd), finer(None, one, "total", "_total", "total", d=od)
    if ta is not MISSING and tb is not MISSING and not feq(ta, tb, 1.0):
        bad.append(("total", ta, "%r (one object fed everything)" % (tb,)))
    va, vb = finer(c, got, "value", "_value", "value", d=gd), finer(None, one, "value", "_value", "value", d=od)
    if va is not MISSING and vb is not MISSING:
        if t == "CHOICE":
            if not same_answer(va, vb):
                bad.append(("value", va, vb))
        elif t == "MISC":
            if as_int(one.num_updates) and not same_obs_value(va, vb):
                bad.append(("get_result", va, vb))
        elif not feq(va, vb):
            bad.append(("value", va, vb))
    ra, rb = got.get_result(), one.get_result()
    if t == "MISC":
        if as_int(one.num_updates) and not same_obs_value(ra, rb):
            bad.append(("get_result", ra, rb))
    elif isinstance(ra, str) or isinstance(rb, str):
        if not same_answer(ra, rb):
            bad.append(("get_result", ra, rb))
    else:
        fa, fb = as_floats(ra, np.size(rb)), as_floats(rb, np.size(rb))
        if fa is None or fb is None or not all(feq(x, y) or (x != x and y != y) for x, y in zip(fa, fb)):
            bad.append(("get_result", ra, rb))
    if exact and t != "MISC":
        # the library's own equality (ignores num_updates); only asserted when
        # every partial sum is exactly representable
        if not (got == one) or (got != one):
            bad.append(("__eq__with_one_object", False, True))
    return bad


def dedup(bad):
    seen, out = set(), []
    for f, o, e in bad:
        if f not in seen:
            seen.add(f)
            out.append((f, o, e))
    return out


def summary(x):
    """short human-readable public state of a Result / SimulationResults (for messages)"""
    if hasattr(x, "get_result_names"):
        return {n: [summary(r) for r in x[n]] for n in x.get_result_names()}
    v = x.get_result()
    v = v.tolist() if isinstance(v, np.ndarray) else v
    return "get_result=%r num_updates=%r" % (v, x.num_updates)


def _raw_state(x):
    if hasattr(x, "get_result_names"):
        names = sorted(x.get_result_names())
        st = {"names": names, "results": {n: [_raw_state(r) for r in x[n]] for n in names}}
        p = getattr(x, "params", None)
        if p is not None:
            st["params"] = p.parameters
            st["unpacked"] = list(p.unpacked_parameters)
        for a in ("runned_reps", "current_rep"):
            st[a] = getattr(x, a, None)
        return st
    d = pubdict(x)
    if d is not None:
        # the dictionary representation holds every stored statistic
        return (d, x.get_result())
    st = {"name": x.name, "type": x.type_code, "n": as_int(x.num_updates), "result": x.get_result(),
          "acc": bool(x.accumulate_values_bool), "lists": acc_lists(x)}
    if as_int(x.num_updates) and x.type_code != _R().MISCTYPE:
        st["mean"], st["var"] = x.get_result_mean(), x.get_result_var()
    return st


def public_state(x):
    """what an operand IS for its users: the public dictionary representation
    plus the public getters (not the private layout: a cache filled by a read
    is not a mutation).  Used for the operand-unchanged snapshots."""
    return canon(_raw_state(x))


# ----------------------------------------------------------------------
# terms
# ----------------------------------------------------------------------
_TERMS = {}


def terms(i, j, e):
    """all terms reading observations i..j-1 in order with exactly `e`
    empty-sided merges.  ('new',) | ('upd', term, k) | ('mrg', left, right)"""
    key = (i, j, e)
    r = _TERMS.get(key)
    if r is not None:
        return r
    out = []
    if i == j:
        if e == 0:
            out.append(("new",))
    else:
        for t in terms(i, j - 1, e):
            out.append(("upd", t, j - 1))
        for k in range(i + 1, j):
            for e1 in range(e + 1):
                for lt in terms(i, k, e1):
                    for rt in terms(k, j, e - e1):
                        out.append(("mrg", lt, rt))
        if e >= 1:
            for t in terms(i, j, e - 1):
                out.append(("mrg", ("new",), t))
                out.append(("mrg", t, ("new",)))
    _TERMS[key] = out
    return out


def term_str(t):
    if t[0] == "new":
        return "N"
    if t[0] == "upd":
        return term_str(t[1]) + ".u%d" % t[2]
    return "(%s<-%s)" % (term_str(t[1]), term_str(t[2]))


def term_to_json(t):
    return [t[0]] + [term_to_json(x) if isinstance(x, tuple) else x for x in t[1:]]


def term_from_json(t):
    return tuple(term_from_json(x) if isinstance(x, list) else x for x in t)


def n_merges(t):
    if t[0] == "new":
        return 0
    if t[0] == "upd":
        return n_merges(t[1])
    return 1 + n_merges(t[1]) + n_merges(t[2])


def span(t):
    """number of observations read by term t"""
    if t[0] == "new":
        return 0
    if t[0] == "upd":
        return span(t[1]) + 1
    return span(t[1]) + span(t[2])


def has_empty_operand(t):
    """some merge whose merged-in (right) operand has seen no observation"""
    if t[0] == "new":
        return False
    if t[0] == "upd":
        return has_empty_operand(t[1])
    return span(t[2]) == 0 or has_empty_operand(t[1]) or has_empty_operand(t[2])


def new_result(t, acc, name="r", k=None):
    R = _R()
    if t == "CHOICE":
        return R(name, R.CHOICETYPE, accumulate_values=acc, choice_num=k or CHOICE_NUM)
    return R(name, type_code(t), accumulate_values=acc)


def fed(t, acc, obs, name="r", k=None):
    r = new_result(t, acc, name, k)
    for o in obs:
        r.update(*copy.deepcopy(o))     # the alphabet must never be aliased by the implementation
    return r


class Exec:
    """executes one term on real Result objects; snapshots every operand"""

    def __init__(self, c, t, acc, obs):
        self.c, self.t, self.acc, self.obs = c, t, acc, obs
        self.operands = []      # (object, snapshot, info)
        self.mutated = []       # (info, field diff)
        self.updates = 0
        self.merges = 0

    def run(self, term):
        k = term[0]
        if k == "new":
            r = new_result(self.t, self.acc)
        elif k == "upd":
            r = self.run(term[1])
            r.update(*copy.deepcopy(self.obs[term[2]]))
            self.updates += 1
            self.c.outcome("result_states", dg(canon(bfs.state_of(r))))
        else:
            r = self.run(term[1])
            o = self.run(term[2])
            snap = public_state(o)
            info = summary(o)
            r.merge(o)
            self.merges += 1
            self.operands.append((o, snap, info))
            for (oo, ss, ii) in self.operands:
                if public_state(oo) != ss and not self.mutated:
                    self.mutated.append((ii, ss, summary(oo)))
            self.c.outcome("result_states", dg(canon(bfs.state_of(r))))
        return r


def run_result_case(c, t, acc, obs, term):
    """one term on the real class against both oracles"""
    case = {"level": "result", "type": t, "acc": bool(acc), "obs": obs, "term": term_to_json(term),
            "term_str": term_str(term)}
    nm = n_merges(term)
    pure = nm == 0
    func = "Result.update" if pure else "Result.merge"
    with guard(c, (func, t), case):
        ex = Exec(c, t, acc, obs)
        got = ex.run(term)
        c.count("eval_result_terms")
        c.transitions += ex.updates + ex.merges
        c.traces_validated += 1
        ref = Ref(t, obs)
        empty_op = has_empty_operand(term)
        variant = "empty_operand" if empty_op else "plain"
        bad = compare(got, ref, acc, c=c)
        one = fed(t, acc, obs)
        bad = dedup(bad + compare_objects(got, one, t, dyadic(t, obs), c))
        if not pure:
            c.nontriv(("r", t, acc, repr(obs), term_str(term)))
        c.outcome("final_stats", ref.key())
        c.outcome("term_shapes", term_str(term))
        for field, o, e in bad:
            c.fail((func, t, field, variant), case, observed=o, expected=e,
                   msg="term %s over observations %r" % (term_str(term), obs))
        for info, _, now in ex.mutated:
            c.fail(("Result.merge", t, "operand_mutated"), case, observed=now, expected=info,
                   msg="an object that had been merged into another one changed afterwards")
        c.count("operand_snapshots_checked", len(ex.operands))


def sequences(alpha, L):
    for n in range(0, L + 1):
        for idx in itertools.product(range(len(alpha)), repeat=n):
            yield [alpha[i] for i in idx]


# ----------------------------------------------------------------------
# set level
# ----------------------------------------------------------------------
def compositions(n):
    """all partitions of range(n) into contiguous non-empty chunks (2^(n-1))"""
    if n == 0:
        yield []
        return
    for mask in range(1 << (n - 1)):
        cuts = [0] + [k + 1 for k in range(n - 1) if mask >> k & 1] + [n]
        yield [(cuts[a], cuts[a + 1]) for a in range(len(cuts) - 1)]


_TREES = {}


def trees(i, j):
    """all binary association trees over leaves i..j-1 (Catalan)"""
    r = _TREES.get((i, j))
    if r is not None:
        return r
    if j - i == 1:
        out = [i]
    else:
        out = []
        for k in range(i + 1, j):
            for lt in trees(i, k):
                for rt in trees(k, j):
                    out.append((lt, rt))
    _TREES[(i, j)] = out
    return out


def tree_to_json(t):
    return t if isinstance(t, int) else [tree_to_json(t[0]), tree_to_json(t[1])]


def tree_from_json(t):
    return t if isinstance(t, int) else (tree_from_json(t[0]), tree_from_json(t[1]))


def leaves(t):
    return [t] if isinstance(t, int) else leaves(t[0]) + leaves(t[1])


def make_set(types, acc, obs_by_name, skipped):
    """one SimulationResults holding one Result per name.  A single
    observation without accumulation is added the way the runner's
    _run_simulation does (add_new_result); otherwise add_result(fed object)."""
    from pyphysim.simulations.results import SimulationResults
    R = _R()
    s = SimulationResults()
    for name, t in zip(("a", "b"), types):
        obs = obs_by_name[name]
        if len(obs) == 1 and not acc:
            o = copy.deepcopy(obs[0])
            if t == "CHOICE":
                s.add_new_result(name, R.CHOICETYPE, o[0], CHOICE_NUM)
            elif t == "RATIO":
                s.add_new_result(name, R.RATIOTYPE, o[0], o[1])
            else:
                s.add_new_result(name, type_code(t), o[0])
        else:
            s.add_result(fed(t, acc, obs, name))
    if skipped is not None:
        s.add_new_result("num_skipped_reps", R.SUMTYPE, skipped)
    return s


def run_set_case(c, case):
    from pyphysim.simulations.results import SimulationResults
    types = case["types"]
    acc = case["acc"]
    obs = case["obs"]                 # list of {"a": o, "b": o}
    chunks = [tuple(x) for x in case["chunks"]]
    tree = tree_from_json(case["tree"])
    op = case["op"]                   # "merge" | "append"
    empty_acc = case["empty_acc"]
    skip = case.get("skip")           # list per chunk: None | int
    func = "merge_all_results" if op == "merge" else "append_all_results"
    with guard(c, (func,) + tuple(types), case):
        objs = []
        if empty_acc:
            objs.append(SimulationResults())
        for ci, (a, b) in enumerate(chunks):
            obn = {n: [o[n] for o in obs[a:b]] for n in ("a", "b")}
            objs.append(make_set(types, acc, obn, skip[ci] if skip else None))
        operands = []
        mutated = []
        nops = [0]

        def run(t):
            if isinstance(t, int):
                return objs[t]
            left = run(t[0])
            right = run(t[1])
            snap = public_state(right)
            info = "into_empty_accumulator" if len(left) == 0 else "into_nonempty_set"
            before = summary(right)
            getattr(left, func)(right)
            nops[0] += 1
            operands.append((right, snap, info, before))
            for (oo, ss, ii, bb) in operands:
                if public_state(oo) != ss and ii not in [m[0] for m in mutated]:
                    mutated.append((ii, bb, summary(oo)))
            c.outcome("set_states", dg(canon(bfs.state_of(left))))
            return left

        final = run(tree)
        c.count("eval_set_programs")
        c.transitions += nops[0]
        c.traces_validated += 1
        c.count("operand_snapshots_checked", len(operands))
        c.nontriv(("s", op, tuple(types), acc, repr(obs), repr(chunks), repr(tree), empty_acc, repr(skip)))
        start = "from_empty" if empty_acc else "from_nonempty"
        names = set(final.get_result_names())
        want = {"a", "b"}
        if skip and any(s is not None for s in skip):
            want.add("num_skipped_reps")
        if names != want:
            c.fail((func, "result_names"), case, observed=sorted(names), expected=sorted(want))
        for name, t in zip(("a", "b"), types):
            lst = final[name] if name in names else []
            if op == "merge":
                exp = [Ref(t, [o[name] for o in obs])]
            else:
                exp = [Ref(t, [o[name] for o in obs[a:b]]) for (a, b) in chunks]
            if len(lst) != len(exp):
                c.fail((func, t, "number_of_results", start), case, observed=len(lst), expected=len(exp))
                continue
            for got, ref in zip(lst, exp):
                for field, o, e in compare(got, ref, acc, c=c):
                    c.fail((func, t, field, start), case, observed=o, expected=e,
                           msg="result %r" % name)
                c.outcome("final_stats", ref.key())
        if "num_skipped_reps" in want and "num_skipped_reps" in names:
            lst = final["num_skipped_reps"]
            if op == "merge":
                expv = [sum(s for s in skip if s is not None)]
            else:
                expv = [s for s in skip if s is not None]
            gotv = [r.get_result() for r in lst]
            if gotv != expv:
                c.fail((func, "num_skipped_reps", "value", start), case, observed=gotv, expected=expv)
        for info, before, now in mutated:
            c.fail((func, "operand_mutated", info), case, observed=now, expected=before,
                   msg="a result set that had been merged/appended (%s) changed when the accumulator "
                       "was merged/appended again" % info)


def run_fold_case(c, case):
    """left fold over the chunk sets with a free choice of merge_all_results /
    append_all_results at every step: the accumulator then holds SEVERAL results
    per name and merge_all_results must merge into the LAST one only."""
    from pyphysim.simulations.results import SimulationResults
    types, acc, obs = case["types"], case["acc"], case["obs"]
    chunks = [tuple(x) for x in case["chunks"]]
    ops = case["ops"]                 # one of "m"/"a" per chunk (first: into the start accumulator)
    with guard(c, ("fold_merge_append",) + tuple(types), case):
        accu = SimulationResults()
        model = {"a": [], "b": []}
        merged_in = []
        for ci, ((a, b), op) in enumerate(zip(chunks, ops)):
            obn = {n: [o[n] for o in obs[a:b]] for n in ("a", "b")}
            s = make_set(types, acc, obn, None)
            snap, before = public_state(s), summary(s)
            if op == "m":
                accu.merge_all_results(s)
                merged_in.append((s, snap, before, ci))
                for n in ("a", "b"):
                    if model[n]:
                        model[n][-1] = model[n][-1] + obn[n]
                    else:
                        model[n].append(list(obn[n]))
            else:
                accu.append_all_results(s)
                for n in ("a", "b"):
                    model[n].append(list(obn[n]))
            c.transitions += 1
            c.outcome("set_states", dg(canon(bfs.state_of(accu))))
            for (oo, ss, bb, k) in merged_in:
                if public_state(oo) != ss:
                    c.fail(("merge_all_results", "operand_mutated",
                            "into_empty_accumulator" if k == 0 else "into_nonempty_set"), case,
                           observed=summary(oo), expected=bb,
                           msg="chunk %d had been merged in and changed at step %d" % (k, ci))
                    merged_in = [m for m in merged_in if m[0] is not oo]
        c.count("eval_fold_programs")
        c.traces_validated += 1
        c.nontriv(("f", tuple(types), acc, repr(obs), repr(chunks), ops))
        c.outcome("fold_list_lengths", (len(model["a"]), ops.count("m")))
        for name, t in zip(("a", "b"), types):
            lst = accu[name] if name in accu.get_result_names() else []
            if len(lst) != len(model[name]):
                c.fail(("fold_merge_append", t, "number_of_results"), case,
                       observed=len(lst), expected=len(model[name]))
                continue
            for pos, (got, mobs) in enumerate(zip(lst, model[name])):
                for field, o, e in compare(got, Ref(t, mobs), acc, c=c):
                    where = "last" if pos == len(lst) - 1 else "earlier"
                    c.fail(("fold_merge_append", t, field, where + "_result"), case, observed=o, expected=e,
                           msg="result %r, list position %d of %d" % (name, pos, len(lst)))


def expand_fold_case(item):
    _, ta, tb, pairing, obs = item
    n = len(obs)
    for acc in (False, True):
        for chunks in compositions(n):
            k = len(chunks)
            if k < 2:
                continue
            for opmask in range(1 << k):
                ops = "".join("m" if opmask >> i & 1 else "a" for i in range(k))
                if "m" not in ops[1:] or "a" not in ops:
                    continue      # pure merge / pure append programs are covered by the tree family
                yield {"level": "fold", "types": [ta, tb], "acc": acc, "obs": obs,
                       "chunks": [list(x) for x in chunks], "ops": ops}


def set_cases(types_ok, L, tier):
    """deterministic generator of set-level cases"""
    al = alphabets()
    for ta in types_ok:
        for tb in types_ok:
            A, B = al[ta][:3], al[tb][:3]
            for pairing in ((0, 1) if tier == "thorough" else (0,)):
                letters = [{"a": A[i], "b": B[(i + pairing) % 3]} for i in range(3)]
                for n in range(1, L + 1):
                    for idx in itertools.product(range(3), repeat=n):
                        yield ("set", ta, tb, pairing, [letters[i] for i in idx])


def expand_set_case(item, L_skip):
    _, ta, tb, pairing, obs = item
    n = len(obs)
    for acc in (False, True):
        for chunks in compositions(n):
            k = len(chunks)
            for empty_acc in (False, True):
                nl = k + (1 if empty_acc else 0)
                for tree in trees(0, nl):
                    for op in ("merge", "append"):
                        base = {"level": "set", "types": [ta, tb], "acc": acc, "obs": obs,
                                "chunks": [list(x) for x in chunks], "tree": tree_to_json(tree),
                                "op": op, "empty_acc": empty_acc, "skip": None}
                        yield base
                        if pairing == 0 and not acc and n <= L_skip and k >= 1:
                            for mask in range(1, 1 << k):
                                d = dict(base)
                                d["skip"] = [(ci + 1) if mask >> ci & 1 else None for ci in range(k)]
                                yield d


# ----------------------------------------------------------------------
# union level
# ----------------------------------------------------------------------
# Value universes of the unpacked parameters x (3 values) and y (2 values).
# Besides plain small ints they hold the values on which a tolerance-based or
# type-sloppy look-up goes wrong: tiny distinct floats (absolute tolerance),
# large floats a few ulp / a fine step apart (relative tolerance), strings that
# differ in case / by a suffix, equal values written as int in one operand and
# as float in the other, numpy scalars in one operand and Python scalars in the
# other.  A case names values by their RANK in the universe.
UNIVERSES = {
    "int": dict(X=(1, 2, 3), Y=(10, 20)),
    "tiny_float": dict(X=(1e-9, 2e-9, 4e-9), Y=(1e-12, 3e-12)),
    "large_close_float": dict(X=(2.4e9, 2.4e9 + 5e3, 2.4e9 + 1e4), Y=(1.0, 1.0 + 2.0 ** -52)),
    "str": dict(X=("A", "a", "ab"), Y=("x", "xy")),
    "int_vs_float": dict(X=(1, 2, 3), Y=(10, 20)),
    "numpy_vs_python": dict(X=(0.5, 1.5, 2.5), Y=(10, 20)),
}
XU = UNIVERSES["int"]["X"]
YU = UNIVERSES["int"]["Y"]


def represent(universe, which, axis, vals):
    """the container / scalar types in which operand `which` stores the values"""
    vals = list(vals)
    if universe == "str":
        return (vals if which == 0 else np.array(vals)) if axis == "x" else vals
    if universe == "int_vs_float":
        if axis == "x":
            return vals if which == 0 else [float(v) for v in vals]
        return np.array([float(v) for v in vals]) if which == 0 else vals
    if universe == "numpy_vs_python":
        if axis == "x":
            return [np.float64(v) for v in vals] if which == 0 else vals
        return vals if which == 0 else [np.int64(v) for v in vals]
    return np.array(vals) if axis == "x" else vals


def nonempty_subsets(u):
    out = []
    for m in range(1, 1 << len(u)):
        out.append([u[i] for i in range(len(u)) if m >> i & 1])
    return out


def hist(t, which, hv, rx, ry, k=None):
    """deterministic per-value history (by value RANK): 1-2 observations of the type's alphabet"""
    al = alphabets()[t][:3]
    if t == "CHOICE" and k:
        al = [[0], [(k - 1) // 2], [k - 1]]        # lowest, middle, highest choice
    ry = ry or 0
    k = 2 * rx + ry + 3 * which + hv
    n = 1 + (rx + ry + which + hv) % 2
    return [al[(k + j) % 3] for j in range(n)]


def tag_of(rx, ry):
    return 100 * (rx + 1) + (0 if ry is None else 10 * (ry + 1))


def variation_positions(n):
    """named positions in a list of n variations -> index"""
    out = {"first": 0, "last": n - 1}
    if n >= 3:
        out["middle"] = n // 2
    return out


def empty_positions(spec, which, n):
    """which variations of operand `which` (0/1, holding n variations) have an
    EMPTY history (a result that was never updated: every repetition skipped).
    spec: None | [operand, position] with operand in {0, 1, 'both'} and position
    in {'first', 'middle', 'last', 'all'}; legacy: True = everything empty"""
    if not spec:
        return set()
    if spec is True:
        return set(range(n))
    op, pos = spec
    if op != "both" and op != which:
        return set()
    if pos == "all":
        return set(range(n))
    idx = variation_positions(n).get(pos)
    return set() if idx is None else {idx}


def present_in_order(ranks, how):
    """ascending / descending / shuffled (rotated by one; a transposition for two values)"""
    r = sorted(ranks)
    if how == "desc":
        return r[::-1]
    if how == "shuf":
        return r[1:] + r[:1]
    return r


def build_operand(t, acc, which, hv, universe, rxs, rys, order, empty=None, k=None, via=None):
    """returns (SimulationResults, x ranks in stored order, y ranks or None).
    via = None: the parameters object is created with its final values.
    via in {'setitem', 'add', 'remove_add'}: it first holds OTHER unpacked value
    lists (of another length), is READ through every public reader, and only
    then receives the final values through that public writer - the object a
    user gets after editing a parameter; everything derived from it must be
    what a freshly created object gives."""
    from pyphysim.simulations.parameters import SimulationParameters
    from pyphysim.simulations.results import SimulationResults
    R = _R()
    U = UNIVERSES[universe]
    rxs = list(rxs)
    rys = None if rys is None else list(rys)
    if isinstance(order, (list, tuple)):
        # per-operand presentation order of the values of EVERY unpacked parameter
        rxs = present_in_order(rxs, order[which])
        rys = None if rys is None else present_in_order(rys, order[which])
    elif order == "desc" and which == 1:
        rxs = rxs[::-1]
    pd = {"f": 7, "x": represent(universe, which, "x", [U["X"][r] for r in rxs])}
    if rys is not None:
        pd["y"] = represent(universe, which, "y", [U["Y"][r] for r in rys])
    if via:
        def other(vals, full):
            return list(full) if len(vals) < len(full) else list(full[:1])
        stale = {"f": 7, "x": other(rxs, U["X"])}
        if rys is not None:
            stale["y"] = other(rys, U["Y"])
        p = SimulationParameters.create(stale)
        p.set_unpack_parameter("x")
        if rys is not None:
            p.set_unpack_parameter("y")
        # every public reader once (whatever they may remember must not survive the writes below)
        p.get_num_unpacked_variations()
        p.get_pack_indexes({"x": stale["x"][0]})
        p.get_unpacked_params_list()
        _ = (p.unpacked_parameters, p.fixed_parameters, len(p), p.to_dict())
        for name in ("x", "y"):
            if name not in pd:
                continue
            if via == "setitem":
                p[name] = pd[name]
            elif via == "add":
                p.add(name, pd[name])
            else:
                p.remove(name)
                p.add(name, pd[name])
                p.set_unpack_parameter(name)
    else:
        p = SimulationParameters.create(pd)
        p.set_unpack_parameter("x")
        if rys is not None:
            p.set_unpack_parameter("y")
    s = SimulationResults()
    s.set_parameters(p)
    # documented order: unpacked names sorted, cartesian product, last name fastest
    nvar = len(rxs) * (len(rys) if rys is not None else 1)
    emp = empty_positions(empty, which, nvar)
    pos = -1
    for rx in rxs:
        for ry in (rys if rys is not None else [None]):
            pos += 1
            s.append_result(fed(t, acc, [] if pos in emp else hist(t, which, hv, rx, ry, k), "r", k))
            tag = R("tag", R.SUMTYPE)
            tag.update(tag_of(rx, ry))
            s.append_result(tag)
    return s, rxs, rys


def scalar_variants(v):
    """the same value as the Python scalar and as the numpy scalar"""
    return [v, np.asarray(v)[()]]


def check_lookups(c, case, obj, label, universe, rxs, rys, tags):
    """get_pack_indexes / get_result_values_list by fixed VALUE against a
    brute-force filter over the documented enumeration order.  Every value of
    the universe is asked for: present ones must give exactly the indexes whose
    combination holds an EQUAL value, absent ones must raise ValueError (what
    combine_simulation_results relies on)."""
    U = UNIVERSES[universe]
    combos = [(rx, ry) for rx in rxs for ry in (rys if rys is not None else [None])]
    queries = [{"x": r} for r in range(len(U["X"]))]
    if rys is not None:
        queries += [{"y": r} for r in range(len(U["Y"]))]
        queries += [{"x": a, "y": b} for a in range(len(U["X"])) for b in range(len(U["Y"]))]
    for q in queries:
        want = [i for i, (rx, ry) in enumerate(combos)
                if ("x" not in q or rx == q["x"]) and ("y" not in q or ry == q["y"])]
        for variant in (0, 1):
            fixed = {}
            if "x" in q:
                fixed["x"] = scalar_variants(U["X"][q["x"]])[variant]
            if "y" in q:
                fixed["y"] = scalar_variants(U["Y"][q["y"]])[variant]
            qcase = dict(case, lookup_on=label, query=q, query_as=("python", "numpy")[variant])
            c.count("eval_value_lookups")
            present = ("x" not in q or q["x"] in rxs) and ("y" not in q or q["y"] in (rys or []))
            try:
                got = obj.params.get_pack_indexes(dict(fixed))
            except ValueError:
                if present:
                    c.fail(("get_pack_indexes", "present_value_not_found"), qcase,
                           observed="ValueError", expected=want)
                c.outcome("lookup_outcomes", "absent_raises")
                continue
            got = [int(i) for i in np.asarray(got).ravel().tolist()]
            if not present:
                c.fail(("get_pack_indexes", "absent_value_found"), qcase, observed=got,
                       expected="ValueError (no combination holds this value)")
                continue
            if got != want:
                c.fail(("get_pack_indexes", "wrong_indexes_for_fixed_values"), qcase, observed=got, expected=want)
                continue
            vals = obj.get_result_values_list("tag", fixed_params=dict(fixed))
            wantv = [tags[i] for i in want]
            if len(vals) != len(wantv) or not all(same_answer(a, b) for a, b in zip(vals, wantv)):
                c.fail(("get_result_values_list", "wrong_results_for_fixed_values"), qcase,
                       observed=vals, expected=[tags[i] for i in want])
            c.outcome("lookup_outcomes", ("found", len(want)))


def values_equal_lists(got, want):
    got = list(np.asarray(got).tolist()) if not isinstance(got, list) else list(got)
    if len(got) != len(want):
        return False
    for g, w in zip(got, want):
        if isinstance(w, str) or isinstance(g, str):
            if not (isinstance(w, str) and isinstance(g, str) and str(g) == w):
                return False
        elif not (g == w):
            return False
    return True


def run_union_case(c, case):
    from pyphysim.simulations.results import combine_simulation_results
    t, acc, hv = case["type"], case["acc"], case["hv"]
    universe = case.get("universe", "int")
    U = UNIVERSES[universe]
    x1, x2, y1, y2 = case["x1"], case["x2"], case["y1"], case["y2"]     # value RANKS
    empty = case.get("empty")           # which variations hold results that were never updated
    k = case.get("choice_num")
    with guard(c, ("combine_simulation_results", t), case):
        via, via_ops = case.get("via"), case.get("via_operands") or []
        s1, ox1, oy1 = build_operand(t, acc, 0, hv, universe, x1, y1, case["order"], empty, k,
                                     via if 0 in via_ops else None)
        s2, ox2, oy2 = build_operand(t, acc, 1, hv, universe, x2, y2, case["order"], empty, k,
                                     via if 1 in via_ops else None)
        if via:
            c.outcome("union_edited_parameters", (via, tuple(via_ops)))
        if isinstance(case["order"], (list, tuple)):
            same = sorted(x1) == sorted(x2) and (y1 is None or sorted(y1) == sorted(y2))
            c.outcome("union_presentation_orders", (tuple(case["order"]), "identical_grids" if same else "other"))
        ord1 = [(rx, ry) for rx in ox1 for ry in (oy1 if oy1 is not None else [None])]
        ord2 = [(rx, ry) for rx in ox2 for ry in (oy2 if oy2 is not None else [None])]
        emp1 = empty_positions(empty, 0, len(ord1))
        emp2 = empty_positions(empty, 1, len(ord2))
        snap1, snap2 = public_state(s1), public_state(s2)
        u = combine_simulation_results(s1, s2)
        c.count("eval_union_cases")
        c.transitions += 1
        c.traces_validated += 1
        c.nontriv(("u", universe, t, acc, hv, repr((x1, x2, y1, y2)), repr(case["order"]), str(empty), k,
                   case.get("via"), repr(case.get("via_operands"))))
        c.outcome("union_universes", universe)
        if public_state(s1) != snap1 or public_state(s2) != snap2:
            c.fail(("combine_simulation_results", "operand_mutated"), case,
                   observed="operand changed", expected="operands unchanged")
        # the universes are listed in increasing order, so rank order = value order
        urx = sorted(set(x1) | set(x2))
        ury = None if y1 is None else sorted(set(y1) | set(y2))
        ux = [U["X"][r] for r in urx]
        uy = None if ury is None else [U["Y"][r] for r in ury]
        if universe == "str":
            ux = sorted(ux)
            urx = [U["X"].index(v) for v in ux]
            if uy is not None:
                uy = sorted(uy)
                ury = [U["Y"].index(v) for v in uy]
        P = u.params
        px = P.parameters.get("x")
        if px is None or not values_equal_lists(px, ux):
            c.fail(("combine_simulation_parameters", "unpacked_values"), case, observed=px, expected=ux)
            return
        if uy is not None and not values_equal_lists(P.parameters.get("y"), uy):
            c.fail(("combine_simulation_parameters", "unpacked_values"), case,
                   observed=P.parameters.get("y"), expected=uy)
            return
        if P.parameters.get("f") != 7 or set(P.parameters) != ({"f", "x"} | ({"y"} if uy else set())):
            c.fail(("combine_simulation_parameters", "fixed_parameters"), case,
                   observed=sorted(P.parameters), expected="f,x[,y]")
        if P.unpacked_parameters != (["x", "y"] if uy is not None else ["x"]):
            c.fail(("combine_simulation_parameters", "unpack_marks"), case,
                   observed=P.unpacked_parameters, expected="x[,y]")
        combos = [(rx, ry) for rx in urx for ry in (ury if ury is not None else [None])]
        if set(u.get_result_names()) != {"r", "tag"}:
            c.fail(("combine_simulation_results", "result_names"), case,
                   observed=u.get_result_names(), expected=["r", "tag"])
            return
        if len(u["r"]) != len(combos) or len(u["tag"]) != len(combos):
            c.fail(("combine_simulation_results", "number_of_results"), case,
                   observed=(len(u["r"]), len(u["tag"])), expected=len(combos))
            return
        outcome = []
        utags = []
        for i, (rx, ry) in enumerate(combos):
            x = U["X"][rx]
            y = None if ry is None else U["Y"][ry]
            in1 = rx in x1 and (ry is None or ry in y1)
            in2 = rx in x2 and (ry is None or ry in y2)
            obs = []
            if in1 and ord1.index((rx, ry)) not in emp1:
                obs += hist(t, 0, hv, rx, ry, k)
            if in2 and ord2.index((rx, ry)) not in emp2:
                obs += hist(t, 1, hv, rx, ry, k)
            ref = Ref(t, obs, k)
            outcome.append(int(in1) + 2 * int(in2))
            # the union is built from non-accumulating results: lists are not part of the law
            for field, o, e in compare(u["r"][i], ref, False, lists=False,
                                       misc_counts=False, c=c):
                c.fail(("combine_simulation_results", t, field), dict(case, combo=[x, y]),
                       observed=o, expected=e,
                       msg="combination x=%r y=%r present in operand1=%s operand2=%s" % (x, y, in1, in2))
            # differential: ONE object fed the same observations (value / total / num_updates / sums / ==)
            one = fed(t, False, obs, "r", k)
            for field, o, e in dedup(compare_objects(u["r"][i], one, t, dyadic(t, obs), c)):
                c.fail(("combine_simulation_results", t, field), dict(case, combo=[x, y]),
                       observed=o, expected=e,
                       msg="against one object fed %r (combination x=%r y=%r)" % (obs, x, y))
            if empty:
                c.outcome("union_empty_history_outcomes", (t, k, str(empty), len(obs) == 0))
            tagv = tag_of(rx, ry) * (int(in1) + int(in2))
            # a combination present in neither operand holds a never-updated result
            utags.append(tagv if (in1 or in2) else nothing_yet("SUM"))
            tagres = u["tag"][i]
            got = tagres.get_result() if (in1 or in2) else as_int(tagres.num_updates)
            if not feq(got, tagv):
                c.fail(("combine_simulation_results", "alignment_with_unpack_order"),
                       dict(case, combo=[x, y]), observed=got, expected=tagv,
                       msg="result list is not aligned with the union's unpacked parameter order "
                           "(or a combination received the results of another value)")
            c.outcome("final_stats", ref.key())
        c.outcome("union_presence_patterns", tuple(outcome))
        # look-ups by fixed value on the combined object and on both operands.
        # They do not depend on the result type / accumulation (quick tier: SUM
        # and MISC without accumulation); an operand's own look-ups do not
        # depend on the other operand: done while the other one is the first subset
        if case.get("lookups", True):
            first = lambda xr, yr: xr == [0] and yr in (None, [0])      # noqa: E731
            with guard(c, ("lookup_by_fixed_value",), case):
                check_lookups(c, case, u, "union", universe, urx, ury, utags)
                if first(x2, y2):
                    check_lookups(c, case, s1, "operand1", universe, ox1, oy1,
                                  [tag_of(rx, ry) for rx in ox1 for ry in (oy1 if oy1 is not None else [None])])
                if first(x1, y1):
                    check_lookups(c, case, s2, "operand2", universe, ox2, oy2,
                                  [tag_of(rx, ry) for rx in ox2 for ry in (oy2 if oy2 is not None else [None])])


def union_cases(types_ok, tier):
    xs = nonempty_subsets((0, 1, 2))
    ys = nonempty_subsets((0, 1))
    if "CHOICE" not in types_ok:
        # CHOICE results cannot be updated on this tree, but they can still be
        # constructed, stored and combined: never-updated operands
        for x1 in xs:
            for x2 in xs:
                yield {"level": "union", "universe": "int", "type": "CHOICE", "acc": False, "hv": 0,
                       "order": "asc", "x1": x1, "x2": x2, "y1": None, "y2": None, "empty": True}
    # EMPTY histories (a variation whose result was never updated) at every position of either operand,
    # every result type, CHOICE with 2 / 3 / 5 choices (never 11 = len("Nothing yet"))
    if "CHOICE" in types_ok:
        specs = [None] + [[op, pos] for op in (0, 1) for pos in ("first", "middle", "last")] \
            + [[0, "all"], [1, "all"], ["both", "all"]]
        configs = [(t, None) for t in types_ok if t != "CHOICE"] + [("CHOICE", kk) for kk in (2, 3, 5)]
        yconf = [(None, None), ([0, 1], [0, 1])] + ([([0], [0, 1]), ([0, 1], [1])] if tier == "thorough" else [])
        for t, kk in configs:
            for spec in specs:
                for x1 in xs:
                    for x2 in xs:
                        for y1, y2 in yconf:
                            if spec and spec[1] == "middle" and \
                                    len(x1 if spec[0] == 0 else x2) * (2 if y1 else 1) < 3:
                                continue        # no middle variation
                            yield {"level": "union", "universe": "int", "type": t, "acc": False, "hv": 0,
                                   "order": "asc", "x1": x1, "x2": x2, "y1": y1, "y2": y2, "empty": spec,
                                   "choice_num": kk, "lookups": False}
    # presentation ORDER of the values: each operand lists the values of every unpacked parameter ascending,
    # descending or shuffled - including operand pairs with IDENTICAL grids in the same non-ascending order.
    # Numeric and string valued, array and list presentation (see `represent`).
    ord_pairs = [(a, b) for a in ("asc", "desc", "shuf") for b in ("asc", "desc", "shuf") if (a, b) != ("asc", "asc")]
    yconf = [(None, None), ([0, 1], [0, 1])] + ([([0], [0, 1]), ([0, 1], [1]), ([1], [1])] if tier == "thorough" else [])
    for universe in ("int", "str", "tiny_float", "numpy_vs_python"):
        for t in ([x for x in ("SUM", "MISC") if x in types_ok] if tier != "thorough" else list(types_ok)):
            for o in ord_pairs:
                for x1 in xs:
                    for x2 in xs:
                        for y1, y2 in yconf:
                            if t == "MISC" and y1 is not None and tier != "thorough":
                                continue
                            yield {"level": "union", "universe": universe, "type": t, "acc": False, "hv": 0,
                                   "order": list(o), "x1": x1, "x2": x2, "y1": y1, "y2": y2,
                                   "lookups": sorted(x1) == sorted(x2)}
    # operands whose parameters object was EDITED through a public writer after having been read
    for via in ("setitem", "add", "remove_add"):
        for ops in ([0], [1], [0, 1]):
            for x1 in xs:
                for x2 in xs:
                    for y1, y2 in ((None, None), ([0, 1], [0, 1]), ([0], [0, 1])):
                        yield {"level": "union", "universe": "int", "type": "SUM", "acc": False, "hv": 0,
                               "order": "asc", "x1": x1, "x2": x2, "y1": y1, "y2": y2, "via": via,
                               "via_operands": ops, "lookups": ops == [0, 1]}
    orders = ("asc", "desc")
    for universe in UNIVERSES:
        one_param_only = ()
        if universe == "int":
            types, accs = list(types_ok), (False, True)
            hvs = (0, 1, 2) if tier == "thorough" else (0,)
        elif tier == "thorough":
            types, accs, hvs = list(types_ok), (False,), (0, 1)
        else:
            # the value look-up does not depend on the result type: two types suffice in the quick tier
            types, accs, hvs = [t for t in ("SUM", "MISC") if t in types_ok], (False,), (0,)
            one_param_only = ("MISC",)      # MISC (last wins = operand order) with one unpacked parameter only
        for t in types:
            for acc in accs:
                for hv in hvs:
                    for order in orders:
                        for x1 in xs:
                            for x2 in xs:
                                if order == "desc" and len(x2) < 2:
                                    continue
                                base = {"level": "union", "universe": universe, "type": t, "acc": acc,
                                        "hv": hv, "order": order, "x1": x1, "x2": x2,
                                        "lookups": not acc and (tier == "thorough" or t in ("SUM", "MISC"))}
                                yield dict(base, y1=None, y2=None)
                                if t in one_param_only:
                                    continue
                                for y1 in ys:
                                    for y2 in ys:
                                        yield dict(base, y1=y1, y2=y2)


# ----------------------------------------------------------------------
def probe_choice(chk):
    """Does a CHOICETYPE result accept an update at all?  (numpy >= 1.24 removed
    np.int, which Result.update names in an isinstance tuple.)"""
    R = _R()
    case = {"level": "probe", "what": "Result('c', Result.CHOICETYPE, choice_num=3).update(0)"}
    ok = []
    with guard(chk, ("Result.update", "CHOICETYPE"), case):
        r = R("c", R.CHOICETYPE, choice_num=CHOICE_NUM)
        r.update(0)
        ok.append(1)
    return bool(ok)


def bounds(tier):
    if tier == "thorough":
        return dict(L=5, L_empty=4, L_set=4, L_skip=3)
    return dict(L=4, L_empty=3, L_set=3, L_skip=2)


def work_items(types_ok, tier):
    b = bounds(tier)
    al = alphabets()
    # heavy items first within each family does not matter: round-robin sharding
    for t in types_ok:
        for seq in sequences(al[t], b["L"]):
            yield ("result", t, seq)
    for it in set_cases(types_ok, b["L_set"], tier):
        yield it
    for case in union_cases(types_ok, tier):
        yield ("union", case)


def do_item(c, item, tier):
    b = bounds(tier)
    kind = item[0]
    if kind == "result":
        _, t, seq = item
        n = len(seq)
        for acc in (False, True):
            for term in terms(0, n, 0):
                run_result_case(c, t, acc, seq, term)
            if n <= b["L_empty"]:
                for term in terms(0, n, 1):
                    run_result_case(c, t, acc, seq, term)
    elif kind == "set":
        for case in expand_set_case(item, b["L_skip"]):
            run_set_case(c, case)
        for case in expand_fold_case(item):
            run_fold_case(c, case)
    else:
        run_union_case(c, item[1])


def main(chk: Check):
    b = bounds(chk.tier)
    chk.extra["bounds"] = b
    chk.extra["float_rel_tol"] = REL_TOL
    chk.assume("CHOICETYPE results carry no per-update scalar: the library keeps result_sum = 0, so their "
               "mean and variance are 0 by convention; they are compared with that and with the one-object run")
    chk.assume("MISCTYPE: only 'the last observation wins' (get_result, accumulated lists) is required; "
               "num_updates of a merged MISC result is not part of the statement")
    chk.assume("set level: every operand holds exactly one Result per name (merge_all_results' documented domain); "
               "an EMPTY set only ever appears as the accumulator (left-most), never as a merged-in operand")
    chk.assume("mixed merge/append folds: append_all_results is documented to store the operand's Result objects "
               "themselves, so only MERGED-in operands are required to stay unchanged there")
    chk.assume("union level: accumulated value lists are not compared (the union is documented to hold new, "
               "non-accumulating Result objects)")
    choice_ok = probe_choice(chk)
    types_ok = [t for t in TYPES if t != "CHOICE" or choice_ok]
    if not choice_ok:
        chk.cap("CHOICETYPE branch not explored at any level: every Result.update of a CHOICETYPE result raises "
                "(reported under its own signature Result.update|CHOICETYPE|exception|...)")
    chk.extra["choice_branch_explored"] = choice_ok
    tier = chk.tier

    def worker(i, n, c):
        for item in shard(work_items(types_ok, tier), i, n):
            do_item(c, item, tier)

    run_shards(chk, worker)
    chk.states = len(chk.outcomes.get("result_states", ())) + len(chk.outcomes.get("set_states", ()))
    chk.extra["oracle_input_unavailable"] = chk.counters.get("oracle_input_unavailable", 0)
    if chk.counters.get("value_total_relations_checked", 0) == 0:
        raise Broken("vacuous: value / total of a Result could not be observed in any case "
                     "(neither through to_dict() nor through a known attribute)")
    al = alphabets()
    chk.sample({"level": "result", "type": "RATIO", "acc": False, "obs": [al["RATIO"][0], al["RATIO"][2], al["RATIO"][1]],
                "term_str": "(N.u0<-(N.u1<-N.u2))"})
    chk.sample({"level": "set", "types": ["SUM", "MISC"], "acc": False,
                "obs": [{"a": [1], "b": ["a"]}, {"a": [2.5], "b": [7]}], "chunks": [[0, 1], [1, 2]],
                "tree": [[0, 1], 2], "op": "merge", "empty_acc": True})
    chk.sample({"level": "union", "universe": "tiny_float", "type": "SUM", "x1": [0, 1, 2], "x2": [1, 2],
                "y1": [0], "y2": [0, 1], "values": UNIVERSES["tiny_float"]})
    chk.extra["union_value_universes"] = {k: [list(map(repr, v["X"])), list(map(repr, v["Y"]))]
                                          for k, v in UNIVERSES.items()}
    chk.require_outcomes("term_shapes", 20)
    chk.require_outcomes("final_stats", 50)
    chk.require_outcomes("union_presence_patterns", 20)
    chk.require_outcomes("union_universes", len(UNIVERSES))
    chk.require_outcomes("union_edited_parameters", 9)
    chk.require_outcomes("union_presentation_orders", 16)
    if choice_ok:
        chk.require_outcomes("union_empty_history_outcomes", 40)
    chk.require_outcomes("lookup_outcomes", 4)
    chk.require_outcomes("set_states", 50)
    chk.require_outcomes("fold_list_lengths", 4)


def replay(case, chk: Check):
    lvl = case.get("level")
    if lvl == "probe":
        probe_choice(chk)
    elif lvl == "result":
        run_result_case(chk, case["type"], case["acc"], case["obs"], term_from_json(case["term"]))
    elif lvl == "set":
        run_set_case(chk, case)
    elif lvl == "fold":
        run_fold_case(chk, case)
    elif lvl == "union":
        case = dict(case)
        for k in ("combo", "lookup_on", "query", "query_as"):
            case.pop(k, None)
        run_union_case(chk, case)
