#!/bin/bash
# re-validates every filed seed against the current /repo HEAD and the current checks (2 at a time)
cd "$(dirname "$0")/.."
one(){ d=$1; n=$(basename $d); pid=${n%%-*}; base=HEAD; [ -f $d/PINNED_BASE ] && base=$(cat $d/PINNED_BASE); out=$(python3 tools/validate_seed.py $d $pid $n --no-baseline --base $base 2>&1); echo "$n $(echo "$out" | grep -E '^ "confirmed"|^ "detected"' | tr -d '\n') $(echo "$out" | grep -o 'PATCH DOES NOT APPLY' | head -1)"; }
export -f one
ls -d seeded/*/ | xargs -P ${PAR:-2} -I{} bash -c 'one {}'
