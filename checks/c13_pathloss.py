"""C13 - path-loss and antenna-gain models are monotone, invertible and unit-consistent.

E3: explicit-state BFS over histories of parameter-setter calls on real path-loss
objects, one BFS per model family.  A state is the history ("new", ctor args)
followed by setter events (attribute, value); build(hist) constructs a fresh
object and replays.  Events carry valid values (reference model is updated) and
out-of-range values: free as calls (tools/INVALID_CALL_POLICY.md, outcome only); afterwards the
reference model is re-read from the parameters the object REPORTS and everything is judged for
those (closed form, fresh object built with them) under signatures after_invalid_call|...

Reference model: the dictionary of parameters.  In every state the complete
observation vector of the object (scalar and array forms of calc_path_loss_dB,
calc_path_loss, which_distance_dB, which_distance on a 61-point log grid over 6
decades + boundary-seeking distances around the zero-loss distance) is compared
with closed forms written here and with the observation vector of a freshly
constructed object holding the final parameters.

Antenna models (no setters): single-state machines, 721 angles.
"""
import math
import os
import traceback
import warnings
from contextlib import contextmanager

import numpy as np

from vmc import bfs, common
from vmc.parallel import run_shards
from vmc.report import Broken, Check

@contextmanager
def own_errors_are_broken():
    """an exception whose innermost relevant frame is the check's own code (checks/ or vmc/) says nothing
    about the property: the check is broken (exit 2), never a violation; exceptions raised inside pyphysim
    for VALID calls are left to chk.guard"""
    try:
        yield
    except (Broken, KeyboardInterrupt, SystemExit):
        raise
    except BaseException as e:  # noqa
        own = (os.path.join(common.VERIF_DIR, "checks") + os.sep, os.path.join(common.VERIF_DIR, "vmc") + os.sep)
        for fr in reversed(traceback.extract_tb(e.__traceback__)):
            f = os.path.abspath(fr.filename)
            if "/pyphysim/" in f:
                raise
            if f.startswith(own):
                raise Broken("exception in the check's own code (%s:%d in %s): %s: %s"
                             % (os.path.basename(f), fr.lineno, fr.name, type(e).__name__, e))
        raise


@contextmanager
def guarded(chk, sig, case):
    with chk.guard(sig, case):
        with own_errors_are_broken():
            yield


PID = "C13"
LEVEL = "model_checking"
ENGINE = "E3 BFS over parameter-setter histories of real path-loss objects (+ antenna single states)"
RULE = ("per model family (general, free-space, 3GPP1, METIS PS7 x num_walls 0..3 and array, Okumura-Hata) "
        "every history of setter events (valid and out-of-range values of n, fc, hbs, hms, area_type, "
        "handle_small_distances_bool) up to the depth bound is replayed on a fresh real object; in every "
        "state: closed form, monotonicity, linear==10^(-dB/10) in (0,1], inverse round trips where offered, "
        "raise/clamp policy for too-small distances (scalar, array: only offending entries), scalar==array, "
        "and the whole observation vector equals that of a freshly constructed object with the final "
        "parameters. Non-trivial = a state reached through >= 1 parameter-changing setter call; distinct = "
        "distinct (family, parameters, object digest). Antenna: 2 sector patterns + omni gains x 721 angles")

TOL_DB = 1e-9            # absolute, dB: closed forms / scalar-vs-array / round trips
TOL_REL = 1e-9           # relative: distances from the inverse, linear values
FRIIS_DB_PER_N = 0.005   # free space vs exact-c Friis: 0.005*n dB  (n = 2 -> 0.01 dB, the property's bound)
ZERO_MARGIN_DB = 0.02    # |closed-form loss| below this: neither "admissible" nor "too small" (excluded, counted)
C_LIGHT = 299792458.0
PL_QUERIES = (1.0, 10.0, 60.0, 100.0, 150.0, 250.0)
AREAS = ("open", "suburban", "medium city", "large city")


# ----------------------------------------------------------------------
# closed forms (reference model -> loss in dB as slope*log10(d) + offset)
# ----------------------------------------------------------------------
def line_general(m, q):
    return 10.0 * m["n"], float(m["C"])


def line_free_space(m, q):
    # Friis generalised to exponent n: 10 n log10(4 pi d f / c), d in km, f in MHz
    n = m["n"]
    return 10.0 * n, 10.0 * n * math.log10(4.0 * math.pi * 1e3 * m["fc"] * 1e6 / C_LIGHT)


def line_3gpp1(m, q):
    return 37.6, 128.1


def line_metis(m, q):
    nw = q["num_walls"]
    f = 20.0 * math.log10(m["fc"] / 1e3 / 5.0)
    if nw == 0:
        return 18.7, 46.8 + f
    return 36.8, 43.8 + f + 5.0 * (nw - 1)


def line_okumura(m, q):
    fc, hbs, hms, area = m["fc"], m["hbs"], m["hms"], m["area_type"]
    lf = math.log10(fc)
    if area == "large city":
        if fc > 300:
            a = 3.2 * math.log10(11.75 * hms) ** 2 - 4.97
        else:
            a = 8.29 * math.log10(1.54 * hms) ** 2 - 1.1
    else:
        a = (1.1 * lf - 0.7) * hms - (1.56 * lf - 0.8)
    if area == "open":
        K = 4.78 * lf ** 2 - 18.33 * lf + 40.94
    elif area == "suburban":
        K = 2.0 * math.log10(fc / 28.0) ** 2 + 5.4
    else:
        K = 0.0
    return 44.9 - 6.55 * math.log10(hbs), 69.55 + 26.16 * lf - 13.82 * math.log10(hbs) - a - K


# ----------------------------------------------------------------------
# families
# ----------------------------------------------------------------------
def _ctor(name):
    from pyphysim.channels import pathloss
    return getattr(pathloss, name)


def new_general(a):
    return _ctor("PathLossGeneral")(a["n"], a["C"])


def new_free_space(a):
    cls = _ctor("PathLossFreeSpace")
    if a.get("default"):
        return cls()
    return cls(n=a["n"], fc=a["fc"])


def new_3gpp1(a):
    return _ctor("PathLoss3GPP1")()


def new_metis(a):
    cls = _ctor("PathLossMetisPS7")
    if a.get("default"):
        return cls()
    return cls(fc=a["fc"])


def new_okumura(a):
    return _ctor("PathLossOkomuraHata")()


def fresh_okumura(m):
    o = _ctor("PathLossOkomuraHata")()
    o.area_type = m["area_type"]
    o.hms = m["hms"]
    o.hbs = m["hbs"]
    o.fc = m["fc"]
    return o


FAMILIES = {
    "general": dict(new=new_general, line=line_general, lo=-3, unit="km",
                    fresh=lambda m: new_general(m), defaults={}, queries=[{}], inverse=True,
                    cf_tol=lambda m: TOL_DB),
    "free_space": dict(new=new_free_space, line=line_free_space, lo=-3, unit="km",
                       fresh=lambda m: new_free_space(m), defaults={"n": 2.0, "fc": 900.0},
                       queries=[{}], inverse=True,
                       cf_tol=lambda m: FRIIS_DB_PER_N * m["n"] + TOL_DB),
    "3gpp1": dict(new=new_3gpp1, line=line_3gpp1, lo=-3, unit="km", fresh=lambda m: new_3gpp1(m),
                  defaults={}, queries=[{}], inverse=True, cf_tol=lambda m: TOL_DB),
    "metis_ps7": dict(new=new_metis, line=line_metis, lo=-2, unit="m", fresh=lambda m: new_metis(m),
                      defaults={"fc": 900.0}, queries=[{"num_walls": w} for w in (0, 1, 2, 3)],
                      inverse=False, cf_tol=lambda m: TOL_DB),
    "okumura_hata": dict(new=new_okumura, line=line_okumura, lo=-3, unit="km", fresh=fresh_okumura,
                         defaults={"fc": 900.0, "hbs": 30.0, "hms": 1.0, "area_type": "suburban"},
                         queries=[{}], inverse=False, cf_tol=lambda m: TOL_DB),
}

# valid ranges of the validated setters (reference model of the validation)
VALID = {
    ("okumura_hata", "fc"): lambda v: 150 <= v <= 1500,
    ("okumura_hata", "hbs"): lambda v: 30 <= v <= 200,
    ("okumura_hata", "hms"): lambda v: 1 <= v <= 10,
    ("okumura_hata", "area_type"): lambda v: v in AREAS,
}


def alphabet(fam, thorough):
    """(initial histories, events) - simplest first"""
    hsd = [("handle_small_distances_bool", True), ("handle_small_distances_bool", False)]
    if fam == "general":
        ns = (2, 3.5, 3.76) + ((4.0,) if thorough else ())
        cs = (20.0, 0.0, 91.5, 128.1) + ((55.25,) if thorough else ())
        return [(("new", (("n", n), ("C", c))),) for n in ns for c in cs], hsd
    if fam == "3gpp1":
        return [(("new", ()),)], hsd
    if fam == "free_space":
        ns = (2, 3.5) + ((2.0, 2.5, 4.0) if thorough else ())
        fcs = (150.0, 900, 2400.0) + ((5000.0, 60000.0) if thorough else ())
        inits = [(("new", (("default", True),)),), (("new", (("n", 3.5), ("fc", 2400.0))),),
                 (("new", (("n", 2), ("fc", 150.0))),)]
        return inits, [("n", v) for v in ns] + [("fc", v) for v in fcs] + hsd
    if fam == "metis_ps7":
        fcs = (900.0, 5000) + ((2400.0, 60000.0) if thorough else ())
        inits = [(("new", (("default", True),)),), (("new", (("fc", 5000.0),)),)]
        return inits, [("fc", v) for v in fcs] + hsd
    if fam == "okumura_hata":
        fcs = (150.0, 300.0, 900, 1500.0) + ((300.5, 1000.0) if thorough else ())
        hbs = (30.0, 200) + ((100.0,) if thorough else ())
        hms = (1, 10.0) + ((1.5,) if thorough else ())
        ev = [("fc", v) for v in fcs] + [("fc", 149.9), ("fc", 1500.1)]
        ev += [("hbs", v) for v in hbs] + [("hbs", 29.9), ("hbs", 200.1)]
        ev += [("hms", v) for v in hms] + [("hms", 0.9), ("hms", 10.1)]
        ev += [("area_type", v) for v in AREAS] + [("area_type", "rural")]
        return [(("new", ()),)], ev + hsd
    raise KeyError(fam)


# ----------------------------------------------------------------------
# state
# ----------------------------------------------------------------------
class PLState:
    def __init__(self):
        self.obj = None
        self.model = None
        self.hsd = False
        self.problem = None      # (sig tuple, observed, expected) found while replaying the history
        self.changed = False     # a parameter-changing valid setter call happened
        self.note = None         # outcome of the last event if it was an invalid call
        self.after_invalid = None   # first invalid call of the history
        self.out_of_domain = False  # the object REPORTS a parameter outside the valid range: nothing to judge


def build(fam, hist):
    F = FAMILIES[fam]
    st = PLState()
    args = dict((k, v) for k, v in hist[0][1])
    try:
        st.obj = F["new"](args)
    except Exception as e:  # noqa
        st.problem = ((fam, "constructor", "raises", type(e).__name__), repr(e), "an object")
        return st
    m = dict(F["defaults"])
    m.update((k, v) for k, v in args.items() if k != "default")
    st.model = m
    for attr, value in hist[1:]:
        if attr == "handle_small_distances_bool":
            valid = True
        else:
            valid = VALID.get((fam, attr), lambda v: True)(value)
        before = bfs.digest(bfs.state_of(st.obj), 13) if not valid else None
        st.note = None
        try:
            setattr(st.obj, attr, value)
            raised = None
        except Exception as e:  # noqa
            raised = e
        if valid:
            if raised is not None:
                st.problem = ((fam, "valid_setter_raises", attr, type(raised).__name__),
                              "%s=%r: %r" % (attr, value, raised), "accepted")
                return st
            if attr == "handle_small_distances_bool":
                st.hsd = value
            else:
                m[attr] = value
                st.changed = True
        else:
            # tools/INVALID_CALL_POLICY.md: the property speaks about parameter values "in their valid ranges";
            # an out-of-range setter call is free as a call (raise / accept / change the object): outcome only.
            what = "%s.%s=%r" % (fam, attr, value)
            st.note = (what, "accepted" if raised is None else "raised:" + type(raised).__name__,
                       "object_changed" if bfs.digest(bfs.state_of(st.obj), 13) != before else "object_unchanged")
            if st.after_invalid is None:
                st.after_invalid = "%s.%s" % (fam, attr)
            # Afterwards the parameters the object REPORTS are the model: its loss formula must use them.
            for k in list(m):
                if hasattr(type(st.obj), k):
                    try:
                        m[k] = getattr(st.obj, k)
                    except Exception:  # noqa
                        pass
            # a reported numeric value outside the range still has a closed form; an unknown area type has none
            st.out_of_domain = any(not isinstance(v, (int, float)) and not VALID.get((fam, k), lambda v: True)(v)
                                   for k, v in m.items())
    return st


def model_key(st):
    if st.model is None:
        return None
    return tuple(sorted((k, repr(v)) for k, v in st.model.items())) + (("hsd", st.hsd),)


# ----------------------------------------------------------------------
# observation vector of one object (no oracle here, only calls)
# ----------------------------------------------------------------------
def _call(f, *a, **k):
    try:
        v = f(*a, **k)
    except Exception as e:  # noqa
        return ("raise", type(e).__name__)
    if v is None:
        return ("none",)
    if isinstance(v, np.ndarray) and v.ndim > 0:
        return ("a", np.array(v, dtype=float, copy=True))
    if isinstance(v, (list, tuple)):
        return ("a", np.array(v, dtype=float))
    return ("v", float(v))


def observe(obj, grid, adm, q, inverse_probe):
    """grid: sorted float array; adm: boolean mask of admissible entries (by the closed form)"""
    o = {}
    o["dB_scalar"] = [_call(obj.calc_path_loss_dB, float(d), **q) for d in grid]
    o["lin_scalar"] = [_call(obj.calc_path_loss, float(d), **q) for d in grid]
    g = grid.copy()
    o["dB_array_full"] = _call(obj.calc_path_loss_dB, g, **q)
    o["lin_array_full"] = _call(obj.calc_path_loss, g, **q)
    o["input_untouched"] = bool(np.array_equal(g, grid))
    ga = grid[adm].copy()
    o["dB_array_adm"] = _call(obj.calc_path_loss_dB, ga, **q)
    o["lin_array_adm"] = _call(obj.calc_path_loss, ga.copy(), **q)
    o["dB_2d"] = _call(obj.calc_path_loss_dB, ga[:6].reshape(2, 3).copy(), **q)
    if inverse_probe:
        o["inv_probe"] = _call(obj.which_distance_dB, 100.0)
        if o["inv_probe"][0] == "v":
            o["inv_dB_scalar"] = [_call(obj.which_distance_dB, p) for p in PL_QUERIES]
            o["inv_dB_array"] = _call(obj.which_distance_dB, np.array(PL_QUERIES))
            o["inv_lin_scalar"] = [_call(obj.which_distance, 10.0 ** (-p / 10.0)) for p in PL_QUERIES]
            o["inv_lin_array"] = _call(obj.which_distance, 10.0 ** (-np.array(PL_QUERIES) / 10.0))
            # round trips d -> loss -> d on the admissible grid, through the object's own outputs
            rt, rtl = [], []
            for d in ga:
                r = _call(obj.calc_path_loss_dB, float(d), **q)
                rt.append(_call(obj.which_distance_dB, r[1]) if r[0] == "v" else r)
                r = _call(obj.calc_path_loss, float(d), **q)
                rtl.append(_call(obj.which_distance, r[1]) if r[0] == "v" else r)
            o["roundtrip_dB"] = rt
            o["roundtrip_lin"] = rtl
            r = _call(obj.calc_path_loss_dB, ga.copy(), **q)
            o["roundtrip_dB_array"] = _call(obj.which_distance_dB, r[1]) if r[0] == "a" else r
    return o


def same_obs(a, b, tol=1e-12):
    """first key on which two observation vectors differ, or None"""
    for k in a:
        if k not in b:
            return k
        if not _same(a[k], b[k], tol):
            return k
    return None


def _same(x, y, tol):
    if isinstance(x, list):
        return isinstance(y, list) and len(x) == len(y) and all(_same(p, r, tol) for p, r in zip(x, y))
    if isinstance(x, tuple):
        if not isinstance(y, tuple) or len(x) != len(y) or x[0] != y[0]:
            return False
        if x[0] == "v":
            return _close(x[1], y[1], tol)
        if x[0] == "a":
            return x[1].shape == y[1].shape and bool(np.all(_close(x[1], y[1], tol)))
        return x == y
    return x == y


def _close(a, b, tol):
    a = np.asarray(a, dtype=float)
    b = np.asarray(b, dtype=float)
    return (np.abs(a - b) <= tol * np.maximum(1.0, np.maximum(np.abs(a), np.abs(b)))) | ((a == b))


# ----------------------------------------------------------------------
# oracle on the observation vector
# ----------------------------------------------------------------------
def distances(lo, slope, offset):
    """61-point log grid over 6 decades + boundary seekers around the closed-form zero-loss distance"""
    d0 = 10.0 ** (-offset / slope)
    # the seed only shifts the grid by a fraction of its step (seed 0: the round values)
    jitter = 0.0 if common.seed() == 0 else 0.1 * common.seed_offset(13)
    g = [10.0 ** (lo + 0.1 * i + (jitter if 0 < i < 60 else 0.0)) for i in range(61)]
    g += [d0 * 0.99, d0 * 1.01, d0 / 3.0, d0 * 1e-3]
    return np.array(sorted(set(g)), dtype=float), d0


def check_pathloss_state(chk, fam, hist, st):
    F = FAMILIES[fam]
    case = {"part": "pathloss", "family": fam, "history": [_ev_json(h) for h in hist]}
    chk.count("eval_states")
    if st.note is not None:
        chk.outcome("invalid_call", st.note)
        chk.count("eval_invalid_calls")
    if st.problem is not None:
        sig, obs, exp = st.problem
        chk.fail(sig, case, observed=obs, expected=exp)
        return
    if st.out_of_domain:
        # the object reports a parameter for which no closed form exists (unknown area type)
        chk.count("excluded_state_reporting_parameter_without_closed_form")
        return
    if st.after_invalid is not None:
        chk = AfterInvalid(chk, st.after_invalid)
    obj, m, hsd = st.obj, st.model, st.hsd
    if getattr(obj, "use_shadow_bool", False) is not False:
        chk.fail((fam, "use_shadow_bool_switched_on"), case, observed=obj.use_shadow_bool, expected=False)
        return
    if st.changed:
        chk.nontriv((fam, model_key(st), bfs.digest(bfs.state_of(obj), 12)))
    # readable parameters agree with the reference model
    for k, v in m.items():
        if hasattr(type(obj), k) and getattr(obj, k) != v:
            chk.fail((fam, "getter_disagrees_with_last_valid_set", k), case, observed=getattr(obj, k), expected=v)
    try:
        fresh = F["fresh"](m)
        fresh.handle_small_distances_bool = hsd
    except Exception:  # noqa
        if st.after_invalid is None:
            raise
        fresh = None          # the reported (out-of-range) parameters are not constructible through valid calls
        chk.count("excluded_fresh_object_not_constructible_for_reported_parameters")
    for q in F["queries"]:
        slope, offset = F["line"](m, q)
        grid, d0 = distances(F["lo"], slope, offset)
        ref = slope * np.log10(grid) + offset
        # HARD (property statement): "distances too small for the model either raise or clamp to 0 dB
        # according to the configured policy"
        adm = ref > ZERO_MARGIN_DB
        small = ref < -ZERO_MARGIN_DB
        chk.count("excluded_distance_within_zero_margin", int(np.sum(~adm & ~small)))
        chk.count("eval_distances", int(grid.size))
        first = q is F["queries"][0]
        o = observe(obj, grid, adm, q, first)
        check_observation(chk, fam, case, q, m, hsd, grid, ref, adm, small, slope, o, F["cf_tol"](m),
                          F["inverse"])
        if fresh is None:
            continue
        of = observe(fresh, grid, adm, q, first)
        chk.count("eval_differential")
        k = same_obs(o, of)
        if k is not None:
            chk.fail((fam, "differs_from_fresh_object_with_final_parameters", k), dict(case, query=q),
                     observed=_short(o[k]), expected=_short(of.get(k)))
    if fam == "metis_ps7":
        check_metis_extras(chk, case, obj, m, hsd)


class AfterInvalid:
    """violations found after an invalid call get the signature after_invalid_call|<what>|<relation>"""
    def __init__(self, chk, what):
        self._chk, self._what = chk, what

    def __getattr__(self, name):
        return getattr(self._chk, name)

    def fail(self, sig, case, observed=None, expected=None, msg=""):
        self._chk.fail(("after_invalid_call", self._what, ".".join(str(x) for x in sig[1:])), case,
                       observed=observed, expected=expected, msg=msg)


def _short(x):
    if isinstance(x, list):
        return [_short(e) for e in x[:6]]
    if isinstance(x, tuple) and len(x) == 2 and isinstance(x[1], np.ndarray):
        return (x[0], x[1].ravel()[:6])
    return x


def _ev_json(h):
    if h[0] == "new":
        return ["new", [list(kv) for kv in h[1]]]
    return list(h)


def _ev_from_json(h):
    if h[0] == "new":
        return ("new", tuple((kv[0], kv[1]) for kv in h[1]))
    return tuple(h)


def check_observation(chk, fam, case, q, m, hsd, grid, ref, adm, small, slope, o, cf_tol, inverse_expected):
    case = dict(case, query=q)
    form_q = "num_walls=%d" % q["num_walls"] if q else "-"

    def bad(what, form, observed=None, expected=None, **extra):
        chk.fail((fam, what, form), dict(case, **extra), observed=observed, expected=expected)

    if not o["input_untouched"]:
        bad("input_array_modified", "array")
    # ---- scalar form ----
    sc = o["dB_scalar"]
    ls = o["lin_scalar"]
    vals = np.full(grid.size, np.nan)
    for i, d in enumerate(grid):
        r, rl = sc[i], ls[i]
        if small[i]:
            if hsd:
                chk.outcome("small_distance_policy", (fam, form_q, "clamp", "scalar"))
                if r != ("v", 0.0):
                    bad("small_distance_not_clamped_to_0dB", "scalar", r, 0.0, d=float(d))
                if rl != ("v", 1.0):
                    bad("small_distance_linear_not_1", "scalar", rl, 1.0, d=float(d))
                vals[i] = 0.0
            else:
                chk.outcome("small_distance_policy", (fam, form_q, "raise", "scalar"))
                if r[0] != "raise":
                    bad("small_distance_does_not_raise", "scalar_dB", r, "an exception", d=float(d))
                if rl[0] != "raise":
                    bad("small_distance_does_not_raise", "scalar_linear", rl, "an exception", d=float(d))
        elif adm[i]:
            if r[0] != "v":
                bad("admissible_distance_fails", "scalar_dB", r, ref[i], d=float(d))
                continue
            vals[i] = r[1]
            if not abs(r[1] - ref[i]) <= cf_tol:
                bad("closed_form", "scalar", r[1], ref[i], d=float(d))
            if rl[0] != "v" or not (0.0 < rl[1] <= 1.0):
                bad("linear_not_in_(0,1]", "scalar", rl, "(0,1]", d=float(d))
            elif not abs(rl[1] - 10.0 ** (-r[1] / 10.0)) <= TOL_REL * rl[1]:
                bad("linear_is_not_10^(-dB/10)", "scalar", rl[1], 10.0 ** (-r[1] / 10.0), d=float(d))
    seen = vals[~np.isnan(vals)]
    if seen.size > 1 and np.any(np.diff(seen) < 0):
        j = int(np.nonzero(np.diff(seen) < 0)[0][0])
        bad("loss_decreases_with_distance", "scalar", seen[j:j + 2], "non-decreasing")
    # the slope between the two ends of the admissible grid: exact to rounding for every family
    ia = np.nonzero(adm)[0]
    if ia.size > 1 and not np.isnan(vals[ia[0]]) and not np.isnan(vals[ia[-1]]):
        want = slope * math.log10(grid[ia[-1]] / grid[ia[0]])
        if not abs((vals[ia[-1]] - vals[ia[0]]) - want) <= TOL_DB:
            bad("slope_per_decade", "scalar", (vals[ia[-1]] - vals[ia[0]]), want)
    # ---- array forms ----
    any_small = bool(np.any(small))
    full = o["dB_array_full"]
    lfull = o["lin_array_full"]
    undecided = ~adm & ~small
    if any_small and not hsd:
        chk.outcome("small_distance_policy", (fam, form_q, "raise", "array"))
        if full[0] != "raise":
            bad("small_distance_does_not_raise", "array_dB", _short(full), "an exception")
        if lfull[0] != "raise":
            bad("small_distance_does_not_raise", "array_linear", _short(lfull), "an exception")
    elif np.any(undecided) and not hsd:
        pass            # an entry within the zero margin may or may not raise
    else:
        if any_small:
            chk.outcome("small_distance_policy", (fam, form_q, "clamp", "array"))
        want = np.where(small, 0.0, ref)
        if full[0] != "a" or full[1].shape != grid.shape:
            bad("array_form_fails", "array_dB", _short(full), "array of %d" % grid.size)
        else:
            a = full[1]
            if np.any(a[small] != 0.0):
                bad("small_distance_not_clamped_to_0dB", "array", a[small][:4], 0.0)
            ok = np.abs(a - want) <= cf_tol
            if np.any(~ok & adm):
                j = int(np.nonzero(~ok & adm)[0][0])
                bad("clamp_touches_admissible_entries" if any_small and hsd and a[j] == 0.0 else "closed_form",
                    "array", a[j], want[j], d=float(grid[j]))
            dec = np.diff(a) < 0
            if np.any(dec):
                j = int(np.nonzero(dec)[0][0])
                bad("loss_decreases_with_distance", "array", a[j:j + 2], "non-decreasing")
            known = ~np.isnan(vals) & ~undecided
            if np.any(np.abs(a[known] - vals[known]) > TOL_DB):
                bad("scalar_and_array_disagree", "dB", None, None)
            if lfull[0] != "a" or lfull[1].shape != grid.shape:
                bad("array_form_fails", "array_linear", _short(lfull), "array")
            else:
                la = lfull[1]
                if np.any(~((la > 0) & (la <= 1.0))):
                    bad("linear_not_in_(0,1]", "array", la[~((la > 0) & (la <= 1.0))][:4], "(0,1]")
                if np.any(np.abs(la - 10.0 ** (-a / 10.0)) > TOL_REL * la):
                    bad("linear_is_not_10^(-dB/10)", "array", None, None)
                if np.any(la[small] != 1.0):
                    bad("small_distance_linear_not_1", "array", la[small][:4], 1.0)
    # admissible-only array: must work under either policy
    r = o["dB_array_adm"]
    n_adm = int(np.sum(adm))
    if r[0] != "a" or r[1].shape != (n_adm,):
        bad("admissible_distance_fails", "array_dB", _short(r), "array of %d" % n_adm)
    else:
        if np.any(np.abs(r[1] - ref[adm]) > cf_tol):
            j = int(np.nonzero(np.abs(r[1] - ref[adm]) > cf_tol)[0][0])
            bad("closed_form", "array", r[1][j], ref[adm][j], d=float(grid[adm][j]))
        if np.any(np.diff(r[1]) < 0):
            bad("loss_decreases_with_distance", "array", None, "non-decreasing")
        kn = ~np.isnan(vals[adm])
        if np.any(np.abs(r[1][kn] - vals[adm][kn]) > TOL_DB):
            bad("scalar_and_array_disagree", "dB", None, None)
        rl = o["lin_array_adm"]
        if rl[0] != "a" or rl[1].shape != (n_adm,) or np.any(~((rl[1] > 0) & (rl[1] <= 1.0))):
            bad("linear_not_in_(0,1]", "array", _short(rl), "(0,1]")
        elif np.any(np.abs(rl[1] - 10.0 ** (-r[1] / 10.0)) > TOL_REL * rl[1]):
            bad("linear_is_not_10^(-dB/10)", "array", None, None)
        r2 = o["dB_2d"]
        if r2[0] != "a" or r2[1].shape != (2, 3) or np.any(np.abs(r2[1].ravel() - r[1][:6]) > TOL_DB):
            bad("scalar_and_array_disagree", "2d_array", _short(r2), r[1][:6])
    # ---- inverse ----
    if "inv_probe" not in o:
        return
    offered = o["inv_probe"][0] == "v"
    chk.outcome("inverse_offered", (fam, offered, o["inv_probe"][0] if not offered else "value"))
    if inverse_expected and not offered:
        bad("inverse_not_offered", "which_distance_dB", o["inv_probe"], "a distance")
    if not offered:
        return
    chk.count("eval_inverse_queries", len(PL_QUERIES) * 4 + 3 * n_adm)
    ga = grid[adm]
    for name, lst in (("dB", o["roundtrip_dB"]), ("linear", o["roundtrip_lin"])):
        for d, r in zip(ga, lst):
            if r[0] != "v" or not abs(r[1] - d) <= TOL_REL * d:
                bad("which_distance(calc(d))!=d", "scalar_" + name, r, float(d))
                break
    r = o["roundtrip_dB_array"]
    if r[0] != "a" or r[1].shape != ga.shape or np.any(np.abs(r[1] - ga) > TOL_REL * ga):
        bad("which_distance(calc(d))!=d", "array_dB", _short(r), ga[:6])
    # loss -> distance -> loss (closed form: d = 10^((PL-offset)/slope))
    offset = ref[0] - slope * math.log10(grid[0])
    for key, form in (("inv_dB_scalar", "scalar_dB"), ("inv_lin_scalar", "scalar_linear")):
        for p, r in zip(PL_QUERIES, o[key]):
            want = 10.0 ** ((p - offset) / slope)
            tol_d = (TOL_REL + (math.log(10.0) / slope) * (cf_tol - TOL_DB) * 1.001) * want
            if r[0] != "v" or not abs(r[1] - want) <= tol_d:
                bad("which_distance_closed_form", form, r, want, PL=p)
                break
            back = slope * math.log10(r[1]) + offset
            if not abs(back - p) <= cf_tol:
                bad("calc(which_distance(PL))!=PL", form, back, p)
                break
    for key, form in (("inv_dB_array", "array_dB"), ("inv_lin_array", "array_linear")):
        r = o[key]
        sc_v = np.array([x[1] if x[0] == "v" else np.nan for x in o["inv_dB_scalar"]])
        if r[0] != "a" or r[1].shape != sc_v.shape or np.any(~(np.abs(r[1] - sc_v) <= 1e-9 * sc_v)):
            bad("scalar_and_array_disagree", "which_distance_" + form, _short(r), sc_v)


def check_metis_extras(chk, case, obj, m, hsd):
    """array-valued num_walls (per-entry LOS/NLOS) and negative wall counts"""
    d = np.array([1.0, 2.5, 10.0, 40.0, 100.0, 350.0, 1e3, 3e3])
    nw = np.array([0, 1, 2, 3, 0, 3, 1, 0])
    chk.count("eval_distances", int(d.size))
    want = np.array([np.dot(line_metis(m, {"num_walls": int(w)}), (math.log10(x), 1.0)) for x, w in zip(d, nw)])
    if np.all(want > ZERO_MARGIN_DB):
        r = _call(obj.calc_path_loss_dB, d.copy(), num_walls=nw.copy())
        if r[0] != "a" or r[1].shape != d.shape or np.any(np.abs(r[1] - want) > TOL_DB):
            chk.fail(("metis_ps7", "closed_form", "array_num_walls"), case, observed=_short(r), expected=want)
        r = _call(obj.calc_path_loss, d.copy(), num_walls=nw.copy())
        if r[0] != "a" or np.any(np.abs(r[1] - 10.0 ** (-want / 10.0)) > 1e-8 * r[1]):
            chk.fail(("metis_ps7", "linear_is_not_10^(-dB/10)", "array_num_walls"), case, observed=_short(r),
                     expected=10.0 ** (-want / 10.0))
    else:
        chk.count("excluded_metis_array_walls_not_admissible")
    check_walls_broadcast(chk, case, obj, m)
    for form, dd in (("scalar", 10.0), ("array", np.array([10.0, 20.0]))):
        r = _call(obj.calc_path_loss_dB, dd, num_walls=-1)
        # a negative wall count is an invalid call: free (tools/INVALID_CALL_POLICY.md), outcome only
        chk.outcome("negative_num_walls", (form,) + r[:1])
        chk.outcome("invalid_call", ("metis_ps7.num_walls=-1 (%s)" % form,
                                     "accepted" if r[0] != "raise" else "raised:" + r[1], "object_unchanged"))


# shape pairs (distances, wall counts).  The docstring of PathLossMetisPS7 admits an array num_walls that
# "must have the same dimension as d", dimensions of size 1 being broadcast to those of d: pairs in which the
# wall counts broadcast TO d.shape are valid input, pairs that would need d itself to grow are invalid calls.
_M, _N, _P = 3, 4, 2
WALL_SHAPE_PAIRS = [
    ((_N,), (_N,)), ((_M, _N), (_N,)), ((_M, _N), (_M, 1)), ((_M, _N), (1, _N)), ((_M, _N), (_M, _N)),
    ((_M, _N), ()), ((_M, _N), (1, 1)), ((_M, 1), (_M, 1)), ((1, _N), (_N,)),
    ((_P, _M, _N), (_N,)), ((_P, _M, _N), (_M, _N)), ((_P, _M, _N), (_M, 1)), ((_P, _M, _N), (_P, 1, 1)),
    ((_P, _M, _N), (1, _M, 1)), ((_P, _M, _N), (_P, 1, _N)), ((_P, _M, _N), (_P, _M, 1)),
]
WALL_SHAPE_PAIRS_INVALID = [((_M, 1), (1, _N)), ((), (_N,)), ((_N,), (_M, _N)), ((_M, _N), (_M,))]


def _grid(shape, start, step):
    n = int(np.prod(shape, dtype=int))
    return (start + step * np.arange(n, dtype=float)).reshape(shape)


def check_walls_broadcast(chk, case, obj, m):
    """every element of calc_path_loss_dB(d, num_walls=w) (and of the linear entry point) equals the scalar call
    with d[i..] and the wall count numpy broadcasting assigns to that element; result shape = d.shape"""
    for dshape, wshape in WALL_SHAPE_PAIRS:
        d = _grid(dshape, 2.5, 3.7)                               # all distinct, admissible for every wall count
        w = _grid(wshape, 0.0, 1.0).astype(int)                   # all distinct, contains 0 (LOS)
        wb = np.broadcast_to(w, dshape)
        c2 = dict(case, d_shape=list(dshape), num_walls_shape=list(wshape))
        keep_d, keep_w = d.tobytes(), w.tobytes()
        for entry, f in (("calc_path_loss_dB", obj.calc_path_loss_dB), ("calc_path_loss", obj.calc_path_loss)):
            chk.count("eval_wall_broadcast_pairs")
            chk.outcome("wall_broadcast", (dshape, wshape, entry))
            r = _call(f, d, num_walls=w)
            if d.tobytes() != keep_d or w.tobytes() != keep_w:
                chk.fail(("metis_ps7", "num_walls_broadcast", "input_modified"), c2, observed=entry)
            if r[0] != "a":
                chk.fail(("metis_ps7", "num_walls_broadcast", "fails"), c2, observed="%s: %r" % (entry, _short(r)),
                         expected="array of shape %r" % (dshape,))
                continue
            if r[1].shape != tuple(dshape):
                chk.fail(("metis_ps7", "num_walls_broadcast", "result_shape"), c2,
                         observed="%s: %r" % (entry, r[1].shape), expected=tuple(dshape))
                continue
            want = np.empty(dshape)
            for idx in np.ndindex(*dshape):
                s1 = _call(f, float(d[idx]), num_walls=int(wb[idx]))
                want[idx] = s1[1] if s1[0] == "v" else np.nan
            tol = TOL_DB if entry == "calc_path_loss_dB" else TOL_REL * np.abs(want)
            bad = ~(np.abs(r[1] - want) <= tol)
            if np.any(bad):
                idx = tuple(int(x) for x in np.argwhere(bad)[0])
                chk.fail(("metis_ps7", "num_walls_broadcast", "element_differs_from_scalar_call"), c2,
                         observed="%s: element %r = %r (d=%r, walls=%d)" % (entry, idx, r[1][idx], d[idx], wb[idx]),
                         expected=want[idx])
    for dshape, wshape in WALL_SHAPE_PAIRS_INVALID:
        # num_walls does not fit the dimensions of d: an invalid call, free (tools/INVALID_CALL_POLICY.md)
        d = _grid(dshape, 2.5, 3.7) if dshape else 2.5
        r = _call(obj.calc_path_loss_dB, d, num_walls=_grid(wshape, 0.0, 1.0).astype(int))
        chk.outcome("invalid_call", ("metis_ps7 d%r num_walls%r" % (dshape, wshape),
                                     "accepted" if r[0] != "raise" else "raised:" + r[1], "object_unchanged"))


# ----------------------------------------------------------------------
# antenna gain (single-state machines)
# ----------------------------------------------------------------------
SECTOR_SPEC = {3: (70.0, 20.0, 14.0), 6: (35.0, 23.0, 17.0)}     # theta_3dB, Am (dB), gain (dBi): 3GPP 25.996
ANGLES = np.array([-180.0 + 0.5 * i for i in range(721)])


def check_antenna(chk, case):
    from pyphysim.channels import antennagain as AG
    kind = case["kind"]
    chk.count("eval_states")
    chk.count("eval_angles", int(ANGLES.size) * 2)

    def bad(what, form, observed=None, expected=None):
        chk.fail(("antenna_" + kind, what, form), case, observed=observed, expected=expected)

    if kind == "invalid_sectors":
        r = _call(AG.AntGainBS3GPP25996, case["arg"])
        # an unsupported sector count is an invalid call: free, outcome only
        chk.outcome("antenna", (kind, case["arg"]) + r[:1])
        chk.outcome("invalid_call", ("AntGainBS3GPP25996(%r)" % case["arg"],
                                     "accepted" if r[0] != "raise" else "raised:" + r[1], "object_unchanged"))
        return
    if kind == "omni":
        g = AG.AntGainOmni(case["arg"])
        want = 1.0 if case["arg"] is None else 10.0 ** (case["arg"] / 10.0)
        a = g.get_antenna_gain(ANGLES.copy())
        if np.shape(a) != ANGLES.shape or np.any(np.abs(np.asarray(a) - want) > 1e-12 * want):
            bad("not_constant_nominal_gain", "array", np.asarray(a).ravel()[:3], want)
        for th in ANGLES[::40]:
            v = g.get_antenna_gain(float(th))
            if not abs(float(v) - want) <= 1e-12 * want:
                bad("not_constant_nominal_gain", "scalar", v, want)
                break
        a2 = g.get_antenna_gain(ANGLES[:6].reshape(2, 3).copy())
        if np.shape(a2) != (2, 3):
            bad("shape", "2d_array", np.shape(a2), (2, 3))
        chk.outcome("antenna", (kind, repr(case["arg"]), round(want, 6)))
        return
    ns = case["arg"]
    th3, Am, gdb = SECTOR_SPEC[ns]
    g = AG.AntGainBS3GPP25996(ns)
    G = 10.0 ** (gdb / 10.0)
    floor = G * 10.0 ** (-Am / 10.0)
    a = np.asarray(g.get_antenna_gain(ANGLES.copy()), dtype=float)
    if a.shape != ANGLES.shape:
        bad("shape", "array", a.shape, ANGLES.shape)
        return
    sc = np.array([float(g.get_antenna_gain(float(t))) for t in ANGLES])
    want = np.array([G * 10.0 ** (-min(12.0 * (t / th3) ** 2, Am) / 10.0) for t in ANGLES])
    for form, v in (("array", a), ("scalar", sc)):
        i0 = 360
        if not abs(v[i0] - G) <= 1e-12 * G:
            bad("boresight_gain_is_not_nominal", form, v[i0], G)
        if np.any(v > v[i0]):
            bad("peak_not_at_boresight", form, float(v.max()), v[i0])
        if np.any(v != v[::-1]):
            bad("not_symmetric", form, None, None)
        right = v[i0:]
        if np.any(np.diff(right) > 0):
            bad("increases_with_|angle|", form, None, None)
        if np.any(v < floor * (1 - 1e-12)):
            bad("below_floor_-Am", form, float(v.min()), floor)
        edge = th3 * math.sqrt(Am / 12.0)
        far = np.abs(ANGLES) >= edge + 1e-9
        if np.any(np.abs(v[far] - floor) > 1e-12 * floor):
            bad("not_floored_at_-Am_beyond_pattern_edge", form, v[far][:3], floor)
        if np.any(np.abs(v - want) > 1e-12 * want):
            bad("closed_form", form, None, None)
        chk.outcome("antenna", (kind, ns, form, int(np.sum(far)), len(set(np.round(v, 9).tolist()))))
    a2 = np.asarray(g.get_antenna_gain(ANGLES[:6].reshape(2, 3).copy()))
    if a2.shape != (2, 3) or np.any(a2.ravel() != a[:6]):
        bad("shape", "2d_array", a2.shape, (2, 3))

    def not_above_boresight(grp, c, gg, w):
        if np.any(gg > G * (1 + 1e-2)):
            chk.fail(("antenna_" + kind, grp, "gain_exceeds_boresight"), c, observed=float(gg.max()), expected=G)

    idx = [0, 90, 200, 254, 300, 360, 420, 466, 520, 630, 720]     # -180, -135, -80, -53, -30, 0, 30, 53, 80, 135, 180
    check_numeric_forms(chk, ("antenna_" + kind, "gain"), case, g.get_antenna_gain, ANGLES, idx,
                        lambda w, eps: w * (1e-12 + FLOAT_FORM_C * eps * (1.0 + 0.2303 * Am)),
                        extra=not_above_boresight)


def antenna_cases():
    return ([{"part": "antenna", "kind": "sector", "arg": 3}, {"part": "antenna", "kind": "sector", "arg": 6}]
            + [{"part": "antenna", "kind": "omni", "arg": a} for a in (None, 0.0, 3.0, -2.5, 17)]
            + [{"part": "antenna", "kind": "invalid_sectors", "arg": a} for a in (0, 1, 4, 12)])



# ----------------------------------------------------------------------
# numeric forms of one grid of values: dtypes, layouts, scalar kinds
# ----------------------------------------------------------------------
FLOAT_DTYPES = (np.float64, np.float32, np.float16)
INT_DTYPES = (np.int8, np.int16, np.int32, np.int64, np.uint8, np.uint16, np.uint32, np.uint64)
FLOAT_FORM_C = 8.0      # float32/float16 inputs: tolerance FLOAT_FORM_C * eps(input dtype) (result precision follows the input)


def numeric_forms(values, scalar_idx):
    """[(kind, label, presented object, the same values as float64)] - every numeric dtype wide enough to
    hold the values (integer dtypes get the integer-valued members in range), non-contiguous views,
    Python / numpy scalars and 0-d arrays"""
    v = np.asarray(values, dtype=float)
    out = []
    for dt in FLOAT_DTYPES:
        a = v.astype(dt)
        out.append(("array", dt.__name__, a, a.astype(float)))
    isint = v == np.rint(v)
    for dt in INT_DTYPES:
        info = np.iinfo(dt)
        sel = v[isint & (v >= info.min) & (v <= info.max)]
        if sel.size:
            out.append(("array", dt.__name__, sel.astype(dt), sel.copy()))
    out.append(("view", "strided_float64", np.repeat(v, 2)[::2], v.copy()))
    out.append(("view", "reversed_float64", v[::-1], v[::-1].copy()))
    n2 = (v.size // 2) * 2
    out.append(("view", "transposed_2d_float64", v[:n2].reshape(2, -1).T, v[:n2].reshape(2, -1).T.copy()))
    i16 = v[isint & (np.abs(v) <= 32767)]
    if i16.size:
        out.append(("view", "strided_int16", np.repeat(i16.astype(np.int16), 2)[::2], i16.copy()))
        out.append(("view", "strided_float32", np.repeat(v.astype(np.float32), 2)[::2],
                    v.astype(np.float32).astype(float)))
    for x in v[scalar_idx]:
        x = float(x)
        out.append(("scalar", "python_float", x, x))
        if x == round(x):
            out.append(("scalar", "python_int", int(x), x))
        for dt in FLOAT_DTYPES:
            y = dt(x)
            out.append(("scalar", "numpy_" + dt.__name__, y, float(y)))
            out.append(("0d", dt.__name__, np.array(x, dtype=dt), float(y)))
        if x == round(x):
            for dt in INT_DTYPES:
                info = np.iinfo(dt)
                if info.min <= x <= info.max:
                    out.append(("scalar", "numpy_" + dt.__name__, dt(int(x)), x))
                    out.append(("0d", dt.__name__, np.array(int(x), dtype=dt), x))
    return out


def form_group(label):
    name = label.replace("numpy_", "").replace("strided_", "")
    if name in ("int8", "uint8", "int16", "uint16"):
        return "small_integer_dtype"
    if name in ("int32", "uint32", "int64", "uint64"):
        return "wide_integer_dtype"
    if name in ("float16", "float32"):
        return name
    if name.startswith("python"):
        return "python_scalar"
    return "float64_layout"


def form_eps(label):
    name = label.replace("numpy_", "").replace("strided_", "")
    if name == "float32":
        return float(np.finfo(np.float32).eps)
    if name == "float16":
        return float(np.finfo(np.float16).eps)
    return 0.0


def _bytes(x):
    return np.asarray(x).tobytes() if isinstance(x, np.ndarray) else None


def check_numeric_forms(chk, sig0, case, f, values, scalar_idx, tol_of, extra=None, skip=None):
    """f(presented) must equal f(the same values as a contiguous float64 array / Python float) within
    tol_of(reference result, eps of the presented float dtype or 0); inputs must stay bit-identical"""
    for kind, label, presented, ref_vals in numeric_forms(values, scalar_idx):
        grp = form_group(label)
        if skip is not None and skip(kind, label):
            chk.count("excluded_float16_input_result_outside_half_precision_range")
            continue
        chk.count("eval_numeric_forms")
        chk.outcome("numeric_form", (sig0[0], kind, label))
        c = dict(case, form=kind, dtype=label, view=sig0[1])
        before = _bytes(presented)
        if isinstance(ref_vals, float):
            want = _call(f, ref_vals)
        else:
            want = _call(f, np.array(ref_vals, dtype=float))
        got = _call(f, presented)
        if before is not None and _bytes(presented) != before:
            chk.fail((sig0[0], grp, "input_modified"), c)
        if want[0] not in ("v", "a"):
            chk.fail((sig0[0], grp, "float64_reference_fails"), c, observed=want)
            continue
        if got[0] not in ("v", "a"):
            chk.fail((sig0[0], grp, "raises_or_none"), c, observed=got, expected=_short(want))
            continue
        w = np.asarray(want[1], dtype=float)
        g = np.asarray(got[1], dtype=float)
        if g.shape != w.shape:
            chk.fail((sig0[0], grp, "wrong_shape"), c, observed=g.shape, expected=w.shape)
            continue
        tol = tol_of(w, form_eps(label))
        badm = ~(np.abs(g - w) <= tol)
        if np.any(badm):
            j = int(np.nonzero(badm.ravel())[0][0])
            chk.fail((sig0[0], grp, "differs_from_float64_result"), c,
                     observed="%s: %r at value %r (dtype %s)" % (sig0[1], g.ravel()[j],
                                                                np.asarray(ref_vals).ravel()[j], label),
                     expected="%r (tolerance %.3g)" % (w.ravel()[j], float(np.asarray(tol).ravel()[j if np.ndim(tol) else 0])))
        if extra is not None:
            extra(grp, c, g, w)


FLOAT_FORM_DB_SCALE = 100.0   # dB: the loss is a sum of terms of this size, a low-precision log10 errs on that scale

# numeric-form signatures name the implementation site, not the family (three families share one)
SITE = {"general": "PathLossGeneral", "free_space": "PathLossGeneral", "3gpp1": "PathLossGeneral",
        "metis_ps7": "PathLossMetisPS7", "okumura_hata": "PathLossOkomuraHata"}


def _tol_db(w, eps):
    return TOL_DB + FLOAT_FORM_C * eps * np.maximum(np.abs(w), FLOAT_FORM_DB_SCALE)


def _tol_lin_pathloss(w, eps):
    # linear = 10^(-dB/10): an error of e dB is a relative error of ln(10)/10 * e
    db = np.abs(10.0 * np.log10(np.maximum(w, 1e-300)))
    return w * (TOL_REL + FLOAT_FORM_C * eps * (1.0 + 0.2303 * np.maximum(db, FLOAT_FORM_DB_SCALE)))


def check_pathloss_numeric_forms(chk, fam, hist):
    """root states only: the admissible part of the distance grid (+ integer distances) in every numeric form"""
    F = FAMILIES[fam]
    st = build(fam, hist)
    case = {"part": "dtype", "family": fam, "history": [_ev_json(h) for h in hist]}
    if st.problem is not None:
        return
    chk.count("eval_states")
    for q in (F["queries"][0], F["queries"][-1]) if len(F["queries"]) > 1 else (F["queries"][0],):
        slope, offset = F["line"](st.model, q)
        grid, _ = distances(F["lo"], slope, offset)
        ints = np.array([1, 2, 5, 10, 20, 50, 100, 127, 128, 200, 255, 256, 500, 1000], dtype=float)
        vals = np.array(sorted(set(grid.tolist()) | set(ints.tolist())))
        vals = vals[slope * np.log10(vals) + offset > 1.0]     # clearly admissible in every precision
        idx = np.unique(np.linspace(0, vals.size - 1, 7).astype(int)).tolist()
        idx += [int(np.nonzero(vals == x)[0][0]) for x in (2.0, 100.0, 1000.0) if x in vals]
        cq = dict(case, query=q)

        def in_unit_interval(grp, c, g, w):
            if np.any(~((g > 0) & (g <= 1.0))):
                chk.fail((SITE[fam], grp, "linear_value_not_in_(0,1]"), c,
                         observed=g[~((g > 0) & (g <= 1.0))][:4], expected=w[~((g > 0) & (g <= 1.0))][:4])

        check_numeric_forms(chk, (SITE[fam], "loss_dB"), cq, lambda d: st.obj.calc_path_loss_dB(d, **q), vals, idx, _tol_db)
        check_numeric_forms(chk, (SITE[fam], "loss_linear"), cq, lambda d: st.obj.calc_path_loss(d, **q), vals, idx,
                            _tol_lin_pathloss, extra=in_unit_interval,
                            skip=lambda kind, label: label.endswith("float16"))
    if F["inverse"]:
        pl = np.array([1.0, 10.0, 60.0, 100.0, 127.0, 150.0, 250.0])
        check_numeric_forms(chk, (SITE[fam], "which_distance_dB"), case, st.obj.which_distance_dB, pl, [0, 2, 3, 6],
                            lambda w, eps: w * (TOL_REL + FLOAT_FORM_C * eps * 60.0),
                            skip=lambda kind, label: label.endswith("float16"))



# ----------------------------------------------------------------------
# presentations of ONE distance value: every way a caller can hand over the same number must give the same
# loss, for values below / at / above the small-distance threshold, both policies, every entry point
# ----------------------------------------------------------------------
def presentations(x):
    """[(label, object, value actually presented as float, is_array_like)]"""
    x = float(x)
    out = [("python_float", x, x), ("numpy_float64", np.float64(x), x),
           ("numpy_float32", np.float32(x), float(np.float32(x))),
           ("0d_array", np.array(x), x), ("0d_array_float32", np.array(x, dtype=np.float32), float(np.float32(x))),
           ("1_element_array", np.array([x]), x), ("1_element_list", [x], x),
           ("nd_array", np.full((2, 1, 2), x), x),
           ("non_contiguous_view", np.array([x, 7.0, x, 7.0])[::2], x)]
    ro = np.array([x, x])
    ro.flags.writeable = False
    out.append(("read_only_array", ro, x))
    if x == round(x) and abs(x) < 2 ** 31:
        out += [("python_int", int(x), x), ("numpy_int64", np.int64(int(x)), x),
                ("0d_array_int64", np.array(int(x)), x), ("1_element_int_list", [int(x)], x)]
    return out


def _pres_shape(p):
    return np.shape(p)


PRESENTATION_ROOTS_EXTRA = {"general": [(("new", (("n", 2), ("C", -30.0))),)]}   # threshold 31.6 km: integer distances below it


def check_presentations(chk, fam, hist):
    F = FAMILIES[fam]
    site = SITE[fam]
    for hsd in (False, True):
        st = build(fam, hist)
        if st.problem is not None:
            return
        obj = st.obj
        obj.handle_small_distances_bool = hsd
        chk.count("eval_states")
        for q in ((F["queries"][0], F["queries"][-1]) if len(F["queries"]) > 1 else (F["queries"][0],)):
            slope, offset = F["line"](st.model, q)
            d0 = 10.0 ** (-offset / slope)
            values = [d0 * 1e-3, d0 * 0.5, d0, d0 * 1.01, d0 * 3.0, d0 * 1e3]
            values += [v for v in (1.0, 5.0, 31.0, 32.0, 100.0) if d0 * 1e-4 < v < d0 * 1e5]
            cf_tol = F["cf_tol"](st.model)
            for x in values:
                for entry, f in (("calc_path_loss_dB", obj.calc_path_loss_dB), ("calc_path_loss", obj.calc_path_loss)):
                    results = []
                    for label, pobj, xv in presentations(x):
                        ref = slope * math.log10(xv) + offset
                        zone = "below" if ref < -ZERO_MARGIN_DB else ("above" if ref > ZERO_MARGIN_DB else "at")
                        case = {"part": "presentation", "family": fam, "history": [_ev_json(h) for h in hist],
                                "policy_clamp": hsd, "query": q, "entry": entry, "value": x, "presentation": label}
                        keep = pobj.tobytes() if isinstance(pobj, np.ndarray) else None
                        r = _call(f, pobj, **q)
                        chk.count("eval_presentations")
                        chk.outcome("presentation", (fam, entry, label, zone, hsd))
                        if keep is not None and pobj.tobytes() != keep:
                            chk.fail((site, "presentation", "input_modified"), case, observed=label)
                        if zone == "at":
                            chk.count("excluded_presentation_within_zero_margin")
                            continue
                        want = 0.0 if zone == "below" else ref
                        if entry == "calc_path_loss":
                            want = 10.0 ** (-want / 10.0)
                        if zone == "below" and not hsd:
                            # HARD (property statement): "distances too small for the model either raise or clamp
                            # to 0 dB according to the configured policy"
                            if r[0] != "raise":
                                chk.fail((site, "presentation", "small_distance_does_not_raise"), case,
                                         observed="%s: %r" % (label, _short(r)), expected="an exception")
                            continue
                        if r[0] not in ("v", "a"):
                            chk.fail((site, "presentation",
                                      "small_distance_not_clamped" if zone == "below" else "admissible_distance_fails"),
                                     case, observed="%s: %r" % (label, r), expected=want)
                            continue
                        got = np.asarray(r[1], dtype=float)
                        if got.shape != _pres_shape(pobj):
                            chk.fail((site, "presentation", "wrong_result_shape"), case,
                                     observed="%s: %r" % (label, got.shape), expected=_pres_shape(pobj))
                            continue
                        if zone == "below":
                            if np.any(got != want):
                                chk.fail((site, "presentation", "small_distance_not_clamped"), case,
                                         observed="%s: %r" % (label, got.ravel()[:3]), expected=want)
                            continue
                        eps = float(np.finfo(np.float32).eps) if "float32" in label else 0.0
                        if entry == "calc_path_loss_dB":
                            tol = cf_tol + FLOAT_FORM_C * eps * FLOAT_FORM_DB_SCALE
                        else:
                            tol = want * (TOL_REL + 0.2303 * (cf_tol - TOL_DB) * 1.001
                                          + FLOAT_FORM_C * eps * (1.0 + 0.2303 * FLOAT_FORM_DB_SCALE))
                        if np.any(~(np.abs(got - want) <= tol)):
                            chk.fail((site, "presentation", "value"), case,
                                     observed="%s: %r" % (label, got.ravel()[:3]), expected=want)
                        if eps == 0.0:
                            results.append((label, float(got.ravel()[0])))
                    # all exact presentations of the same value agree to rounding
                    if results:
                        vals = np.array([v for _, v in results])
                        spread = float(vals.max() - vals.min())
                        lim = TOL_DB if entry == "calc_path_loss_dB" else TOL_REL * float(np.abs(vals).max())
                        if not spread <= lim:
                            chk.fail((site, "presentation", "presentations_of_one_value_disagree"),
                                     {"part": "presentation", "family": fam, "history": [_ev_json(h) for h in hist],
                                      "policy_clamp": hsd, "query": q, "entry": entry, "value": x,
                                      "presentation": "*"}, observed=results[:6], expected="one value")
            # mixed arrays (too-small and admissible entries side by side) in every memory layout x both policies
            # x both entry points.  HARD (property statement): "distances too small for the model either raise
            # or clamp to 0 dB according to the configured policy" - clamp: exactly the offending entries
            mult = np.array([1e-3, 0.5, 3.0, 1e3, 0.2, 7.0, 40.0, 0.05, 90.0, 0.3, 5.0, 200.0])
            M = (d0 * mult).reshape(3, 4)
            big = np.full((6, 8), d0 * 11.0)
            big[::2, ::2] = M
            ro = M.ravel().copy()
            ro.flags.writeable = False
            layouts = [("1d_list", M.ravel().tolist()), ("1d_read_only", ro),
                       ("1d_non_contiguous_view", np.repeat(M.ravel(), 2)[::2]),
                       ("1d_float32", M.ravel().astype(np.float32)),
                       ("2d_C", M.copy()), ("2d_F", np.asfortranarray(M)), ("2d_transposed_view", M.copy().T),
                       ("2d_strided_view", big[::2, ::2]), ("2d_F_transposed_view", np.asfortranarray(M).T),
                       ("3d_C", M.reshape(3, 2, 2).copy()), ("3d_swapaxes_view", np.swapaxes(M.reshape(3, 2, 2), 0, 2)),
                       ("3d_F", np.asfortranarray(M.reshape(3, 2, 2)))]
            for label, pobj in layouts:
                vals = np.asarray(pobj, dtype=float)
                refm = slope * np.log10(vals) + offset
                below = refm < 0
                for entry, f in (("calc_path_loss_dB", obj.calc_path_loss_dB), ("calc_path_loss", obj.calc_path_loss)):
                    keep = pobj.tobytes() if isinstance(pobj, np.ndarray) else None
                    r = _call(f, pobj, **q)
                    chk.count("eval_presentations")
                    chk.outcome("layout_x_policy", (label, hsd, entry))
                    case = {"part": "presentation", "family": fam, "history": [_ev_json(h) for h in hist],
                            "policy_clamp": hsd, "query": q, "entry": entry, "value": "mixed",
                            "presentation": label}
                    if keep is not None and pobj.tobytes() != keep:
                        chk.fail((site, "presentation", "input_modified"), case, observed=label)
                    if not hsd:
                        if r[0] != "raise":
                            chk.fail((site, "presentation", "small_distance_does_not_raise"), case,
                                     observed="%s: %r" % (label, _short(r)), expected="an exception")
                        continue
                    wantm = np.where(below, 0.0, refm)
                    eps = float(np.finfo(np.float32).eps) if label.endswith("float32") else 0.0
                    if entry == "calc_path_loss_dB":
                        tol = cf_tol + FLOAT_FORM_C * eps * FLOAT_FORM_DB_SCALE
                    else:
                        wantm = 10.0 ** (-wantm / 10.0)
                        tol = wantm * (TOL_REL + 0.2303 * (cf_tol - TOL_DB) * 1.001
                                       + FLOAT_FORM_C * eps * (1.0 + 0.2303 * FLOAT_FORM_DB_SCALE))
                    clamp_to = 0.0 if entry == "calc_path_loss_dB" else 1.0
                    if r[0] != "a" or r[1].shape != vals.shape:
                        chk.fail((site, "presentation", "mixed_array_clamp"), case,
                                 observed="%s: %r" % (label, _short(r)), expected="array of shape %r" % (vals.shape,))
                    elif np.any(r[1][below] != clamp_to) or np.any(~(np.abs(r[1] - wantm) <= tol)[~below]):
                        chk.fail((site, "presentation", "mixed_array_clamp"), case,
                                 observed="%s: %r" % (label, r[1].ravel()[:6]), expected=wantm.ravel()[:6])
        if F["inverse"]:
            for p in (10.0, 100.0, 150.5):
                res = []
                for label, pobj, pv in presentations(p):
                    if "list" in label:
                        continue                      # which_distance_dB documents float | np.ndarray only
                    r = _call(obj.which_distance_dB, pobj)
                    chk.count("eval_presentations")
                    case = {"part": "presentation", "family": fam, "history": [_ev_json(h) for h in hist],
                            "policy_clamp": hsd, "query": {}, "entry": "which_distance_dB", "value": p,
                            "presentation": label}
                    slope, offset = F["line"](st.model, F["queries"][0])
                    want = 10.0 ** ((pv - offset) / slope)
                    eps = float(np.finfo(np.float32).eps) if "float32" in label else 0.0
                    tol = want * (TOL_REL + (math.log(10.0) / slope) * (F["cf_tol"](st.model) - TOL_DB) * 1.001
                                  + FLOAT_FORM_C * eps * 60.0)
                    if r[0] not in ("v", "a") or np.shape(r[1]) != _pres_shape(pobj) or \
                            np.any(~(np.abs(np.asarray(r[1], dtype=float) - want) <= tol)):
                        chk.fail((site, "presentation", "which_distance_dB"), case,
                                 observed="%s: %r" % (label, _short(r)), expected=want)


# ----------------------------------------------------------------------
# queries as events: [query(d), toggle policy, query(d)], [query(d), caller mutates the result, query(d)] ...
# ----------------------------------------------------------------------
Q_ARRAYS = {
    "mix": (1e-9, 1e-7, 1.5, 50.0, 700.0),        # contains distances below the minimum distance of every model
    "adm": (2.0, 35.0, 900.0),
    "pl": (10.0, 60.0, 100.0, 150.0),
}
Q_SETTERS = {
    "general": [], "3gpp1": [],
    "free_space": [("fc", 2400.0), ("n", 3.5)],
    "metis_ps7": [("fc", 5000.0)],
    "okumura_hata": [("fc", 1500.0), ("area_type", "open"), ("hbs", 200.0), ("hms", 10.0)],
}
CLONE_KINDS = ("copy", "deepcopy", "pickle")


def clone_of(obj, how):
    import copy
    import pickle
    if how == "copy":
        return copy.copy(obj)
    if how == "deepcopy":
        return copy.deepcopy(obj)
    return pickle.loads(pickle.dumps(obj))


Q_INITS = {
    "general": [(("n", 2), ("C", 20.0)), (("n", 3.76), ("C", 128.1))],
    "3gpp1": [()],
    "free_space": [(("default", True),)],
    "metis_ps7": [(("default", True),)],
    "okumura_hata": [()],
}


Q_SCALARS = {"adm_s": 35.0, "pl_s": 100.0, "pll_s": 1e-10}
Q_METHOD = {"dB": "calc_path_loss_dB", "lin": "calc_path_loss", "inv": "which_distance_dB",
            "invlin": "which_distance"}
Q_CALC = [("dB", "mix"), ("lin", "mix"), ("dB", "adm"), ("lin", "adm"), ("dB", "adm_s"), ("lin", "adm_s")]
Q_INV = [("inv", "pl"), ("invlin", "pll"), ("inv", "pl_s"), ("invlin", "pll_s")]


def q_kinds(fam):
    """every entry point in array and scalar form (the inverses where they are offered)"""
    return Q_CALC + (Q_INV if FAMILIES[fam]["inverse"] else [])


def q_alphabet(fam):
    ev = [("query", k, a) for k, a in q_kinds(fam)]
    ev.append(("query", "dB", "adm_list"))
    ev.append(("mutate", "result"))
    ev += [("handle_small_distances_bool", True), ("handle_small_distances_bool", False)]
    ev += Q_SETTERS[fam]
    # the object is replaced by a clone of itself (always the last event of a history: the observation after the
    # history then judges the CLONE in every relation, and the original next to it)
    ev += [("clone", how) for how in CLONE_KINDS]
    inits = [(("new", a + (("hsd0", h),)),) for a in Q_INITS[fam] for h in (False, True)]
    return inits, ev


def q_values(arr):
    """the numbers a query stands for: distances, or losses in dB for the inverse queries"""
    if arr in ("adm_list",):
        return Q_ARRAYS["adm"]
    if arr in ("pl", "pll"):
        return Q_ARRAYS["pl"]
    if arr == "adm_s":
        return (Q_SCALARS["adm_s"],)
    if arr in ("pl_s", "pll_s"):
        return (Q_SCALARS["pl_s"],)
    return Q_ARRAYS[arr]


class QState:
    def __init__(self):
        self.obj = None
        self.model = None
        self.hsd = False
        self.problem = None
        self.arrays = {}
        self.bytes = {}
        self.last_result = None
        self.last = None          # record of the last query event
        self.original = None      # the object a clone was taken from
        self.clone_note = None


def q_expected(fam, model, hsd, kind, values):
    """(tag, values, decided-mask) by the closed form"""
    F = FAMILIES[fam]
    slope, offset = F["line"](model, F["queries"][0])
    v = np.asarray(values, dtype=float)
    if kind in ("inv", "invlin"):
        return ("a", 10.0 ** ((v - offset) / slope), np.ones(v.shape, bool))
    ref = slope * np.log10(v) + offset
    small = ref < -ZERO_MARGIN_DB
    decided = small | (ref > ZERO_MARGIN_DB)
    if np.any(small) and not hsd:
        return ("raise", "RuntimeError", None)
    want = np.where(small, 0.0, ref)
    if kind == "lin":
        want = 10.0 ** (-want / 10.0)
    return ("a", want, decided)


def q_do(st, kind, arr):
    """execute one query on the real object with the history's own array objects"""
    obj = st.obj
    if arr == "adm_list":
        x = list(Q_ARRAYS["adm"])
    elif arr in Q_SCALARS:
        x = Q_SCALARS[arr]
    else:
        x = st.arrays[arr]
    f = getattr(obj, Q_METHOD[kind])
    try:
        r = f(x)
    except Exception as e:  # noqa
        return ("raise", type(e).__name__), None, x
    return None, r, x


def q_result(tag, r):
    """(tag, values) of a query result; a scalar answer is a 1-element array of values"""
    if tag is not None:
        return tag
    if r is None:
        return ("none",)
    if _arraylike(r):
        return ("a", np.array(r, dtype=float, copy=True))
    try:
        return ("a", np.array([float(r)]))
    except Exception:  # noqa
        return ("other", type(r).__name__)


def _arraylike(r):
    """the property speaks of values: any array-like of numbers counts as the array result"""
    if r is None:
        return False
    try:
        return np.ndim(r) > 0 and np.asarray(r, dtype=float).size >= 0
    except Exception:  # noqa
        return False


def build_q(fam, hist):
    F = FAMILIES[fam]
    st = QState()
    args = dict((k, v) for k, v in hist[0][1])
    hsd0 = args.pop("hsd0", False)
    st.obj = F["new"](args)
    st.obj.handle_small_distances_bool = hsd0
    st.hsd = hsd0
    m = dict(F["defaults"])
    m.update((k, v) for k, v in args.items() if k != "default")
    st.model = m
    st.arrays = {k: np.array(v, dtype=float) for k, v in Q_ARRAYS.items()}
    st.arrays["pll"] = 10.0 ** (-st.arrays["pl"] / 10.0)
    st.bytes = {k: a.tobytes() for k, a in st.arrays.items()}
    for ev in hist[1:]:
        st.last = None
        if ev[0] == "query":
            _, kind, arr = ev
            tag, r, x = q_do(st, kind, arr)
            rec = dict(kind=kind, arr=arr, hsd=st.hsd, model=dict(m))
            rec["result"] = q_result(tag, r)
            if tag is not None:
                st.last_result = None
            else:
                rec["aliases_input"] = isinstance(r, np.ndarray) and isinstance(x, np.ndarray) \
                    and bool(np.shares_memory(r, x))
                st.last_result = r if isinstance(r, np.ndarray) else None
            rec["inputs_intact"] = all(st.arrays[k].tobytes() == st.bytes[k] for k in st.arrays)
            st.last = rec
        elif ev[0] == "clone":
            try:
                c = clone_of(st.obj, ev[1])
            except Exception as e:  # noqa - cloning is not part of the property: unavailable = outcome only
                st.clone_note = (ev[1], "unavailable:" + type(e).__name__)
                continue
            st.clone_note = (ev[1], "cloned")
            st.original, st.obj = st.obj, c
        elif ev[0] == "mutate":
            if st.last_result is not None and st.last_result.flags.writeable:
                st.last_result[...] = -3.25         # the caller scribbles over the array it was given
        else:
            attr, value = ev
            setattr(st.obj, attr, value)
            if attr == "handle_small_distances_bool":
                st.hsd = value
            else:
                m[attr] = value
    return st


def _cmp_query(chk, fam, case, what, kind, got, exp, cf_tol):
    """compare one query result (tag, array) with the closed-form expectation"""
    if exp[0] == "raise":
        if got[0] != "raise":
            chk.fail((SITE[fam], "query_history", "small_distance_does_not_raise"), case,
                     observed="%s %s: %r" % (what, kind, _short(got)), expected=exp[1])
        return
    if got[0] != "a" or got[1].shape != exp[1].shape:
        if got[0] == "raise" and what.endswith("adm_list"):
            chk.fail((SITE[fam], "list_of_distances_rejected", got[1]), case, observed=got,
                     expected="an array (the docstring of calc_path_loss_dB admits list[float])")
        else:
            chk.fail((SITE[fam], "query_history", "fails_or_wrong_shape"), case,
                     observed="%s %s: %r" % (what, kind, _short(got)), expected=_short(exp[:2]))
        return
    g, w, dec = got[1], exp[1], exp[2]
    if kind == "dB":
        ok = np.abs(g - w) <= cf_tol
    else:
        ok = np.abs(g - w) <= (TOL_REL + 0.2303 * (cf_tol - TOL_DB) * 1.001) * np.abs(w) * \
            (1.0 if kind == "lin" else 1.0)
    ok = ok | ~dec
    if not np.all(ok):
        j = int(np.nonzero(~ok)[0][0])
        chk.fail((SITE[fam], "query_history", "value"), case, observed="%s %s: %r" % (what, kind, g),
                 expected=w, msg="first wrong entry %d" % j)


def check_query_state(chk, fam, hist, st):
    F = FAMILIES[fam]
    case = {"part": "query", "family": fam, "history": [_ev_json(h) for h in hist]}
    chk.count("eval_query_states")
    if len(hist) >= 3:
        chk.nontriv((fam, "query") + tuple(hist[1:]))
    cf_tol = F["cf_tol"](st.model)
    # ---- the last event, if it is a query ----
    rec = st.last
    if rec is not None:
        chk.count("eval_query_events")
        what = "query_%s" % rec["arr"]
        exp = q_expected(fam, rec["model"], rec["hsd"], rec["kind"], q_values(rec["arr"]))
        chk.outcome("query_outcome", (fam, rec["kind"], rec["arr"], rec["hsd"], exp[0]))
        if not rec["inputs_intact"]:
            chk.fail((SITE[fam], "query_history", "input_array_not_bit_identical_after_call"), case, observed=what)
        if rec.get("aliases_input"):
            chk.fail((SITE[fam], "query_history", "result_shares_memory_with_input"), case, observed=what)
        _cmp_query(chk, fam, case, what, rec["kind"], rec["result"], exp, cf_tol)
    # ---- observation after the history, same array objects, against closed form and a fresh object ----
    fresh = F["fresh"](st.model)
    fresh.handle_small_distances_bool = st.hsd
    if st.clone_note is not None:
        chk.outcome("clone", (fam, st.hsd) + st.clone_note)
        chk.count("eval_clones")
    objs = [("", st.obj)]
    if st.original is not None:
        objs.append(("original_next_to_its_clone ", st.original))      # clone first, then the original again
    for who, the_obj in objs:
      st_obj_saved, st.obj = st.obj, the_obj
      for kind, arr in q_kinds(fam):
        tag, r, x = q_do(st, kind, arr)
        got = q_result(tag, r)
        exp = q_expected(fam, st.model, st.hsd, kind, q_values(arr))
        _cmp_query(chk, fam, case, who + ("clone_" if st.original is not None and not who else "")
                   + "observation_after_history_%s" % arr, kind, got, exp, cf_tol)
        try:
            gf = q_result(None, getattr(fresh, Q_METHOD[kind])(np.array(x, dtype=float) if np.ndim(x) else x))
        except Exception as e:  # noqa
            gf = ("raise", type(e).__name__)
        chk.count("eval_differential")
        if not _same(got, gf, 1e-12):
            chk.fail((SITE[fam], "query_history", "differs_from_fresh_object"), case,
                     observed="%s%s %s: %r" % (who, kind, arr, _short(got)), expected=_short(gf))
      st.obj = st_obj_saved
    if any(st.arrays[k].tobytes() != st.bytes[k] for k in st.arrays):
        chk.fail((SITE[fam], "query_history", "input_array_not_bit_identical_after_call"), case,
                 observed="observation after the history")
    # scalar forms of the same distances
    for d in Q_ARRAYS["mix"]:
        exp = q_expected(fam, st.model, st.hsd, "dB", [d])
        got = _call(st.obj.calc_path_loss_dB, d)
        if exp[0] == "raise":
            if got[0] != "raise":
                chk.fail((SITE[fam], "query_history", "small_distance_does_not_raise"),
                         dict(case, d=d), observed="scalar dB: %r" % (got,), expected="RuntimeError")
        elif exp[2][0] and (got[0] != "v" or not abs(got[1] - exp[1][0]) <= cf_tol):
            chk.fail((SITE[fam], "query_history", "value"), dict(case, d=d),
                     observed="scalar dB: %r" % (got,), expected=exp[1][0])


def run_query_family(chk, fam, depth):
    inits, evs = q_alphabet(fam)

    def b(hist):
        return build_q(fam, hist)

    def enabled(hist, st):
        ok = [e for e in evs if e[0] != "mutate" or st.last_result is not None]
        if len(hist) - 1 >= depth - 1:
            # last level: the observation after the history already queries every entry point, so only the
            # events that change something (setters, policy, caller scribbling) are worth a node of their own
            ok = [e for e in ok if e[0] != "query"]
        if hist and hist[-1][0] == "clone":
            return []          # a clone closes the history
        return ok

    def invariant(hist, st):
        case = {"part": "query", "family": fam, "history": [_ev_json(h) for h in hist]}
        with guarded(chk, (fam, "query_history"), case):
            with warnings.catch_warnings():
                warnings.simplefilter("ignore")
                check_query_state(chk, fam, hist, st)

    def canon(hist, st):
        # what a query leaves behind must not matter, so it cannot be part of a reference model:
        # no merging, every history is its own state
        return hist

    bfs.BFS(chk, b, enabled, invariant, canon, depth, label=fam + "_queries").run(inits)


# ----------------------------------------------------------------------
def run_family(chk, fam, depth, inits_subset=None):
    inits, evs = alphabet(fam, chk.tier == "thorough")
    if inits_subset is not None:
        inits = [inits[i] for i in inits_subset]

    def b(hist):
        return build(fam, hist)

    def enabled(hist, st):
        return [] if st.problem is not None else evs

    def invariant(hist, st):
        case = {"part": "pathloss", "family": fam, "history": [_ev_json(h) for h in hist]}
        with guarded(chk, (fam,), case):
            with warnings.catch_warnings():
                warnings.simplefilter("ignore")
                check_pathloss_state(chk, fam, hist, st)

    def canon(hist, st):
        if st.problem is not None:
            return ("failed", hist)
        return (fam, model_key(st), bfs.digest(bfs.state_of(st.obj), 12))

    bfs.BFS(chk, b, enabled, invariant, canon, depth, label=fam).run(inits)


def plan(chk):
    thorough = chk.tier == "thorough"
    depth = 6 if thorough else 4
    jobs = [("pathloss", "okumura_hata", depth, None)]
    for fam in ("free_space", "metis_ps7", "3gpp1"):
        jobs.append(("pathloss", fam, depth, None))
    n_general = len(alphabet("general", thorough)[0])
    for i in range(n_general):
        jobs.append(("pathloss", "general", depth, [i]))
    jobs.append(("antenna", None, 0, None))
    for fam in ("okumura_hata", "free_space", "metis_ps7", "general", "3gpp1"):
        jobs.append(("query", fam, 4 if thorough else 3, None))
    jobs.append(("dtype", None, 0, None))
    return jobs


def main(chk: Check):
    chk.assume("use_shadow_bool stays False (shadowing is random and outside the property)")
    chk.assume("admissible distance = closed-form loss > %g dB; too small = closed-form loss < -%g dB; "
               "distances in between are excluded and counted" % (ZERO_MARGIN_DB, ZERO_MARGIN_DB))
    chk.assume("free space is compared with the exact-c Friis formula generalised to exponent n within "
               "%g*n dB (the library uses c = 3e8); every other relation uses %g dB / %g relative"
               % (FRIIS_DB_PER_N, TOL_DB, TOL_REL))
    chk.assume("Okumura-Hata large-city correction switches formula at fc > 300 MHz (docstring)")
    chk.assume("setters without documented validation (free-space n, fc; METIS fc) only get physically valid values")
    jobs = plan(chk)
    thorough = chk.tier == "thorough"
    chk.assume("float32/float16 inputs: the result may carry the precision of the input dtype (tolerance %g*eps of "
               "that dtype); integer dtypes and Python numbers must give the float64 result; float16 distances are "
               "excluded (counted) from the linear path-loss view and from which_distance_dB, whose values leave the "
               "half-precision range"
               % FLOAT_FORM_C)
    chk.extra["tolerances"] = {"TOL_DB": TOL_DB, "TOL_REL": TOL_REL, "FRIIS_DB_PER_N": FRIIS_DB_PER_N,
                               "ZERO_MARGIN_DB": ZERO_MARGIN_DB}
    chk.extra["depth"] = jobs[0][2]
    chk.extra["pairwise_axes"] = {
        "memory layout x small-distance policy x entry point": "12 layouts (list, read-only, 1-D view, float32, 2-D C / F "
        "/ transposed / strided / F-transposed, 3-D C / swapaxes / F) x {raise, clamp} x {dB, linear}, mixed arrays, "
        "every model (presentation part)",
        "presentation of one value x threshold zone x policy": "14 presentations x below/at/above x both policies",
        "query entry point x setter": "query BFS: every (query, setter) pair as query -> setter -> observation of every "
        "entry point (calc_path_loss[_dB], which_distance[_dB], array and scalar forms)",
        "distance shape x num_walls shape": "16 broadcast-compatible pairs (METIS)",
        "dtype x entry point": "numeric forms part"}

    def worker(i, n, c):
        for j in range(i, len(jobs), n):
            part, fam, depth, sub = jobs[j]
            if part == "pathloss":
                run_family(c, fam, depth, sub)
            elif part == "query":
                run_query_family(c, fam, depth)
            elif part == "dtype":
                for f2 in FAMILIES:
                    inits = alphabet(f2, thorough)[0]
                    for h in (inits if thorough else inits[:2]):
                        case = {"part": "dtype", "family": f2, "history": [_ev_json(e) for e in h]}
                        with guarded(c, (f2, "numeric_forms"), case):
                            with warnings.catch_warnings():
                                warnings.simplefilter("ignore")
                                check_pathloss_numeric_forms(c, f2, h)
                        c.states += 1
                    for h in (inits if thorough else inits[:2]) + PRESENTATION_ROOTS_EXTRA.get(f2, []):
                        case = {"part": "presentation", "family": f2, "history": [_ev_json(e) for e in h]}
                        with guarded(c, (SITE[f2], "presentation"), case):
                            with warnings.catch_warnings():
                                warnings.simplefilter("ignore")
                                check_presentations(c, f2, h)
                        c.states += 2
            else:
                for case in antenna_cases():
                    with guarded(c, ("antenna_" + case["kind"],), case):
                        check_antenna(c, case)
                    c.states += 1

    run_shards(chk, worker)
    chk.sample({"part": "pathloss", "family": "free_space",
                "history": [["new", [["default", True]]], ["fc", 2400.0], ["n", 3.5]]})
    if not chk.violations:
        # vacuity only matters for a "holds" verdict; a violated run must stay a VIOLATION
        chk.require_outcomes("small_distance_policy", 12)
        chk.require_outcomes("invalid_call", 7)
        chk.require_outcomes("inverse_offered", 4)
        chk.require_outcomes("antenna", 8)
        chk.require_outcomes("numeric_form", 100)
        chk.require_outcomes("presentation", 200)
        chk.require_outcomes("wall_broadcast", 30)
        chk.require_outcomes("layout_x_policy", 40)
        chk.require_outcomes("clone", 12)
        chk.require_outcomes("query_outcome", 30)


def replay(case, chk: Check):
    if case.get("part") == "antenna":
        with guarded(chk, ("antenna_" + case["kind"],), case):
            check_antenna(chk, {k: v for k, v in case.items()})
        return
    fam = case["family"]
    hist = tuple(_ev_from_json(h) for h in case["history"])
    if case.get("part") == "query":
        base = {"part": "query", "family": fam, "history": case["history"]}
        with guarded(chk, (fam, "query_history"), base):
            with warnings.catch_warnings():
                warnings.simplefilter("ignore")
                check_query_state(chk, fam, hist, build_q(fam, hist))
        return
    if case.get("part") == "presentation":
        base = {"part": "presentation", "family": fam, "history": case["history"]}
        with guarded(chk, (SITE[fam], "presentation"), base):
            with warnings.catch_warnings():
                warnings.simplefilter("ignore")
                check_presentations(chk, fam, hist)
        return
    if case.get("part") == "dtype":
        base = {"part": "dtype", "family": fam, "history": case["history"]}
        with guarded(chk, (fam, "numeric_forms"), base):
            with warnings.catch_warnings():
                warnings.simplefilter("ignore")
                check_pathloss_numeric_forms(chk, fam, hist)
        return
    base = {"part": "pathloss", "family": fam, "history": case["history"]}
    with guarded(chk, (fam,), base):
        with warnings.catch_warnings():
            warnings.simplefilter("ignore")
            check_pathloss_state(chk, fam, hist, build(fam, hist))
